"""The extractor: abstract interpretation of `__init__` / `elaborate()` (and every helper they call)
over the Python AST, producing a ModuleIR.  Nothing of /repo is imported or executed; Python-level
computation (constant folding, loop unrolling, helper inlining, table lookups) happens on abstract values.
"""
from __future__ import annotations
import ast
import os
import math
import operator
import struct

from .ir import (E, Obj, SigInfo, Lit, Loc, Assign, Edge, FSMInfo, Submodule, ModuleIR, literals,
                 AnalysisError, NOVAL)
from .values import *          # noqa
from . import hdl

MAX_DEPTH = 14
MAX_UNROLL = 4096


class Env:
    __slots__ = ('vars', 'parent', 'globals_mod', 'nonlocal_names')

    def __init__(self, parent=None, globals_mod=None):
        self.vars = {}
        self.parent = parent
        self.globals_mod = globals_mod if globals_mod is not None else (parent.globals_mod if parent else None)
        self.nonlocal_names = set()

    def lookup(self, name):
        e = self
        while e is not None:
            if name in e.vars:
                return e.vars[name]
            e = e.parent
        raise KeyError(name)

    def set(self, name, value):
        if name in self.nonlocal_names:
            e = self.parent
            while e is not None:
                if name in e.vars:
                    e.vars[name] = value
                    return
                e = e.parent
        self.vars[name] = value


class Frame:
    """One entry of the HDL context stack (If / Elif / Else / Switch / Case / FSM / State)."""
    def __init__(self, kind, lits=(), data=None):
        self.kind = kind
        self.lits = tuple(lits)
        self.data = data
        self.chain = None          # If-chain of the block *inside* this frame
        self.switch = None


class Interp:
    def __init__(self, index, mode='default'):
        self.index = index
        self.mode = mode
        self.ir = None
        self.frames = [Frame('root')]
        self.callstack = []        # (file, line) of active inlined call sites
        self.curfile = '?'
        self.curline = 0
        self.order = 0
        self.depth = 0
        self.anon = 0
        self.fsm_count = 0
        self.module_envs = {}
        self.module_val_cache = {}
        self.pycfg = []            # python-level cfg literals currently in force
        self.m_val = None
        self.interned = {}
        self.warnings = []

    # ------------------------------------------------------------------ helpers
    def loc(self, node=None):
        line = getattr(node, 'lineno', None) or self.curline
        return Loc(self.callstack + [(self.curfile, line)])

    def opaque(self, node, why):
        src = ast.unparse(node) if isinstance(node, ast.AST) else str(node)
        if self.ir is not None:
            self.ir.opaque.append((src[:200], self.loc(node if isinstance(node, ast.AST) else None), why))

    def fresh(self, prefix='$anon'):
        self.anon += 1
        return '%s%d' % (prefix, self.anon)

    def module_env(self, mod):
        env = self.module_envs.get(mod.name)
        if env is None:
            env = Env(globals_mod=mod)
            self.module_envs[mod.name] = env
        return env

    def guard(self):
        lits = []
        for fr in self.frames:
            lits.extend(fr.lits)
        return tuple(self.pycfg) + _drop_implied(lits)

    def cur_states(self):
        out = []
        fsm = None
        for fr in self.frames:
            if fr.kind == 'fsm':
                fsm = fr.data
            elif fr.kind == 'state':
                out.append((fsm.id, fr.data))
        return tuple(out)

    def sym(self, name, parent=None, w=None, kind='symbolic'):
        key = (id(parent), name)
        si = self.interned.get(key)
        if si is None:
            si = SigInfo(name, parent=parent, w=w, kind=kind, loc=None)
            self.interned[key] = si
        return E('sig', (si,), w=si.w)

    # ------------------------------------------------------------------ name resolution
    def lookup_name(self, name, env, node=None):
        try:
            return env.lookup(name)
        except KeyError:
            pass
        mod = env.globals_mod
        return self.lookup_global(mod, name, node)

    def lookup_global(self, mod, name, node=None):
        key = (mod.name if mod else None, name)
        if key in self.module_val_cache:
            return self.module_val_cache[key]
        v = self._lookup_global(mod, name, node)
        self.module_val_cache[key] = v
        return v

    def _lookup_global(self, mod, name, node):
        r = self.index.resolve_name(mod, name) if mod is not None else None
        if r is not None:
            kind = r[0]
            if kind == 'class':
                return ClassRef(r[1])
            if kind == 'func':
                return FuncRef(r[1], r[2], closure=None)
            if kind == 'expr':
                omod = r[2]
                saved = (self.curfile,)
                self.curfile = omod.relpath
                try:
                    return self.eval(r[1], self.module_env(omod))
                finally:
                    self.curfile = saved[0]
            if kind == 'module':
                return ModRef(info=r[1])
            if kind == 'external':
                dotted = r[1]
                return self.external(dotted)
        return self.external(name)

    def external(self, dotted):
        last = dotted.split('.')[-1]
        root = dotted.split('.')[0]
        if dotted in ('math', 'operator', 'functools', 'struct', 'os', 'itertools', 'collections', 'enum', 'sys',
                      'logging', 'warnings', 'random', 'time', 'unittest', 'usb_protocol', 'amaranth'):
            return ModRef(ext=dotted)
        if root in ('math', 'operator', 'functools', 'struct', 'itertools'):
            return Builtin(dotted)
        if hdl.is_builtin(last):
            return Builtin(last)
        import builtins as _b
        if os.environ.get('VERIF_STRICT_NAMES', '1') != '0' and '.' not in dotted and not hasattr(_b, dotted):
            # a bare name nothing defines (an assignment form the index does not follow): never a value to compute with
            return Unknown('unresolved name ' + dotted)
        return Builtin(last)

    # ------------------------------------------------------------------ expression evaluation
    def eval(self, node, env):
        meth = getattr(self, 'e_' + type(node).__name__, None)
        if meth is None:
            return Unknown(ast.unparse(node))
        if hasattr(node, 'lineno'):
            self.curline = node.lineno
        return meth(node, env)

    def e_Constant(self, node, env):
        return node.value

    def e_Name(self, node, env):
        n = node.id
        if n == 'True':
            return True
        if n == 'False':
            return False
        if n == 'None':
            return None
        return self.lookup_name(n, env, node)

    def e_Attribute(self, node, env):
        base = self.eval(node.value, env)
        return self.getattr(base, node.attr, node)

    def e_Tuple(self, node, env):
        return tuple(self._elts(node.elts, env))

    def e_List(self, node, env):
        return list(self._elts(node.elts, env))

    def e_Set(self, node, env):
        out = []
        for v in self._elts(node.elts, env):
            if v not in out:
                out.append(v)
        try:
            return set(out)
        except TypeError:
            return out

    def _elts(self, elts, env):
        out = []
        for e in elts:
            if isinstance(e, ast.Starred):
                v = self.eval(e.value, env)
                it = self.iterate(v, e)
                if it is None:
                    out.append(Unknown('*' + ast.unparse(e.value)))
                else:
                    out.extend(it)
            else:
                out.append(self.eval(e, env))
        return out

    def e_Dict(self, node, env):
        d = {}
        for k, v in zip(node.keys, node.values):
            if k is None:
                sub = self.eval(v, env)
                if isinstance(sub, dict):
                    d.update(sub)
                continue
            kk = self.eval(k, env)
            try:
                d[kk] = self.eval(v, env)
            except TypeError:
                d[repr(kk)] = self.eval(v, env)
        return d

    def e_JoinedStr(self, node, env):
        parts = []
        for v in node.values:
            if isinstance(v, ast.Constant):
                parts.append(str(v.value))
            else:
                val = self.eval(v.value, env)
                pv = pval(val)
                if pv is NOVAL:
                    pv = val.canon() if isinstance(val, E) else repr(val)
                if v.format_spec is not None:
                    spec = self.eval(v.format_spec, env)
                    try:
                        parts.append(format(pv, spec))
                    except Exception:
                        parts.append(str(pv))
                elif v.conversion == 114:
                    parts.append(repr(pv))
                else:
                    parts.append(str(pv))
        return ''.join(parts)

    def e_FormattedValue(self, node, env):
        return self.eval(node.value, env)

    def e_Lambda(self, node, env):
        return FuncRef(node, env.globals_mod, closure=env, name='<lambda>')

    def e_IfExp(self, node, env):
        c = self.eval(node.test, env)
        t = self.truth(c)
        if t is True:
            return self.eval(node.body, env)
        if t is False:
            return self.eval(node.orelse, env)
        a = self.eval(node.body, env)
        b = self.eval(node.orelse, env)
        ce = hdl.as_expr(self, c)
        if isinstance(a, (E, int, Obj)) and isinstance(b, (E, int, Obj)):
            return E('pyif', (ce, hdl.as_expr(self, a), hdl.as_expr(self, b)))
        return a

    def e_BoolOp(self, node, env):
        is_and = isinstance(node.op, ast.And)
        last = None
        unknowns = []
        for vn in node.values:
            v = self.eval(vn, env)
            t = self.truth(v)
            if t is None:
                unknowns.append(v)
                last = v
                continue
            if is_and and t is False:
                return v if not unknowns else False
            if (not is_and) and t is True:
                if not unknowns:
                    return v
                unknowns.append(v)
                break
            last = v
        if unknowns:
            if len(unknowns) == 1:
                return unknowns[0]
            acc = hdl.as_expr(self, unknowns[0])
            for u in unknowns[1:]:
                acc = E('pyand' if is_and else 'pyor', (acc, hdl.as_expr(self, u)), w=1)
            return acc
        return last

    def e_UnaryOp(self, node, env):
        v = self.eval(node.operand, env)
        if isinstance(node.op, ast.Not):
            t = self.truth(v)
            if t is None:
                return E('pynot', (hdl.as_expr(self, v),), w=1)
            return not t
        return hdl.unop(self, type(node.op).__name__, v)

    def e_BinOp(self, node, env):
        a = self.eval(node.left, env)
        b = self.eval(node.right, env)
        return hdl.binop(self, type(node.op).__name__, a, b, node)

    def e_Compare(self, node, env):
        left = self.eval(node.left, env)
        result = None
        for op, rn in zip(node.ops, node.comparators):
            right = self.eval(rn, env)
            r = hdl.compare(self, type(op).__name__, left, right, node)
            if result is None:
                result = r
            else:
                t1, t2 = self.truth(result), self.truth(r)
                if t1 is False or t2 is False:
                    result = False
                elif t1 is True:
                    result = r
                elif t2 is True:
                    pass
                else:
                    result = E('pyand', (hdl.as_expr(self, result), hdl.as_expr(self, r)), w=1)
            left = right
        return result

    def e_Subscript(self, node, env):
        base = self.eval(node.value, env)
        if isinstance(node.slice, ast.Slice):
            lo = self.eval(node.slice.lower, env) if node.slice.lower is not None else None
            hi = self.eval(node.slice.upper, env) if node.slice.upper is not None else None
            st = self.eval(node.slice.step, env) if node.slice.step is not None else None
            return hdl.subscript(self, base, slice(lo, hi, st), node)
        idx = self.eval(node.slice, env)
        return hdl.subscript(self, base, idx, node)

    def e_Starred(self, node, env):
        return self.eval(node.value, env)

    def e_NamedExpr(self, node, env):
        v = self.eval(node.value, env)
        self.assign_target(node.target, v, env)
        return v

    def _comp(self, gens, env, emit):
        def rec(i, env2):
            if i == len(gens):
                emit(env2)
                return
            g = gens[i]
            it = self.iterate(self.eval(g.iter, env2), g.iter)
            if it is None:
                it = [Unknown('elem of ' + ast.unparse(g.iter))]
            for item in it:
                e3 = Env(parent=env2)
                self.assign_target(g.target, item, e3)
                ok = True
                for cond in g.ifs:
                    t = self.truth(self.eval(cond, e3))
                    if t is False:
                        ok = False
                        break
                if ok:
                    self._tok_push()
                    try:
                        rec(i + 1, e3)
                    finally:
                        self._tok_pop()
        rec(0, env)

    # execution-context tokens: a fresh one per function call and per loop / comprehension iteration.  A Signal remembers the
    # stack at its creation; only an assignment executed under the very same stack is known to execute once for that signal.
    def _tok_push(self):
        st = self.__dict__.setdefault('ctx_tokens', [])
        self.__dict__['_tok_n'] = self.__dict__.get('_tok_n', 0) + 1
        st.append(self.__dict__['_tok_n'])

    def _tok_pop(self):
        self.__dict__.setdefault('ctx_tokens', [0]).pop()

    def e_ListComp(self, node, env):
        out = []
        self._comp(node.generators, env, lambda e: out.append(self.eval(node.elt, e)))
        return out

    e_GeneratorExp = e_ListComp

    def e_SetComp(self, node, env):
        out = []
        self._comp(node.generators, env, lambda e: out.append(self.eval(node.elt, e)))
        try:
            return set(out)
        except TypeError:
            return out

    def e_DictComp(self, node, env):
        out = {}

        def emit(e):
            k = self.eval(node.key, e)
            try:
                out[k] = self.eval(node.value, e)
            except TypeError:
                out[repr(k)] = self.eval(node.value, e)
        self._comp(node.generators, env, emit)
        return out

    def e_Call(self, node, env):
        fn = self.eval(node.func, env)
        args = []
        for a in node.args:
            if isinstance(a, ast.Starred):
                v = self.eval(a.value, env)
                it = self.iterate(v, a)
                if it is None:
                    args.append(Unknown('*' + ast.unparse(a.value)))
                else:
                    args.extend(it)
            else:
                args.append(self.eval(a, env))
        kwargs = {}
        for k in node.keywords:
            if k.arg is None:
                v = self.eval(k.value, env)
                if isinstance(v, dict):
                    for kk, vv in v.items():
                        kwargs[str(kk)] = vv
            else:
                kwargs[k.arg] = self.eval(k.value, env)
        self.curline = node.lineno
        return self.call(fn, args, kwargs, node)

    # ------------------------------------------------------------------ truthiness / iteration
    def truth(self, v):
        """True / False when decidable, None when it depends on something symbolic."""
        if isinstance(v, E):
            if v.op == 'const':
                return bool(v.val)
            if v.op == 'param':
                if v.val is NOVAL:
                    return None
                return bool(v.val)
            if v.op == 'pynot':
                t = self.truth(v.args[0])
                return None if t is None else (not t)
            return None
        if isinstance(v, Unknown):
            return None
        if isinstance(v, (Obj, ClassRef, FuncRef, Builtin, ModRef, Stmt, CtxVal)):
            return True
        try:
            return bool(v)
        except Exception:
            return None

    def iterate(self, v, node=None):
        """A Python list of the items of an iterable abstract value, or None."""
        if isinstance(v, (list, tuple, set, frozenset, range, str, bytes)):
            if isinstance(v, range) and len(v) > MAX_UNROLL:
                return None
            if isinstance(v, (set, frozenset)):
                try:
                    return sorted(v)
                except TypeError:
                    return list(v)
            if isinstance(v, bytes):
                return list(v)
            return list(v)
        if isinstance(v, dict):
            return list(v.keys())
        if isinstance(v, E):
            if v.op == 'param' and v.val is not NOVAL:
                return self.iterate(v.val, node)
            if v.op == 'cat' or (v.w is not None and v.op != 'param'):
                n = v.w
                if n is not None and n <= 4096:
                    return [hdl.subscript(self, v, i, node) for i in range(n)]
            if v.op == 'sig' and v.args[0].kind in ('collection',):
                return [self.collection_elem(v)]
            return None
        if isinstance(v, Obj):
            if v.is_record and v.fields is not None:
                return [v.attrs[f] for f in v.fields]
            if getattr(v, 'items_list', None) is not None:
                return list(v.items_list)
        if isinstance(v, ClassRef):
            # iterating an enum class yields its members (in definition order)
            cls = v.info
            names = [t.id for st in getattr(cls.node, 'body', []) if isinstance(st, ast.Assign)
                     for t in st.targets if isinstance(t, ast.Name) and not t.id.startswith('_')]
            vals = [hdl.class_attr(self, cls, n) for n in names]
            if names and all(isinstance(x, EnumVal) or (isinstance(x, int) and not isinstance(x, bool)) for x in vals):
                return vals
        return None

    def collection_elem(self, coll):
        si = coll.args[0]
        o = getattr(si, '_elem', None)
        return o

    # ------------------------------------------------------------------ attribute access
    def getattr(self, base, attr, node=None):
        return hdl.getattr_(self, base, attr, node)

    # ------------------------------------------------------------------ calls
    def call(self, fn, args, kwargs, node=None):
        if isinstance(fn, FuncRef):
            return self.call_func(fn, args, kwargs, node)
        if isinstance(fn, ClassRef):
            return self.instantiate(fn.info, args, kwargs, node)
        if isinstance(fn, Builtin):
            return hdl.call_builtin(self, fn, args, kwargs, node)
        if isinstance(fn, Obj):
            m = self.index.find_method(fn.cls, '__call__') if fn.cls else None
            if m:
                return self.call_func(FuncRef(m[1], m[0].mod, self_obj=fn, cls=m[0]), args, kwargs, node)
        if isinstance(fn, E) and fn.op == 'sig':
            # method call on a symbolic object, e.g. self.utmi.attach(...): keep it as an opaque call
            return E('call', (fn.args[0].name,) + tuple(hdl.as_expr(self, a) for a in args
                                                       if isinstance(a, (E, int, Obj))))
        return Unknown('call ' + (ast.unparse(node) if node is not None else repr(fn)))

    def call_func(self, fn, args, kwargs, node=None):
        if self.depth >= MAX_DEPTH:
            self.opaque(node or fn.node, 'call depth limit')
            return Unknown('depth')
        fnode = fn.node
        a = fnode.args
        parent = fn.closure if fn.closure is not None else self.module_env(fn.mod)
        env = Env(parent=parent, globals_mod=fn.mod)
        params = [p.arg for p in a.posonlyargs + a.args]
        positional = list(args)
        is_static = isinstance(fnode, ast.FunctionDef) and any(
            isinstance(d, ast.Name) and d.id == 'staticmethod' for d in fnode.decorator_list)
        is_classm = isinstance(fnode, ast.FunctionDef) and any(
            isinstance(d, ast.Name) and d.id == 'classmethod' for d in fnode.decorator_list)
        if fn.self_obj is not None and not is_static:
            if is_classm:
                so = fn.self_obj
                positional = [ClassRef(so.cls) if isinstance(so, Obj) and so.cls else so] + positional
            else:
                positional = [fn.self_obj] + positional
        # defaults
        defaults = a.defaults
        ndef = len(defaults)
        def_env = parent
        for i, p in enumerate(params):
            if i < len(positional):
                env.vars[p] = positional[i]
            elif p in kwargs:
                env.vars[p] = kwargs[p]
            else:
                di = i - (len(params) - ndef)
                if di >= 0:
                    env.vars[p] = self._default(defaults[di], def_env, fn)
                else:
                    env.vars[p] = E('param', (p,), val=NOVAL)
        if a.vararg is not None:
            env.vars[a.vararg.arg] = tuple(positional[len(params):])
        for p, d in zip(a.kwonlyargs, a.kw_defaults):
            if p.arg in kwargs:
                env.vars[p.arg] = kwargs[p.arg]
            elif d is not None:
                env.vars[p.arg] = self._default(d, def_env, fn)
            else:
                env.vars[p.arg] = E('param', (p.arg,), val=NOVAL)
        if a.kwarg is not None:
            known = set(params) | {p.arg for p in a.kwonlyargs}
            env.vars[a.kwarg.arg] = {k: v for k, v in kwargs.items() if k not in known}
        env.vars['$fn'] = fn
        # run
        saved = (self.curfile, self.curline, list(self.callstack))
        if node is not None:
            self.callstack = self.callstack + [(self.curfile, getattr(node, 'lineno', self.curline))]
        self.curfile = fn.mod.relpath if fn.mod is not None else self.curfile
        self.depth += 1
        self._tok_push()
        cfg_len = len(self.pycfg)
        if self.ir is not None:
            self.ir.helpers_inlined += 1
        try:
            if isinstance(fnode, ast.Lambda):
                return self.eval(fnode.body, env)
            if _is_generator(fnode):
                out = []
                env.vars['$yield'] = out
                try:
                    self.exec_block(fnode.body, env)
                except ReturnEx:
                    pass
                return out
            try:
                self.exec_block(fnode.body, env)
            except ReturnEx as r:
                return r.value
            return None
        finally:
            self.depth -= 1
            self._tok_pop()
            del self.pycfg[cfg_len:]
            self.curfile, self.curline, self.callstack = saved

    def _default(self, dnode, env, fn):
        saved = self.curfile
        self.curfile = fn.mod.relpath if fn.mod is not None else saved
        try:
            return self.eval(dnode, env)
        finally:
            self.curfile = saved

    def instantiate(self, cls, args, kwargs, node=None, as_params=False):
        return hdl.instantiate(self, cls, args, kwargs, node)

    # ------------------------------------------------------------------ statements
    def exec_block(self, body, env):
        for st in body:
            self.exec(st, env)

    def exec(self, st, env):
        self.curline = getattr(st, 'lineno', self.curline)
        meth = getattr(self, 's_' + type(st).__name__, None)
        if meth is None:
            self.opaque(st, 'statement kind not modelled')
            return
        return meth(st, env)

    def s_Pass(self, st, env):
        pass

    def s_Import(self, st, env):
        for al in st.names:
            nm = (al.asname or al.name.split('.')[0])
            m = self.index.modules.get(al.name)
            env.set(nm, ModRef(info=m) if m else ModRef(ext=al.name))

    def s_ImportFrom(self, st, env):
        mod = env.globals_mod
        base = mod._resolve_from(st) if mod is not None else st.module
        for al in st.names:
            target = self.index.modules.get(base)
            v = None
            if target is not None:
                r = self.index.resolve_name(target, al.name)
                if r is not None:
                    v = self.lookup_global(target, al.name)
                elif self.index.modules.get(base + '.' + al.name):
                    v = ModRef(info=self.index.modules[base + '.' + al.name])
            if v is None:
                v = self.external((base or '') + '.' + al.name)
            env.set(al.asname or al.name, v)

    def s_Global(self, st, env):
        pass

    def s_Nonlocal(self, st, env):
        env.nonlocal_names.update(st.names)

    def s_Assert(self, st, env):
        pass

    def s_Raise(self, st, env):
        # a raise on a path we are following: treat as end of this path
        raise ReturnEx(Unknown('raise'))

    def s_Delete(self, st, env):
        pass

    def s_Expr(self, st, env):
        if isinstance(st.value, ast.Constant):
            return
        if isinstance(st.value, (ast.Yield, ast.YieldFrom)):
            out = env_lookup_yield(env)
            if st.value.value is not None and out is not None:
                v = self.eval(st.value.value, env)
                if isinstance(st.value, ast.YieldFrom):
                    it = self.iterate(v, st)
                    out.extend(it or [])
                else:
                    out.append(v)
            return
        v = self.eval(st.value, env)
        if isinstance(v, Stmt):
            self.opaque(st, 'statement built but not added to a domain')

    def s_FunctionDef(self, st, env):
        env.set(st.name, FuncRef(st, env.globals_mod, closure=env, name=st.name))

    def s_ClassDef(self, st, env):
        from .index import ClassInfo
        env.set(st.name, ClassRef(ClassInfo(st.name, st, env.globals_mod)))

    def s_Return(self, st, env):
        raise ReturnEx(self.eval(st.value, env) if st.value is not None else None)

    def s_Break(self, st, env):
        raise BreakEx()

    def s_Continue(self, st, env):
        raise ContinueEx()

    def s_Try(self, st, env):
        try:
            self.exec_block(st.body, env)
        except (ReturnEx, BreakEx, ContinueEx):
            raise
        self.exec_block(st.orelse, env)
        self.exec_block(st.finalbody, env)

    def s_AnnAssign(self, st, env):
        if st.value is not None:
            v = self.eval(st.value, env)
            self.assign_target(st.target, v, env, st)

    def s_Assign(self, st, env):
        v = self.eval(st.value, env)
        # name fresh objects after the first plain target
        self._name_value(v, st.targets, env)
        for t in st.targets:
            self.assign_target(t, v, env, st)

    def _name_value(self, v, targets, env):
        names = []
        for t in targets:
            if isinstance(t, ast.Name):
                names.insert(0, (t.id, None))
            elif isinstance(t, ast.Attribute):
                try:
                    b = self.eval(t.value, env)
                except Exception:
                    b = None
                if isinstance(b, Obj):
                    names.append((t.attr, b))
                elif isinstance(b, SubmodulesProxy):
                    names.append((t.attr, None))
            elif isinstance(t, (ast.Tuple, ast.List)) and isinstance(v, (tuple, list)) and len(t.elts) == len(v):
                for tt, vv in zip(t.elts, v):
                    self._name_value(vv, [tt], env)
        if not names:
            return
        nm, parent = names[0]
        hdl.name_value(self, v, nm, parent)

    def assign_target(self, t, v, env, st=None):
        if isinstance(t, ast.Name):
            env.set(t.id, v)
        elif isinstance(t, (ast.Tuple, ast.List)):
            items = self.iterate(v, t)
            if items is None:
                for tt in t.elts:
                    self.assign_target(tt if not isinstance(tt, ast.Starred) else tt.value, Unknown('unpack'), env, st)
                return
            star = [i for i, tt in enumerate(t.elts) if isinstance(tt, ast.Starred)]
            if star:
                i = star[0]
                nafter = len(t.elts) - i - 1
                for tt, vv in zip(t.elts[:i], items[:i]):
                    self.assign_target(tt, vv, env, st)
                self.assign_target(t.elts[i].value, list(items[i:len(items) - nafter]), env, st)
                for tt, vv in zip(t.elts[i + 1:], items[len(items) - nafter:]):
                    self.assign_target(tt, vv, env, st)
            else:
                for tt, vv in zip(t.elts, items):
                    self.assign_target(tt, vv, env, st)
        elif isinstance(t, ast.Attribute):
            base = self.eval(t.value, env)
            self.setattr(base, t.attr, v, st or t)
        elif isinstance(t, ast.Subscript):
            base = self.eval(t.value, env)
            if isinstance(t.slice, ast.Slice):
                return
            idx = self.eval(t.slice, env)
            if isinstance(base, dict):
                try:
                    base[idx] = v
                except TypeError:
                    base[repr(idx)] = v
            elif isinstance(base, list) and isinstance(idx, int) and -len(base) <= idx < len(base):
                base[idx] = v
            elif isinstance(base, SubmodulesProxy):
                self.add_submodule(idx if isinstance(idx, str) else None, v, st)
            elif isinstance(base, DProxy):
                pass
        else:
            self.opaque(t, 'assignment target not modelled')

    def setattr(self, base, attr, v, node):
        if isinstance(base, ModuleVal):
            if attr == 'next':
                self.add_next(v, node)
                return
            return
        if isinstance(base, SubmodulesProxy):
            self.add_submodule(attr, v, node)
            return
        if isinstance(base, DProxy):
            return            # m.d.comb = ... (result of +=) handled in AugAssign
        if isinstance(base, Obj):
            if isinstance(v, E) and v.op == 'param' and v.val is NOVAL and base.leaf == 'self' and base.parent is None:
                # required constructor argument stored on self: becomes the symbolic object self.<attr>
                v = self.sym(attr, parent=base, kind='param')
            base.attrs[attr] = v
            return
        # setattr on something symbolic: ignore

    def s_AugAssign(self, st, env):
        t = st.target
        # m.d.<domain> += ... / m.d[domain] += ...
        if isinstance(t, (ast.Attribute, ast.Subscript)):
            base = self.eval(t.value, env)
            if isinstance(base, DProxy) and isinstance(st.op, ast.Add):
                dom = t.attr if isinstance(t, ast.Attribute) else pval(self.eval(t.slice, env))
                if dom is NOVAL:
                    dv = self.eval(t.slice, env)
                    dom = dv.canon() if isinstance(dv, E) else str(dv)
                v = self.eval(st.value, env)
                self.add_statements(dom, v, st)
                return
            if isinstance(base, ModuleVal) and isinstance(t, ast.Attribute) and t.attr == 'submodules':
                v = self.eval(st.value, env)
                items = v if isinstance(v, (list, tuple)) else [v]
                for it in items:
                    self.add_submodule(None, it, st)
                return
            if isinstance(base, SubmodulesProxy):
                return
        cur = self.eval(_load(t), env)
        v = self.eval(st.value, env)
        if isinstance(cur, DomainProxy) and isinstance(st.op, ast.Add):
            self.add_statements(cur.name, v, st)
            return
        if isinstance(cur, list) and isinstance(st.op, ast.Add):
            it = self.iterate(v, st)
            if it is not None:
                cur.extend(it)          # in-place, like Python
                return
        if isinstance(cur, SubmodulesProxy):
            items = v if isinstance(v, (list, tuple)) else [v]
            for it in items:
                self.add_submodule(None, it, st)
            return
        nv = hdl.binop(self, type(st.op).__name__, cur, v, st)
        self.assign_target(t, nv, env, st)

    def s_If(self, st, env):
        c = self.eval(st.test, env)
        t = self.truth(c)
        if t is True:
            self.exec_block(st.body, env)
            return
        if t is False:
            self.exec_block(st.orelse, env)
            return
        # configuration-dependent Python `if`: analyse both arms under a cfg literal
        ce = hdl.as_expr(self, c)
        lits = literals(ce, True, 'cfg')
        nlits = literals(ce, False, 'cfg')
        for l in lits + nlits:
            l.kind = 'cfg'
        if self.ir is not None:
            self.ir.cfg_forks.append((ce.canon(), self.loc(st)))
        ret_a = ret_b = None
        returned_a = returned_b = False
        before = dict(env.vars)
        self.pycfg.extend(lits)
        try:
            try:
                self.exec_block(st.body, env)
            except ReturnEx as r:
                returned_a, ret_a = True, r.value
        finally:
            del self.pycfg[len(self.pycfg) - len(lits):]
        after_a = dict(env.vars)
        if not returned_a:
            pass
        # else-arm starts from the state before the if
        env.vars.clear()
        env.vars.update(before)
        self.pycfg.extend(nlits)
        try:
            try:
                self.exec_block(st.orelse, env)
            except ReturnEx as r:
                returned_b, ret_b = True, r.value
        finally:
            del self.pycfg[len(self.pycfg) - len(nlits):]
        if returned_a and returned_b:
            if isinstance(ret_a, (E, int)) and isinstance(ret_b, (E, int)) and not isinstance(ret_a, bool):
                raise ReturnEx(E('pyif', (ce, hdl.as_expr(self, ret_a), hdl.as_expr(self, ret_b))))
            raise ReturnEx(ret_a)
        if returned_a:
            # the rest of the function runs only when the condition is false
            self.pycfg.extend(nlits)
            return
        if returned_b:
            env.vars.clear()
            env.vars.update(after_a)
            self.pycfg.extend(lits)
            return
        # merge: variables that differ become pyif values where that makes sense
        after_b = dict(env.vars)
        for k in set(after_a) | set(after_b):
            va, vb = after_a.get(k, NOVAL), after_b.get(k, NOVAL)
            if va is vb:
                continue
            if va is NOVAL:
                env.vars[k] = vb
            elif vb is NOVAL:
                env.vars[k] = va
            elif isinstance(va, (E, int)) and isinstance(vb, (E, int)) and not (isinstance(va, bool) and isinstance(vb, bool) and va == vb):
                ea, eb = hdl.as_expr(self, va), hdl.as_expr(self, vb)
                env.vars[k] = va if ea == eb else E('pyif', (ce, ea, eb), w=ea.w if ea.w == eb.w else None)
            else:
                env.vars[k] = va

    def s_For(self, st, env):
        itv = self.eval(st.iter, env)
        items = self.iterate(itv, st.iter)
        if items is None:
            # loop over a runtime collection: analyse the body once for a symbolic element
            elem = hdl.symbolic_element(self, itv, st.iter)
            items = [elem]
            if self.ir is not None:
                self.ir.cfg_forks.append(('forall ' + ast.unparse(st.iter), self.loc(st)))
        try:
            for item in items:
                self.assign_target(st.target, item, env, st)
                self._tok_push()
                try:
                    self.exec_block(st.body, env)
                except ContinueEx:
                    continue
                finally:
                    self._tok_pop()
            else:
                self.exec_block(st.orelse, env)
        except BreakEx:
            pass

    def s_While(self, st, env):
        n = 0
        try:
            while True:
                t = self.truth(self.eval(st.test, env))
                if t is None:
                    self.opaque(st, 'while with symbolic condition')
                    return
                if not t:
                    break
                n += 1
                if n > 256 and isinstance(st.test, ast.Constant) and st.test.value is True and env_lookup_yield(env) is not None \
                        and all(isinstance(b, ast.Expr) and isinstance(b.value, ast.Yield) for b in st.body):
                    # `while True: yield x` in a generator: an endless supply, consumed lazily by zip() / next() in Python; the
                    # extractor materialises generators, 256 items are more than any consumer in this code base takes
                    return
                if n > MAX_UNROLL:
                    self.opaque(st, 'while bound')
                    return
                self._tok_push()
                try:
                    self.exec_block(st.body, env)
                except ContinueEx:
                    continue
                finally:
                    self._tok_pop()
        except BreakEx:
            pass

    def s_With(self, st, env):
        self._with_items(st.items, 0, st, env)

    def _with_items(self, items, i, st, env):
        if i == len(items):
            self.exec_block(st.body, env)
            return
        item = items[i]
        ctx = self.eval(item.context_expr, env)
        if not isinstance(ctx, CtxVal):
            # unknown context manager: just run the body
            if item.optional_vars is not None:
                self.assign_target(item.optional_vars, ctx, env, st)
            self._with_items(items, i + 1, st, env)
            return
        frame, asval = self.open_ctx(ctx, st)
        if item.optional_vars is not None and asval is not None:
            self.assign_target(item.optional_vars, asval, env, st)
        self.frames.append(frame)
        try:
            self._with_items(items, i + 1, st, env)
        finally:
            self.frames.pop()
            self.close_ctx(frame)

    # ------------------------------------------------------------------ HDL contexts
    def open_ctx(self, ctx, node):
        parent = self.frames[-1]
        k = ctx.kind
        if k == 'If':
            c = hdl.as_expr(self, ctx.args[0]) if ctx.args else E('unk', ('missing',))
            parent.chain = [c]
            return Frame('if', literals(c, True), data=c), None
        if k == 'Elif':
            c = hdl.as_expr(self, ctx.args[0])
            chain = parent.chain
            if chain is None:
                self.opaque(node, 'Elif without If')
                chain = parent.chain = []
            lits = []
            for prev in chain:
                lits += literals(prev, False)
            lits += literals(c, True)
            chain.append(c)
            return Frame('if', lits, data=c), None
        if k == 'Else':
            chain = parent.chain
            if chain is None:
                self.opaque(node, 'Else without If')
                chain = []
            lits = []
            for prev in chain:
                lits += literals(prev, False)
            parent.chain = None
            return Frame('if', lits, data=None), None
        if k == 'Switch':
            fr = Frame('switch', (), data=hdl.as_expr(self, ctx.args[0]))
            fr.switch = []
            return fr, None
        if k in ('Case', 'Default'):
            sw = None
            for fr in reversed(self.frames):
                if fr.kind == 'switch':
                    sw = fr
                    break
            if sw is None:
                self.opaque(node, 'Case outside Switch')
                return Frame('case'), None
            vals = list(ctx.args) if k == 'Case' else []
            flat = []
            for v in vals:
                if isinstance(v, (list, tuple)):
                    flat.extend(v)
                else:
                    flat.append(v)
            lits = []
            for prev in sw.switch:
                lits.append(Lit(prev, False, 'case'))
            if flat:
                me = hdl.case_expr(self, sw.data, flat)
                lits.append(Lit(me, True, 'case'))
                sw.switch.append(me)
            return Frame('case', lits, data=flat), None
        if k == 'FSM':
            kw = ctx.kwargs
            dom = pval(kw.get('domain', 'sync'))
            if dom is NOVAL:
                d = kw.get('domain')
                dom = d.canon() if isinstance(d, E) else str(d)
            init = kw.get('init', kw.get('reset'))
            self.fsm_count += 1
            info = FSMInfo('fsm%d' % self.fsm_count, dom, self.loc(node), init=init if isinstance(init, str) else None,
                           name=kw.get('name') if isinstance(kw.get('name'), str) else None)
            st = self.cur_states()
            info.outer_state = st[-1] if st else None
            info.outer_guard = self.guard()
            self.ir.fsms.append(info)
            return Frame('fsm', (), data=info), FSMVal(info)
        if k == 'State':
            fsm = None
            for fr in reversed(self.frames):
                if fr.kind == 'fsm':
                    fsm = fr.data
                    break
            name = ctx.args[0] if ctx.args else None
            pv = pval(name)
            if pv is not NOVAL:
                name = pv
            if not isinstance(name, str):
                name = name.canon() if isinstance(name, E) else repr(name)
                self.opaque(node, 'state name not foldable')
            if fsm is None:
                self.opaque(node, 'State outside FSM')
                return Frame('state', (), data=name), None
            if name not in fsm.states:
                fsm.states.append(name)
                fsm.state_loc[name] = self.loc(node)
            return Frame('state', (), data=name), None
        self.opaque(node, 'context %s not modelled' % k)
        return Frame('other'), None

    def close_ctx(self, frame):
        pass

    def add_next(self, v, node):
        fsm = None
        state = None
        guard_from = 0
        for i, fr in enumerate(self.frames):
            if fr.kind == 'fsm':
                fsm = fr.data
            elif fr.kind == 'state':
                state = fr.data
                guard_from = i
        if fsm is None or state is None:
            self.opaque(node, 'm.next outside a state')
            return
        pv = pval(v)
        dst = pv if isinstance(pv, str) else (v.canon() if isinstance(v, E) else repr(v))
        if not isinstance(pv, str):
            self.opaque(node, 'm.next target not foldable')
        lits = []
        for fr in self.frames[guard_from:]:
            lits.extend(fr.lits)
        self.order += 1
        e = Edge(fsm.id, state, dst, tuple(self.pycfg) + tuple(lits), self.order, self.loc(node))
        e.states = self.cur_states()
        e.outer_guard = tuple(l for fr in self.frames[:guard_from] for l in fr.lits)
        fsm.edges.append(e)

    def _inline_candidate(self, domain, v):
        """Is `v` the defining statement of a combinational local that the reference tree does not have (a named
        intermediate introduced by a refactoring)?  Then it is read through instead of being kept as a signal: the IR of
        the variant equals the IR of the expression written in place.  Conditions: a whole plain local Signal bound to a
        variable name that is not a local Signal of the reference file (sa/signals_ref.json), assigned combinationally,
        unconditionally, outside any FSM state, by an expression of exactly its width (no truncation, no extension)."""
        if domain != 'comb' or not isinstance(v.lhs, E) or v.lhs.op != 'sig' or not isinstance(v.rhs, E):
            return False
        si = v.lhs.args[0]
        nm = getattr(si, 'var_name', None)
        if si.kind != 'signal' or si.parent is not None or not nm or getattr(si, 'alias', None) is not None:
            return False
        if '[' in nm:
            return False                       # an element of a list / dict of Signals, not a plain local
        if _eq_sites(self.index, getattr(si, 'var_file', None) or self.curfile, nm) != 1:
            return False                       # assigned at more than one place (a default plus overrides): a real signal
        if getattr(si, 'ctx_tokens', None) != tuple(getattr(self, 'ctx_tokens', ())):
            # assigned in another call or loop iteration than the one that created the signal (a closure / helper working
            # on a signal handed in, a loop over states): the statement may execute several times for this one signal
            return False
        fkey = getattr(si, 'var_file', None) or self.curfile
        ref = _signals_ref().get(fkey)
        if ref is None:
            from . import alpha
            if fkey not in alpha.reference():
                return False                   # a file the reference tree does not have: nothing to compare with
            ref = set()                        # a reference file without any local Signal
        if nm in ref:
            return False                       # the reference has a local Signal of this name
        if si.name in v.rhs.sigs():
            return False
        from .ir import _known_one_bit, _is_bool
        rw = 1 if _known_one_bit(v.rhs) else v.rhs.w
        if si.w == 1 and v.rhs.op == 'const' and v.rhs.val in (0, 1):
            rw = 1                             # `strobe.eq(1)` under a condition: a one-bit constant
        if rw is None and si.w == 1 and v.rhs.op in ('&', '|', '~', 'sig') and _is_bool(v.rhs):
            # a flag built from ports of undeclared width (fields of an interface of another class): the engine reads such
            # ports as flags everywhere (ir.literals), so the named flag and the expression in place are the same thing
            rw = 1
        same_shape = getattr(si, 'shape_of_expr', None) is not None and si.shape_of_expr == v.rhs.canon()
        if not same_shape and (si.w is None or rw is None or rw != si.w):
            return False
        if any(si.name in a.lhs_sigs() for a in self.ir.assigns):
            return False                       # already driven elsewhere
        return True

    def add_statements(self, domain, v, node):
        if isinstance(v, Stmt) and isinstance(v.lhs, E) and any(getattr(x.args[0], 'alias', None) is not None
                                                             for x in v.lhs.walk() if x.op == 'sig'):
            raise AnalysisError('construct not understood: a second driver of %s, a combinational local that was read through '
                                '(%s)' % (v.lhs.canon(), self.loc(node)))
        if isinstance(v, Stmt) and self._inline_candidate(domain, v):
            si = v.lhs.args[0]
            si.alias = v.rhs
            # defined under a condition / inside an FSM state: elsewhere the local is 0, so it may be read through only
            # where that context holds (checked at every read, hdl.as_expr)
            si.alias_ctx = (tuple(self.cur_states()), tuple(l.canon() for l in self.guard()))
            si.alias_ctx_lits = tuple(self.guard())
            self.ir.inlined_locals.append((si.name, v.rhs.canon(), str(v.loc if v.loc else self.loc(node))))
            return
        if isinstance(v, Stmt):
            def emit(lhs, rhs, guard):
                if isinstance(rhs, E) and rhs.op == 'cat' and sum(1 for x in rhs.args if isinstance(x, E) and x.op == 'mux' and len(x.args) == 3) == 1:
                    # Cat(a, Mux(c, x, y)) is Mux(c, Cat(a, x), Cat(a, y)): lift the selection out, then split it into arms
                    i_ = [k for k, x in enumerate(rhs.args) if isinstance(x, E) and x.op == 'mux' and len(x.args) == 3][0]
                    mx = rhs.args[i_]
                    arms = [E('const', val=b.val, w=mx.w) if isinstance(b, E) and b.op == 'const' and isinstance(b.val, int) and
                            isinstance(mx.w, int) and 0 <= b.val < (1 << mx.w) and b.w != mx.w else b for b in mx.args[1:]]
                    if isinstance(mx.args[0], E) and all(isinstance(b, E) and b.w == mx.w and mx.w is not None for b in arms):
                        alts = [E('cat', rhs.args[:i_] + (b,) + rhs.args[i_ + 1:], w=rhs.w) for b in arms]
                        rhs = E('mux', (mx.args[0], alts[0], alts[1]), w=rhs.w)
                if isinstance(rhs, E) and rhs.op == 'mux' and len(rhs.args) == 3 and isinstance(rhs.args[0], E):
                    # x.eq(Mux(c, a, b)) is `with m.If(c): x.eq(a)` / `with m.Else(): x.eq(b)`: one form for both spellings
                    c = rhs.args[0]
                    emit(lhs, rhs.args[1], tuple(guard) + tuple(literals(c, True)))
                    emit(lhs, rhs.args[2], tuple(guard) + tuple(literals(c, False)))
                    return
                if isinstance(lhs, E) and lhs.op == 'cat' and len(lhs.args) > 1 and isinstance(rhs, E) and rhs.op == 'cat' and \
                        len(rhs.args) == len(lhs.args) and all(isinstance(a, E) and isinstance(b, E) and (
                            (isinstance(a.w, int) and a.w == b.w) or (a.w is None and a.op == 'sig'))
                            for a, b in zip(lhs.args, rhs.args)) and any(a.w is None for a in lhs.args):
                    # Cat(p, q).eq(Cat(x, y)) between ports of undeclared width (fields of an interface handed in from
                    # outside): part by part.  Written separately (p.eq(x); q.eq(y)) a width mismatch between such ports is
                    # just as invisible to the extractor, so nothing is lost by reading the merged spelling the same way.
                    for a, b in zip(lhs.args, rhs.args):
                        emit(a, b, guard)
                    return
                if isinstance(lhs, E) and lhs.op == 'cat' and len(lhs.args) > 1 and isinstance(rhs, E) and rhs.op == 'const' and \
                        rhs.val == 0 and all(isinstance(a, E) for a in lhs.args):
                    # Cat(p, q, ...).eq(0): every target is 0, whatever the widths
                    for a in lhs.args:
                        emit(a, E('const', val=0, w=a.w), guard)
                    return
                if isinstance(lhs, E) and lhs.op == 'cat' and len(lhs.args) > 1 and isinstance(rhs, E) and \
                        all(isinstance(a, E) and isinstance(a.w, int) for a in lhs.args):
                    # Cat(a, b, ...).eq(v) is a.eq(v[0:wa]); b.eq(v[wa:wa+wb]); ... -- one assignment per target, so that a
                    # merged and a separate spelling give the same IR.  Only when v covers the whole Cat (or is a constant):
                    # then no extension is involved.
                    total = sum(a.w for a in lhs.args)
                    is_const = rhs.op == 'const' and isinstance(rhs.val, int) and rhs.val >= 0
                    if is_const or (isinstance(rhs.w, int) and rhs.w >= total):
                        off = 0
                        for part in lhs.args:
                            emit(part, hdl.slice_of(rhs, off, off + part.w), guard)
                            off += part.w
                        return
                if isinstance(lhs, E) and lhs.op == 'sig' and lhs.args[0].kind == 'object' and isinstance(rhs, E) and \
                        rhs.op in ('cat', 'const'):
                    # record.eq(Cat(...)): the record is the Cat of its fields, first field in the least significant bits
                    o = lhs.args[0].parent
                    flds = getattr(o, 'fields', None)
                    if getattr(o, 'is_record', False) and flds and all(f in o.attrs for f in flds):
                        parts = [hdl.as_expr(self, o.attrs[f]) for f in flds]
                        if all(isinstance(x, E) and x.op == 'sig' and isinstance(x.w, int) for x in parts) and \
                                (rhs.op == 'const' or (isinstance(rhs.w, int) and rhs.w >= sum(x.w for x in parts))):
                            off = 0
                            for x in parts:
                                emit(x, hdl.slice_of(rhs, off, off + x.w), guard)
                                off += x.w
                            return
                self.order += 1
                a = Assign(domain, lhs, rhs, guard, None, self.order, v.loc if v.loc else self.loc(node))
                sts = self.cur_states()
                a.states = sts
                a.state = sts[-1] if sts else None
                a.site = self.loc(node)
                self.ir.assigns.append(a)
            emit(v.lhs, v.rhs, self.guard())
            return
        if isinstance(v, (list, tuple)):
            for x in v:
                self.add_statements(domain, x, node)
            return
        if v is None:
            return
        if isinstance(v, E) and v.op == 'call':
            self.order += 1
            a = Assign(domain, v, None, self.guard(), None, self.order, self.loc(node))
            sts = self.cur_states()
            a.states = sts
            a.state = sts[-1] if sts else None
            a.site = self.loc(node)
            a.opaque_connect = True
            self.ir.assigns.append(a)
            return
        self.opaque(node, 'added to m.d.%s but not understood: %r' % (domain, v))

    def add_submodule(self, name, v, node):
        dm = None
        if isinstance(v, (list, tuple)):
            for x in v:
                self.add_submodule(name, x, node)
            return
        if isinstance(v, Obj):
            dm = v.domain_map
            if name and not v.named:
                hdl.name_value(self, v, name, None)
        self.ir.submodules.append(Submodule(name, v, self.loc(node), dm))


def _const_cmp(l):
    """(K, canonical text of x) for a literal `K == x` with an integer constant K, else None."""
    e = l.e
    if l.kind not in ('cond', 'case') or not isinstance(e, E) or e.op != '==' or len(e.args) != 2:
        return None
    a, b = e.args
    if isinstance(a, E) and a.op == 'const' and isinstance(a.val, int) and isinstance(b, E) and b.op != 'const':
        return a.val, b.canon()
    if isinstance(b, E) and b.op == 'const' and isinstance(b.val, int) and isinstance(a, E) and a.op != 'const':
        return b.val, a.canon()
    return None


def _drop_implied(lits):
    """`x == K` implies `x != K'` for every other constant K': the negated comparisons a later Case / Elif arm inherits
    from the arms before it say nothing once the arm's own comparison is there.  Dropping them gives a Switch, an If/Elif
    chain and independent Ifs over the values of one signal the same guards."""
    pos = {}
    for l in lits:
        c = _const_cmp(l)
        if c and l.pos:
            pos.setdefault(c[1], set()).add(c[0])
    if not pos:
        return tuple(lits)
    out = []
    for l in lits:
        c = _const_cmp(l)
        if c and not l.pos and any(k != c[0] for k in pos.get(c[1], ())):
            continue
        out.append(l)
    return tuple(out)


def _load(t):
    import copy
    t2 = copy.copy(t)
    t2.ctx = ast.Load()
    return t2


def _is_generator(fnode):
    for n in ast.walk(fnode):
        if isinstance(n, (ast.Yield, ast.YieldFrom)):
            # ignore nested defs
            return True
    return False


def env_lookup_yield(env):
    try:
        return env.lookup('$yield')
    except KeyError:
        return None


# ====================================================================================== driver
def _install(ip):
    ip.dproxy = DProxy()
    ip.subproxy = SubmodulesProxy()
    ip.cur_fn_stack = []
    ip._siglist = []
    ip.ir_siglist = lambda: ip._siglist
    orig = ip.call_func

    def call_func(fn, args, kwargs, node=None):
        ip.cur_fn_stack.append(fn)
        try:
            return orig(fn, args, kwargs, node)
        finally:
            ip.cur_fn_stack.pop()
    ip.call_func = call_func


def mark_collections(ip, cls, self_obj):
    """Attributes that other methods append to / index-assign (self._interfaces, self._endpoints, ...)
    are runtime collections: loops over them are analysed for one symbolic element."""
    # methods reachable from elaborate() via self.<m>(...) run concretely: what they add is known
    reach, work = set(), ['elaborate', '__init__']
    while work:
        mn = work.pop()
        if mn in reach:
            continue
        reach.add(mn)
        hit = ip.index.find_method(cls, mn)
        if not hit:
            continue
        for n in ast.walk(hit[1]):
            if isinstance(n, ast.Call) and isinstance(n.func, ast.Attribute) and isinstance(n.func.value, ast.Name) \
                    and n.func.value.id == 'self':
                work.append(n.func.attr)
    for c in ip.index.mro(cls):
        for mname, fnode in c.methods.items():
            if mname in reach:
                continue
            ann = {a.arg: a.annotation for a in fnode.args.args if a.annotation is not None}
            for n in ast.walk(fnode):
                attr = None
                argname = None
                if isinstance(n, ast.Call) and isinstance(n.func, ast.Attribute) and \
                        n.func.attr in ('append', 'extend', 'insert', 'add') and \
                        isinstance(n.func.value, ast.Attribute) and isinstance(n.func.value.value, ast.Name) and \
                        n.func.value.value.id == 'self':
                    attr = n.func.value.attr
                    if n.args and isinstance(n.args[-1], ast.Name):
                        argname = n.args[-1].id
                elif isinstance(n, ast.Assign) and len(n.targets) == 1 and isinstance(n.targets[0], ast.Subscript) and \
                        isinstance(n.targets[0].value, ast.Attribute) and \
                        isinstance(n.targets[0].value.value, ast.Name) and n.targets[0].value.value.id == 'self':
                    attr = n.targets[0].value.attr
                    if isinstance(n.value, ast.Name):
                        argname = n.value.id
                if attr is None or attr not in self_obj.attrs:
                    continue
                cur = self_obj.attrs[attr]
                if not isinstance(cur, (list, dict, set)):
                    continue
                coll = ip.sym(attr, parent=self_obj, kind='collection')
                si = coll.args[0]
                si.initial = cur
                elem = None
                if argname and argname in ann:
                    try:
                        k = ip.eval(ann[argname], ip.module_env(c.mod))
                        if isinstance(k, ClassRef):
                            elem = ip.instantiate(k.info, [], {}, None)
                    except Exception:
                        elem = None
                if elem is None:
                    elem = Obj(None, leaf=attr + '[*]', parent=self_obj)
                else:
                    elem.leaf, elem.parent = attr + '[*]', self_obj
                elem.named = True
                si._elem = elem
                self_obj.attrs[attr] = coll


def _subst_inlined(ir):
    """Reads of a read-through local that did not pass hdl.as_expr (kept inside containers): substitute them now."""
    if not ir.inlined_locals:
        return

    def sub(e, it):
        if not isinstance(e, E):
            return e
        if e.op == 'sig':
            al = getattr(e.args[0], 'alias', None)
            if al is None:
                return e
            al = sub(al, it)
            sts, lits = getattr(e.args[0], 'alias_ctx', ((), ()))
            if sts or lits:
                # defined under a condition / inside a state and read (textually earlier) outside it: there the local is its
                # definition where the context holds and 0 elsewhere
                cur_s = tuple(getattr(it, 'states', None) or ())
                cur_l = {l.canon() for l in it.guard}
                if cur_s[:len(sts)] != sts or not set(lits) <= cur_l:
                    ll = getattr(e.args[0], 'alias_ctx_lits', ())
                    if e.args[0].w != 1 or any(l.kind != 'cond' or not isinstance(l.e, E) for l in ll):
                        raise AnalysisError('construct not understood: the combinational local %s, defined under a condition, is '
                                            'read outside that condition' % e.args[0].name)
                    parts = [E('ongoing', (f_, s_), w=1) for f_, s_ in sts]
                    parts += [l.e if l.pos else E('~', (l.e,), w=1) for l in ll]
                    parts.append(al)
                    return parts[0] if len(parts) == 1 else E('&', tuple(parts), w=1)
            return al
        if not any(isinstance(a, E) for a in e.args):
            return e
        na = tuple(sub(a, it) for a in e.args)
        if all(x is y for x, y in zip(na, e.args)):
            return e
        return E(e.op, na, w=e.w, val=e.val, label=e.label)
    items = list(ir.assigns) + [ed for f in ir.fsms for ed in f.edges]
    for it in items:
        if isinstance(getattr(it, 'rhs', None), E):
            it.rhs = sub(it.rhs, it)
        ng = []
        for l in it.guard:
            e2 = sub(l.e, it)
            if e2 is l.e:
                ng.append(l)
            else:
                ng.extend(literals(e2, l.pos, l.kind))
        it.guard = tuple(ng)


def _state_flags_to_ongoing(ir):
    """A combinational local that is only ever set, unconditionally, inside FSM states (`sending.eq(1)` in four states) is
    the OR of `fsm.ongoing()` of those states: its readers are rewritten that way (and then normalised by
    _ongoing_to_state like a hand-written `fsm.ongoing()` expression); the flag itself disappears."""
    if not ir.fsms:
        return
    by = {}
    for a in ir.assigns:
        if isinstance(a.lhs, E) and a.lhs.op == 'sig':
            by.setdefault(a.lhs.args[0].name, []).append(a)
    flags = {}
    for name, ds in by.items():
        if name.startswith('self.') or '.' in name or '[' in name:
            continue
        si = ir.signals.get(name) or ds[0].lhs.args[0]
        if getattr(si, 'w', None) != 1:
            continue
        if all(a.domain == 'comb' and a.state is not None and not a.guard and isinstance(a.rhs, E) and a.rhs.op == 'const'
               and a.rhs.val == 1 for a in ds) and len({a.state[0] for a in ds}) == 1:
            if any(name in b.lhs_sigs() and b not in ds for b in ir.assigns):
                continue
            sts = []
            for a in ds:
                if a.state not in sts:
                    sts.append(a.state)
            ongs = [E('ongoing', (f_, s_), w=1) for f_, s_ in sts]
            flags[name] = (ongs[0] if len(ongs) == 1 else E('|', tuple(ongs), w=1), ds)
    if not flags:
        return

    def sub(e):
        if not isinstance(e, E):
            return e
        if e.op == 'sig' and e.args[0].name in flags:
            return flags[e.args[0].name][0]
        if not any(isinstance(x, E) for x in e.args):
            return e
        na = tuple(sub(x) for x in e.args)
        return e if all(x is y for x, y in zip(na, e.args)) else E(e.op, na, w=e.w, val=e.val, label=e.label)
    used = set()
    drop = {id(a) for _, ds in flags.values() for a in ds}
    for it in list(ir.assigns) + [ed for f in ir.fsms for ed in f.edges]:
        if id(it) in drop:
            continue
        if isinstance(getattr(it, 'rhs', None), E):
            it.rhs = sub(it.rhs)
        ng = []
        for l in it.guard:
            e2 = sub(l.e)
            if e2 is l.e:
                ng.append(l)
            else:
                ng.extend(literals(e2, l.pos, l.kind))
        it.guard = tuple(ng)
    ir.assigns[:] = [a for a in ir.assigns if id(a) not in drop]


def _ongoing_to_state(ir):
    """`fsm.ongoing("X")` used at module level: an assignment outside the FSM that is conditioned on `ongoing(X)` is the
    same statement written inside `with m.State("X")`.  Normalise to the in-state form:
      * guard literal `ongoing(X)` (positive)           -> dropped from the guard, the assignment becomes a state-X one;
      * comb flag `f.eq(ongoing(X) & c)` / `f.eq(ongoing(X))`, f having no other driver -> `f.eq(c)` / `f.eq(1)` in state X
        (outside X the flag is 0 either way: by this statement before, by its reset value after)."""
    fsm_ids = {f.id: f for f in ir.fsms}
    if not fsm_ids:
        return

    def ong(l):
        e = l.e
        return isinstance(e, E) and e.op == 'ongoing' and l.pos and e.args[0] in fsm_ids and e.args[1] in fsm_ids[e.args[0]].states
    repl = {}
    for a in ir.assigns:
        if a.state is not None or a.rhs is None:
            continue
        hit = [l for l in a.guard if ong(l)]
        if len(hit) == 1:
            a.guard = tuple(l for l in a.guard if l is not hit[0])
            a.state = (hit[0].e.args[0], hit[0].e.args[1])
            a.states = (a.state,)
            continue
        if hit or not isinstance(a.rhs, E) or not isinstance(a.lhs, E) or a.lhs.op != 'sig':
            continue
        r = a.rhs
        if a.domain == 'comb' and (r.op == 'ongoing' or (r.op == '&' and any(isinstance(x, E) and x.op == 'ongoing' for x in r.args))):
            lits = literals(r, True)
            hit = [l for l in lits if ong(l)]
            tgt = a.lhs.args[0].name
            if len(hit) == 1 and sum(1 for b in ir.assigns if tgt in b.lhs_sigs()) == 1:
                rest = [l for l in lits if l is not hit[0]]
                a.guard = tuple(a.guard) + tuple(rest)
                a.rhs = E('const', val=1, w=1)
                a.state = (hit[0].e.args[0], hit[0].e.args[1])
                a.states = (a.state,)
                continue
        # general case: an unguarded one-bit flag that is a boolean function of ongoing() atoms of one FSM (and other
        # conditions), the flag having no other driver: one in-state statement per state in which it is not constant 0
        ongs = [n for n in r.walk() if n.op == 'ongoing']
        from .ir import _is_bool as _isb
        one_bit = r.w == 1 or (r.w is None and r.op in ('&', '|', '~', 'ongoing') and _isb(r))
        if not ongs or a.guard or not one_bit or any(not ong(_L(n)) for n in ongs) or len({n.args[0] for n in ongs}) != 1:
            continue
        tgt = a.lhs.args[0].name
        if sum(1 for b in ir.assigns if tgt in b.lhs_sigs()) != 1:
            continue
        fid = ongs[0].args[0]
        new = []
        for st in fsm_ids[fid].states:
            v = _subst_ongoing(r, st)
            if v is None:
                new = None
                break
            if v.op == 'const':
                if v.val:
                    new.append((st, ()))
                continue
            new.append((st, tuple(literals(v, True))))
        if new is None:
            continue
        import copy as _copy
        if a.domain != 'comb':
            # a register written in every cycle: 0 unless one of the in-state statements below overrides it
            b = _copy.copy(a)
            b.rhs = E('const', val=0, w=1)
            repl.setdefault(id(a), []).append(b)
        for st, guard in new:
            b = _copy.copy(a)
            b.guard = guard
            if a.domain != 'comb':
                b.order = a.order + 0.5        # after the default, before the next statement
            b.rhs = E('const', val=1, w=1)
            b.state = (fid, st)
            b.states = (b.state,)
            repl.setdefault(id(a), []).append(b)
        repl.setdefault(id(a), [])
    if repl:
        out = []
        for a in ir.assigns:
            out += repl.get(id(a), [a])
        ir.assigns[:] = out


class _L:
    def __init__(self, e):
        self.e, self.pos = e, True


def _subst_ongoing(e, st):
    """e with every ongoing(fsm:X) replaced by the constant (X == st), constants folded through one-bit & | ~; None when a
    constant would end up inside an operator that is not folded here."""
    if not isinstance(e, E):
        return None
    if e.op == 'ongoing':
        return E('const', val=int(e.args[1] == st), w=1)
    if not any(n.op == 'ongoing' for n in e.walk()):
        return e
    if e.op in ('&', '|') and e.w in (1, None):
        args = []
        for x in e.args:
            v = _subst_ongoing(x, st)
            if v is None:
                return None
            if v.op == 'const':
                if bool(v.val) == (e.op == '|'):
                    return E('const', val=int(e.op == '|'), w=1)
                continue
            args.append(v)
        if not args:
            return E('const', val=int(e.op == '&'), w=1)
        return args[0] if len(args) == 1 else E(e.op, tuple(args), w=1)
    if e.op == '~' and e.w in (1, None):
        v = _subst_ongoing(e.args[0], st)
        if v is None:
            return None
        if v.op == 'const':
            return E('const', val=int(not v.val), w=1)
        return E('~', (v,), w=1)
    return None


def _simplify_guard(lits):
    """Unit propagation inside one conjunction: with `~a` present the literal `(a | b)` is `b`, with `a` present it is
    implied and dropped; a repeated literal is kept once.  (`If(clear | advance): r.eq(Mux(clear, 0, nxt))` and
    `If(clear): r.eq(0)` / `Elif(advance): r.eq(nxt)` thus give the same two guarded assignments.)"""
    from .ir import _is_bool
    lits = list(lits)
    for _ in range(4):
        have = {l.canon() for l in lits if not (l.pos and isinstance(l.e, E) and l.e.op == '|')}
        out, seen, changed = [], set(), False
        for l in lits:
            e = l.e
            if l.pos and l.kind == 'cond' and isinstance(e, E) and e.op == '|' and all(_is_bool(a) for a in e.args):
                keep, implied = [], False
                for d in e.args:
                    dl = literals(d, True)
                    if dl and all(x.canon() in have for x in dl):
                        implied = True
                        break
                    if any(x.neg().canon() in have for x in dl):
                        continue                       # this alternative is excluded by the rest of the conjunction
                    keep.append(d)
                if implied:
                    changed = True
                    continue
                if keep and len(keep) < len(e.args):
                    changed = True
                    new = keep[0] if len(keep) == 1 else E('|', tuple(keep), w=e.w)
                    for x in literals(new, True):
                        if x.canon() not in seen:
                            seen.add(x.canon())
                            out.append(x)
                    continue
            if l.canon() in seen:
                changed = True
                continue
            seen.add(l.canon())
            out.append(l)
        lits = out
        if not changed:
            break
    return tuple(lits)


def _unit_propagate(ir):
    for it in list(ir.assigns) + [ed for f in ir.fsms for ed in f.edges]:
        if any(l.pos and isinstance(l.e, E) and l.e.op == '|' for l in it.guard) or len({l.canon() for l in it.guard}) != len(it.guard):
            it.guard = _simplify_guard(it.guard)


_EQLOOP = {}


def _eq_site_repeats(index, relpath, name):
    """Is some `.eq(` on the local `name` written where it can execute more than once per elaboration -- inside a Python
    loop or comprehension, or inside a nested function / lambda / helper method (anything but `elaborate` itself)?  Then the
    static count of assignment sites says nothing about the number of drivers."""
    key = (relpath, name)
    if key not in _EQLOOP:
        tree = None
        for mi in index.modules.values():
            if mi.relpath == relpath:
                tree = mi.tree
                break
        hit = False
        if tree is not None:
            def walk(node, rep):
                nonlocal hit
                for ch in ast.iter_child_nodes(node):
                    r = rep
                    if isinstance(ch, (ast.For, ast.While, ast.ListComp, ast.GeneratorExp, ast.SetComp, ast.DictComp, ast.Lambda)):
                        r = True
                    elif isinstance(ch, (ast.FunctionDef, ast.AsyncFunctionDef)):
                        r = ch.name != 'elaborate'
                    if r and isinstance(ch, ast.Call) and isinstance(ch.func, ast.Attribute) and ch.func.attr == 'eq':
                        t = ch.func.value
                        while isinstance(t, ast.Subscript):
                            t = t.value
                        if isinstance(t, ast.Name) and t.id == name:
                            hit = True
                    walk(ch, r)
            walk(tree, False)
        _EQLOOP[key] = hit
    return _EQLOOP[key]


_EQSITES = {}


def _eq_sites(index, relpath, name):
    """Number of places in a file where the local `name` is the target of `.eq(` (plain or subscripted).  Counted on the
    syntax tree the extractor interprets (after alpha-normalisation), not on the text."""
    key = (relpath, name)
    if key not in _EQSITES:
        tree = None
        for mi in index.modules.values():
            if mi.relpath == relpath:
                tree = mi.tree
                break
        if tree is None:
            _EQSITES[key] = 1
        else:
            n = 0
            for node in ast.walk(tree):
                if isinstance(node, ast.Call) and isinstance(node.func, ast.Attribute) and node.func.attr == 'eq':
                    t = node.func.value
                    while isinstance(t, ast.Subscript):
                        t = t.value
                    if isinstance(t, ast.Name) and t.id == name:
                        n += 1
            _EQSITES[key] = n
    return _EQSITES[key]


_SIGREF = None


def _signals_ref():
    global _SIGREF
    if _SIGREF is None:
        import json, os
        try:
            _SIGREF = {k: set(v) for k, v in json.load(open(os.path.join(os.path.dirname(os.path.abspath(__file__)),
                                                                         'signals_ref.json'))).items()}
        except (OSError, ValueError):
            _SIGREF = {}
    return _SIGREF


def extract(index, cls, kwargs=None, method='elaborate', collections=True, platform=None):
    """Build the ModuleIR of `cls` (a ClassInfo): run __init__ abstractly (constructor arguments not
    given in `kwargs` take their defaults, required ones become symbolic `self.<attr>` objects), then
    the elaborate method."""
    ip = Interp(index)
    _install(ip)
    ir = ModuleIR(cls.name, cls.mod.relpath)
    ip.ir = ir
    ip.curfile = cls.mod.relpath
    self_obj = Obj(cls, leaf='self')
    self_obj.named = True
    self_obj.is_record = hdl.is_record_class(ip, cls)
    ir.self_obj = self_obj
    init = index.find_method(cls, '__init__')
    if init:
        fr = FuncRef(init[1], init[0].mod, closure=None, self_obj=self_obj, cls=init[0], name='__init__')
        ip.call_func(fr, [], dict(kwargs or {}), None)
    if collections:
        mark_collections(ip, cls, self_obj)
    el = index.find_method(cls, method)
    if el is None:
        raise AnalysisError('anchor vanished: %s.%s' % (cls.name, method))
    fr = FuncRef(el[1], el[0].mod, closure=None, self_obj=self_obj, cls=el[0], name=method)
    if platform == 'symbolic':
        plat = Obj(None, leaf='platform')
        plat.named = True
    else:
        plat = None          # like the test suite: elaborate(platform=None)
    ip.callstack = []
    ir.result = ip.call_func(fr, [plat] if len(el[1].args.args) > 1 else [], {}, None)
    _subst_inlined(ir)
    _state_flags_to_ongoing(ir)
    _ongoing_to_state(ir)
    _unit_propagate(ir)
    for si in ip._siglist:
        if getattr(si, 'alias', None) is not None:
            continue
        ir.signals.setdefault(si.name, si)
    for si in ip.interned.values():
        ir.signals.setdefault(si.name, si)
    ir.interp = ip
    return ir
