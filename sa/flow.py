"""Forward dataflow of the possible values of a small register over an FSM (used by C19, C53).

The abstract value of the register in a state is the set of constants it may hold there; a non-constant right-hand side
contributes every value of a 1-bit register and the token TOP for a wider one.  Edges are evaluated under
last-assignment-wins: the last writer whose guard is contained in the edge guard certainly fires, later writers whose
guards are consistent with it may fire."""
from .ir import E
from . import q

TOP = 'T'


def reg_flow(ir, fsm, flag):
    """Possible values of a 1-bit register in every FSM state, by forward dataflow to a fixpoint.  Returns
    (after, possible): after(edge, values_before) = set of values the register can hold once `edge` was taken."""
    drv = sorted(ir.drivers(flag, exact=True), key=lambda a: a.order)

    si = ir.signals[flag]
    wide = (si.w or 1) > 1

    def vals(a):
        if isinstance(a.rhs, E) and a.rhs.op == 'const':
            return {a.rhs.val & ((1 << (si.w or 1)) - 1)}
        return {TOP} if wide else {0, 1}

    def consistent(g, h):
        d = dict(h)
        return all(d.get(k, v) == v for k, v in g)

    def after(e, before):
        g = q.atoms(e)
        here = [a for a in drv if a.state is None or a.state == e.state]
        sure = [a for a in here if q.atoms(a) <= g]
        out = set()
        if sure:
            last = sure[-1]
            out |= vals(last)
            later = [a for a in here if a.order > last.order and a not in sure and consistent(q.atoms(a), g)]
        else:
            out |= set(before)
            later = [a for a in here if consistent(q.atoms(a), g)]
        for a in later:
            out |= vals(a)
        return out

    possible = {s: set() for s in fsm.states}
    possible[fsm.init] = {(si.init or 0) & ((1 << (si.w or 1)) - 1)}
    changed = True
    while changed:
        changed = False
        for s in fsm.states:
            if not possible[s] and s != fsm.init:
                continue
            # staying in s: any writer of the flag in s may fire
            stay = set(possible[s])
            for a in drv:
                if a.state is None or a.state == (fsm.id, s):
                    stay |= vals(a)
            # (only writers that can fire without leaving matter, adding all of them is a sound over-approximation
            #  for the state itself; edges are evaluated exactly against the values on entry)
            for e in fsm.out_edges(s):
                new = after(e, possible[s] | (stay if _can_stay_and_write(fsm, s, drv, e) else set()))
                if not new <= possible[e.dst]:
                    possible[e.dst] |= new
                    changed = True
    return after, possible


def _can_stay_and_write(fsm, s, drv, e):
    """True when some writer of the flag in state s can fire in a cycle in which the FSM stays in s (then the value on a
    later edge out of s may be the written one)."""
    for a in drv:
        if a.state is not None and a.state != (fsm.id, s):
            continue
        ga = q.atoms(a)
        # the writer fires together with an edge leaving s whenever its guard contains that edge's guard
        if not any(q.atoms(x) <= ga for x in fsm.out_edges(s) if x.dst != s):
            return True
    return False


