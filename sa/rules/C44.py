"""C44 -- idle handshake and U0 link timers meet their timing rules."""
import itertools
from collections import deque
from fractions import Fraction

from ..ir import E
from .. import q

TITLE = 'idle handshake window / U0 keepalive and recovery timers'
FLOOR = 16
DECIDES = ('Both modules are decided on their extracted transition relation by exhaustive fixpoints (no stimulus runs, no '
           'expression text compared): the cone of each observed output (registers with their declared widths, '
           'truncation on assignment, last assignment wins) is compiled into a one-cycle step function; every reachable '
           'state is expanded under every input vector. '
           '(a) IdleHandshakeHandler x reference monitor (enable run length, idle streak, window seen), word alphabet '
           '{logical idle, all ones, each of the 32+4 single-bit words}, enable free in every cycle, initial states = '
           'successors of reset with enable low: whenever idle_handshake_complete is high, (a1) two consecutive all-zero '
           'data+ctrl words (= 8 symbols, 4 per word: data width = 8 x ctrl width) have been received ending inside the '
           'current uninterrupted enable period, and (a2) enable has been high in at least 4 complete previous cycles (16 '
           'symbols sent) of that period -- so state left from an earlier period cannot complete a new one; (a3) the '
           'same product over each two-word alphabet {idle, single-bit word} is violation free, i.e. every data and ctrl '
           'bit takes part in the idle classification; (a4) on the explored register-state graph, the subgraph of '
           '"enable high, idle received" edges has no completion-free cycle: from EVERY reachable state the handshake '
           'completes (idle from the start as well as idle arriving late). '
           '(b) LinkMaintenanceTimers for several ss_clock_frequency values (1 MHz; 1.6 MHz and 1.024 MHz where the '
           'keepalive / recovery counter overflows exactly at its timeout; the 125 MHz default; thorough: five more up to '
           '250 MHz), exact reference cycle counts from rational arithmetic, every reachable counter value x every input '
           'vector, decided on the register-state graph (minimal quiet age per state; longest strobe-free quiet path from '
           'every restart state): (b1) transition_to_recovery is never high unless the preceding 1 ms - 1 cycle were all '
           '(enable & no link_command_received & no packet_received) -- each of the three restarts the measurement, '
           'with priority over counting; (b2) after any such restart (or reset) it is raised 1 ms or 1 ms + 1 cycle '
           'later if the link stays quiet (counter width / compare constant / off-by-one); (b3) schedule_keepalive is '
           'raised at most 10 ms after the last link_command_transmitted / U0 entry / previous keepalive request while '
           'enabled, from every reachable counter value including after counter roll-over. ')
NOT_DECIDED = ('whether sink.valid qualifies the received words (IdleHandshakeHandler does not read it: words are taken '
               'as received every cycle); the handshake starting in the very first cycle after reset (the word registers '
               'reset to the idle pattern); received words other than idle / all ones / single-bit words; a lower bound on '
               'the keepalive interval (the property only bounds it from above; the implemented interval is reported as a '
               'note); clock frequencies for which timeout x frequency is not an integer (int() truncation); a timer cone '
               'with more than 18 register bits (only reachable by changing the timeout constants) is an ANALYSIS-ERROR.')

CLS_I, MOD_I = 'IdleHandshakeHandler', 'usb3.link.idle'
CLS_T, MOD_T = 'LinkMaintenanceTimers', 'usb3.link.timers'

# reference values of the property statement / USB 3.2 7.5.4.10, 7.5.6.1
IDLE_SYMBOLS_REQUIRED = 8
SENT_SYMBOLS_REQUIRED = 16
RECOVERY_TIMEOUT = Fraction(1, 1000)          # 1 ms without a link command / header packet
KEEPALIVE_LATEST = Fraction(10, 1000)         # "never later than 10 ms"

DONE = -1
MAX_EXHAUSTIVE_BITS = 18      # timer register bits up to which every reachable register state is analysed
SOFT_BUDGET = 400000          # product states after which an exploration that already found a violation stops
HARD_LIMIT = 6000000


# ------------------------------------------------------------------------------------------------ compiled cone
def _width(e):
    """Amaranth result width of an expression (None if unknown)."""
    if not isinstance(e, E):
        return None
    if e.w is not None:
        return e.w
    op = e.op
    if op == 'const':
        return max(int(e.val).bit_length(), 1) if isinstance(e.val, int) and e.val >= 0 else None
    ws = [_width(a) for a in e.args if isinstance(a, E)]
    if any(w is None for w in ws) or not ws:
        return None
    if op in ('&', '|', '^', 'mux'):
        return max(ws)
    if op in ('+', '-'):
        return max(ws) + len(ws) - 1
    if op in ('==', '!=', '<', '<=', '>', '>='):
        return 1
    if op == '~':
        return ws[0]
    return None


class Net:
    """The cone of influence of some output signals, compiled to  step(regs, inputs) -> (next regs, outputs)."""

    def __init__(self, ctx, ir, outputs, what):
        self.ctx, self.ir, self.what = ctx, ir, what
        need = ctx.need
        for o in outputs:
            need(ir.drivers(o, exact=True), 'driver of %s in %s' % (o, ir.clsname))
        cone, work = set(), list(outputs)
        drv = {}
        while work:
            s = work.pop()
            if s in cone:
                continue
            cone.add(s)
            ds = sorted(ir.drivers(s, exact=True), key=lambda a: a.order)
            drv[s] = ds
            for a in ds:
                need(a.state is None and isinstance(a.lhs, E) and a.lhs.op == 'sig' and isinstance(a.rhs, E),
                     'whole-signal assignment outside any FSM in the cone of %s: %s' % (what, q.fmt(a)))
                work += list(a.rhs.sigs())
                for l in a.guard:
                    need(l.kind != 'cfg' and isinstance(l.e, E), 'foldable condition in the cone of %s: %s' % (what, l.canon()))
                    work += list(l.e.sigs())
        self.cone, self.drv = cone, drv
        self.regs, self.combs, self.inputs = [], [], []
        for s in sorted(cone):
            doms = {a.domain for a in drv[s]}
            if not doms:
                self.inputs.append(s)
            elif doms == {'comb'}:
                self.combs.append(s)
            else:
                need('comb' not in doms and len(doms) == 1, '%s driven from one clock domain only (found %s)' % (s, sorted(doms)))
                self.regs.append(s)
        for s in cone:
            si = ir.signals.get(s)
            need(si is not None and isinstance(si.w, int) and si.w > 0, 'declared width of %s' % s)
        self.outputs = list(outputs)
        self.var = {}
        for i, s in enumerate(self.regs):
            self.var[s] = 'r%d' % i
        for i, s in enumerate(self.inputs):
            self.var[s] = 'i%d' % i
        for i, s in enumerate(self.combs):
            self.var[s] = 'c%d' % i
        self.step = self._compile()

    def w(self, s):
        return self.ir.signals[s].w

    def mask(self, s):
        return (1 << self.w(s)) - 1

    def init(self, s):
        v = self.ir.signals[s].init
        if v is None:
            return 0
        if isinstance(v, E) and v.op == 'const':
            v = v.val
        self.ctx.need(isinstance(v, int) and not isinstance(v, bool) or isinstance(v, bool), 'constant reset value of %s: %r' % (s, v))
        return int(v) & self.mask(s)

    def reset(self):
        return tuple(self.init(r) for r in self.regs)

    @property
    def state_bits(self):
        return sum(self.w(r) for r in self.regs)

    # -- expression -> python source
    def px(self, e):
        need = self.ctx.need
        need(isinstance(e, E), 'HDL expression in the cone of %s: %r' % (self.what, e))
        op = e.op
        if op == 'const':
            need(isinstance(e.val, int), 'integer constant %r' % (e.val,))
            return '%d' % int(e.val)
        if op == 'sig':
            return self.var[e.args[0].name]
        if op == '~':
            w = _width(e.args[0])
            need(w is not None, 'width of the operand of %s' % e.canon())
            return '(~%s & %d)' % (self.px(e.args[0]), (1 << w) - 1)
        if op in ('&', '|', '^', '+', '*'):
            return '(' + (' %s ' % op).join(self.px(a) for a in e.args) + ')'
        if op == '-' and len(e.args) == 2:
            w = _width(e)
            need(w is not None, 'width of %s' % e.canon())
            return '((%s - %s) & %d)' % (self.px(e.args[0]), self.px(e.args[1]), (1 << w) - 1)
        if op in ('==', '!=', '<', '<=', '>', '>=') and len(e.args) == 2:
            return '(1 if %s %s %s else 0)' % (self.px(e.args[0]), op, self.px(e.args[1]))
        if op == 'slice':
            inner, lo, hi = e.args
            need(isinstance(lo, int) and isinstance(hi, int) and hi > lo, 'constant slice bounds: %s' % e.canon())
            return '((%s >> %d) & %d)' % (self.px(inner), lo, (1 << (hi - lo)) - 1)
        if op == 'cat':
            parts, sh = [], 0
            for a in e.args:
                wa = _width(a)
                need(wa is not None, 'width of %s inside %s' % (a.canon() if isinstance(a, E) else a, e.canon()))
                parts.append('((%s & %d) << %d)' % (self.px(a), (1 << wa) - 1, sh))
                sh += wa
            return '(' + ' | '.join(parts) + ')' if parts else '0'
        if op == 'mux' and len(e.args) == 3:
            return '(%s if %s else %s)' % (self.px(e.args[1]), self.px(e.args[0]), self.px(e.args[2]))
        if op == 'call' and e.args[0] in ('bool', 'any') and len(e.args) == 2:
            return '(1 if %s else 0)' % self.px(e.args[1])
        if op == 'call' and e.args[0] == 'all' and len(e.args) == 2:
            w = _width(e.args[1])
            need(w is not None, 'width of %s' % e.canon())
            return '(1 if %s == %d else 0)' % (self.px(e.args[1]), (1 << w) - 1)
        need(False, 'operator %s in the cone of %s: %s' % (op, self.what, e.canon()))

    def pg(self, a):
        if not a.guard:
            return 'True'
        return ' and '.join('(%s %s 0)' % (self.px(l.e), '!=' if l.pos else '==') for l in a.guard)

    def _compile(self):
        # combinational signals in dependency order
        deps = {}
        for s in self.combs:
            d = set()
            for a in self.drv[s]:
                d |= a.rhs.sigs()
                for l in a.guard:
                    d |= l.e.sigs()
            deps[s] = {x for x in d if x in self.combs}
        order, placed = [], set()
        while len(order) < len(self.combs):
            ready = [s for s in self.combs if s not in placed and deps[s] <= placed]
            self.ctx.need(ready, 'no combinational loop in the cone of %s' % self.what)
            for s in ready:
                order.append(s)
                placed.add(s)
        src = ['def step(R, I):']
        if self.regs:
            src.append('    (%s,) = R' % ', '.join(self.var[s] for s in self.regs))
        if self.inputs:
            src.append('    (%s,) = I' % ', '.join(self.var[s] for s in self.inputs))
        for s in order:
            v = self.var[s]
            src.append('    %s = %d' % (v, self.init(s)))
            for a in self.drv[s]:
                src.append('    if %s: %s = %s & %d' % (self.pg(a), v, self.px(a.rhs), self.mask(s)))
        nxt = []
        for i, s in enumerate(self.regs):
            v = 'n%d' % i
            nxt.append(v)
            src.append('    %s = %s' % (v, self.var[s]))
            for a in self.drv[s]:
                src.append('    if %s: %s = %s & %d' % (self.pg(a), v, self.px(a.rhs), self.mask(s)))
        src.append('    return (%s), (%s)' % (''.join(v + ', ' for v in nxt) or '()', ''.join(self.var[o] + ', ' for o in self.outputs)))
        self.source = '\n'.join(src)
        env = {}
        exec(compile(self.source, '<C44 cone of %s>' % self.what, 'exec'), env)
        return env['step']

    def loc(self, name):
        ds = self.drv.get(name)
        return ds[0].loc if ds else None


def vectors(names, fixed=None):
    """Every 0/1 assignment of the 1-bit signals `names` (dicts), honouring `fixed`."""
    names = sorted(names)
    out = []
    for bits in itertools.product((0, 1), repeat=len(names)):
        v = dict(zip(names, bits))
        if fixed and any(v.get(k) != x for k, x in fixed.items() if k in v):
            continue
        out.append(v)
    return out


def explore(ctx, starts, nvec, trans, what):
    """Breadth-first exploration of the product (design x monitor).  trans(state, vec#) -> (state', violated keys).
    Returns (parents, {key: (state, vec#)} first = shortest violation per key, truncated?)."""
    parent = {}
    for s in starts:
        parent.setdefault(s, None)
    work = deque(parent)
    bad = {}
    truncated = False
    while work:
        s = work.popleft()
        for vi in range(nvec):
            n, viol = trans(s, vi)
            for k in viol:
                if k not in bad:
                    bad[k] = (s, vi)
            if n not in parent:
                parent[n] = (s, vi)
                work.append(n)
        if len(parent) > SOFT_BUDGET and bad:
            truncated = True
            break
        ctx.need(len(parent) < HARD_LIMIT, 'small enough state space of %s (%d product states)' % (what, len(parent)))
    return parent, bad, truncated


def history(parent, state, vi):
    """Input vector numbers leading from a start state to `state`, followed by vi."""
    seq = [vi]
    while parent.get(state) is not None:
        state, v = parent[state]
        seq.append(v)
    seq.reverse()
    return seq


def rle(seq, name_of):
    out = []
    for v, grp in itertools.groupby(seq):
        n = len(list(grp))
        out.append(('%dx ' % n if n > 1 else '') + name_of(v))
    return '; '.join(out)


# ------------------------------------------------------------------------------------------------ (a) idle handshake
def check_idle(ctx):
    ir = ctx.ir(CLS_I, MOD_I)
    OUT, EN, CTRL, VALID = 'self.idle_handshake_complete', 'self.enable', 'self.sink.ctrl', 'self.sink.valid'
    net = Net(ctx, ir, [OUT], CLS_I + '.idle_handshake_complete')
    data = [s for s in net.inputs if s in ('self.sink.data', 'self.sink.payload')]
    ctx.need(len(data) == 1 and CTRL in net.inputs, 'received data and ctrl words are read by the idle handshake (inputs: %s)' % net.inputs)
    DATA = data[0]
    ctx.need(EN in net.inputs, 'idle_handshake_complete depends on enable')
    free = [s for s in net.inputs if s not in (DATA, CTRL, EN)]
    ctx.need(all(net.w(s) == 1 for s in free) and len(free) <= 3, 'only 1-bit control inputs besides the received word: %s' % free)
    wd, wc = net.w(DATA), net.w(CTRL)
    oloc = net.loc(OUT)
    geom = wd == 8 * wc and wc > 0
    ctx.ob('C44.word-geometry', CLS_I + '.sink.symbols-per-word', geom, ir.signals[DATA].loc,
           'one ctrl bit per received data byte expected (data %d bits, ctrl %d bits)' % (wd, wc))
    spw = wc
    need_words = -(-IDLE_SYMBOLS_REQUIRED // spw)
    need_cycles = -(-SENT_SYMBOLS_REQUIRED // spw)

    # received word kinds: (data, ctrl, name): logical idle, every single-bit deviation from it, and all ones
    IDLE = (0, 0, 'idle')
    ONES = ((1 << wd) - 1, (1 << wc) - 1, 'all-ones')
    singles = [(1 << i, 0, 'data[%d]' % i) for i in range(wd)] + [(0, 1 << j, 'ctrl[%d]' % j) for j in range(wc)]
    frees = vectors(free)
    step = net.step
    K_IDLE, K_SENT = 'idle', 'sent'

    def vname(entry):
        v, kd, en = entry
        extra = ''.join(',%s=%d' % (k.split('.')[-1], x) for k, x in sorted(v.items()) if k in free)
        return 'en=%d,%s%s' % (en, kd[2], extra)

    def product(kinds):
        """Exhaustive fixpoint of (design registers x reference monitor) over every history of the word alphabet `kinds`,
        enable (and any other 1-bit input) free in every cycle."""
        vs = []
        for en in (0, 1):
            for kd in kinds:
                for fv in frees:
                    v = dict(fv)
                    v.update({EN: en, DATA: kd[0], CTRL: kd[1]})
                    vs.append((v, kd, en))
        tuples = [tuple(v[n] for n in net.inputs) for v, _, _ in vs]
        is_idle = [kd[0] == 0 and kd[1] == 0 for _, kd, _ in vs]
        ens = [en for _, _, en in vs]

        def trans(s, vi):
            d, run, got, streak = s
            nd, outs = step(d, tuples[vi])
            nstreak = min(streak + 1, need_words) if is_idle[vi] else 0
            hit = nstreak >= need_words
            viol = ()
            if outs[0]:
                if not (got or hit):
                    viol += (K_IDLE,)
                if run < need_cycles:
                    viol += (K_SENT,)
            if ens[vi]:
                return (nd, min(run + 1, need_cycles), got or hit, nstreak), viol
            return (nd, 0, False, nstreak), viol
        # the handshake is not started in the first cycle after reset: the abstract initial states are the successors of
        # the reset state under every input vector with enable low
        starts = []
        for vi, (v, kd, en) in enumerate(vs):
            if en == 0:
                nd, _ = step(net.reset(), tuples[vi])
                starts.append((nd, 0, False, 1 if is_idle[vi] else 0))
        parent, bad, trunc = explore(ctx, starts, len(vs), trans, CLS_I)
        return parent, bad, trunc, vs, tuples

    parent, bad, trunc, vs, tuples = product([IDLE, ONES] + singles)
    note = ' (exploration truncated)' if trunc else ''

    def witness(key, bad=bad, parent=parent, vs=vs):
        if key not in bad:
            return ''
        s, vi = bad[key]
        return ' -- violated after the history [%s] (one cycle with enable low before it); registers %s' % (
            rle(history(parent, s, vi), lambda i: vname(vs[i])), [q.base(r) for r in net.regs])
    ctx.ob('C44.idle-window', CLS_I + '.idle_handshake_complete.eight-idle-symbols', K_IDLE not in bad, oloc,
           'idle_handshake_complete requires %d consecutive logical-idle words (%d symbols) received, the last of them inside '
           'the current enable period; %d product states x %d input vectors explored%s%s' % (
               need_words, need_words * spw, len(parent), len(vs), note, witness(K_IDLE)))
    ctx.ob('C44.sent-sixteen', CLS_I + '.idle_handshake_complete.sixteen-symbols-sent', K_SENT not in bad, oloc,
           'idle_handshake_complete requires enable during the %d preceding cycles (%d symbols sent) of the current enable '
           'period%s%s' % (need_cycles, need_cycles * spw, note, witness(K_SENT)))

    # (a3) every bit of the received word takes part in the idle classification: the same exhaustive product over the
    # two-word alphabet {idle, word with one bit set}, for every bit.  The all-ones word is the baseline: if even
    # {idle, all ones} violates the window, (a1) reports it and no particular bit is to blame.
    ignored = {'data': [], 'ctrl': []}
    if K_IDLE not in product([IDLE, ONES])[1]:
        for kd in singles:
            if K_IDLE in product([IDLE, kd])[1]:
                ignored['data' if kd[1] == 0 else 'ctrl'].append(kd[2])
    for fld, sig in (('data', DATA), ('ctrl', CTRL)):
        ctx.ob('C44.idle-compare-bits', '%s.idle-compare.%s-bits' % (CLS_I, fld), not ignored[fld], oloc,
               'every bit of %s must be zero in a logical-idle word: over all histories of {idle, single-bit word} the '
               'handshake completes without two consecutive idle words for the words %s' % (sig, ignored[fld][:8]))

    # (a4) progress, on the explored graph: in the subgraph of edges "enable high, logical idle received" (sink.valid
    # high if it is read) every path from EVERY reachable register state reaches an edge with idle_handshake_complete
    # high -- i.e. that subgraph has no complete-free cycle.  Covers idle from the start and idle arriving late.
    good = [i for i, (v, kd, en) in enumerate(vs) if en == 1 and kd is IDLE and v.get(VALID, 1) == 1]
    ctx.need(good, 'an input vector with enable high and a logical-idle word')
    states = {st[0] for st in parent}
    succ = {}
    for d in states:
        succ[d] = []
        for vi in good:
            nd, outs = step(d, tuples[vi])
            succ[d].append((nd, 1 if outs[0] else 0))
            ctx.need(nd in states, 'explored register states closed under the input alphabet')
    NEVER = len(states) + 1
    dist = {}
    for s0 in states:
        if s0 in dist:
            continue
        stack, onpath, best = [(s0, 0)], {s0}, {s0: 0}
        while stack:
            d, k = stack[-1]
            if k < len(succ[d]):
                stack[-1] = (d, k + 1)
                n, done = succ[d][k]
                if done:
                    continue
                if n in dist:
                    best[d] = max(best[d], min(NEVER, 1 + dist[n]))
                elif n in onpath:
                    best[d] = NEVER
                else:
                    onpath.add(n)
                    best[n] = 0
                    stack.append((n, 0))
            else:
                stack.pop()
                onpath.discard(d)
                dist[d] = best.pop(d)
                if stack:
                    pd = stack[-1][0]
                    best[pd] = max(best[pd], min(NEVER, 1 + dist[d]))
    stuck = sorted(d for d in states if dist[d] >= NEVER)
    wit = ''
    if stuck:
        prod = min((st for st in parent if st[0] == stuck[0]), key=lambda st: len(history(parent, st, 0)))
        wit = ' -- violated: from the register state %s, reached by the history [%s], it is never raised' % (
            dict(zip([q.base(r) for r in net.regs], stuck[0])), rle(history(parent, prod, 0)[:-1], lambda i: vname(vs[i])) or 'start')
    worst = max(dist.values()) if dist else 0
    ctx.ob('C44.handshake-completes', CLS_I + '.idle_handshake_complete.from-every-state', not stuck, oloc,
           'with enable held and logical idle received, idle_handshake_complete must be reached from every one of the %d '
           'reachable register states (longest wait: %s cycles)%s' % (len(states), worst if not stuck else 'unbounded', wit))
    ctx.note('IdleHandshakeHandler: sink.valid is %s' % ('read' if VALID in net.inputs else 'not read by the handshake logic (not decided)'))


# ------------------------------------------------------------------------------------------------ (b) U0 timers
def analyse_timer(ctx, net, tuples, quiet, n_lo, n_hi, once, vname, what):
    """Decide the two monitor properties on the graph of reachable register states (no product blow-up):
      early: the strobe is raised in a cycle preceded by fewer than n_lo - 1 quiet cycles  <=>  some reachable state with
             a strobing input has minimal quiet age < n_lo - 1 (minimal age = multi-source shortest path along quiet edges
             from the reset state and every target of a non-quiet edge);
      late:  more than n_hi consecutive quiet cycles without a strobe after a restart (non-quiet cycle, reset, and -- unless
             `once` -- a strobe)  <=>  the longest strobe-free quiet path from such a restart state exceeds n_hi (a cycle
             counts as infinite).
    Returns ({'early': text, 'late': text} for the violated ones, number of register states, quiet wait from reset)."""
    step = net.step
    nvec = len(tuples)
    qv = [i for i in range(nvec) if quiet[i]]
    r0 = net.reset()
    parent = {r0: None}
    depth = {r0: 0}
    work = deque([r0])
    qsucc = {}                 # state -> [(quiet vec#, next, strobe)]
    strobing = {}              # state -> vec# raising the strobe
    age_src, m_src = {r0: None}, {r0: None}      # restart state -> (pred, vec#) it was entered by
    while work:
        d = work.popleft()
        qs = []
        for vi in range(nvec):
            n, outs = step(d, tuples[vi])
            st = 1 if outs[0] else 0
            if st and d not in strobing:
                strobing[d] = vi
            if quiet[vi]:
                qs.append((vi, n, st))
            else:
                age_src.setdefault(n, (d, vi))
            if (not quiet[vi]) or (st and not once):
                m_src.setdefault(n, (d, vi))
            if n not in parent:
                parent[n] = (d, vi)
                depth[n] = depth[d] + 1
                work.append(n)
        qsucc[d] = qs
        ctx.need(len(parent) < HARD_LIMIT, 'small enough register state space of %s' % what)

    def path_to(d):
        seq = []
        while parent[d] is not None:
            d, vi = parent[d]
            seq.append(vi)
        seq.reverse()
        return seq

    def into(src_map, s):
        """history that enters the restart state s"""
        if src_map[s] is None:
            return []
        d, vi = src_map[s]
        return path_to(d) + [vi]
    bad = {}
    # ---- early
    if n_lo > 1:
        age = {s: 0 for s in age_src}
        via = {s: None for s in age_src}
        work = deque(age_src)
        while work:
            d = work.popleft()
            a = age[d]
            if a + 1 >= n_lo - 1:
                continue            # deeper states cannot witness an early strobe
            for vi, n, st in qsucc[d]:
                if n not in age:
                    age[n] = a + 1
                    via[n] = (d, vi)
                    work.append(n)
        worst = None
        for d, vi in strobing.items():
            if d in age and age[d] < n_lo - 1 and (worst is None or age[d] < age[worst]):
                worst = d
        if worst is not None:
            tail, d = [strobing[worst]], worst
            while via[d] is not None:
                d, vi = via[d]
                tail.append(vi)
            tail.reverse()
            bad['early'] = 'raised after only %d quiet cycle(s), history [%s]' % (age[worst], rle(into(age_src, d) + tail, vname))
    # ---- late
    INF = n_hi + 1
    dist = {}
    for s0 in m_src:
        if s0 in dist:
            continue
        stack = [(s0, 0)]
        onpath = {s0}
        best = {s0: 0}
        while stack:
            d, k = stack[-1]
            qs = qsucc[d]
            if k < len(qs):
                stack[-1] = (d, k + 1)
                vi, n, st = qs[k]
                if st:
                    continue                      # the strobe ends the wait: contributes 0
                if n in dist:
                    best[d] = max(best[d], min(INF, 1 + dist[n]))
                elif n in onpath:
                    best[d] = INF                 # strobe-free quiet cycle: never
                else:
                    onpath.add(n)
                    best[n] = 0
                    stack.append((n, 0))
            else:
                stack.pop()
                onpath.discard(d)
                dist[d] = best.pop(d)
                if stack:
                    p = stack[-1][0]
                    best[p] = max(best[p], min(INF, 1 + dist[d]))
    late = [s for s in m_src if dist[s] > n_hi]
    if late:
        s = min(late, key=lambda x: -1 if m_src[x] is None else depth[m_src[x][0]])
        # follow the longest quiet continuation for the witness
        tail, d, seen = [], s, set()
        while len(tail) <= n_hi and d not in seen and qsucc[d]:
            seen.add(d)
            vi, n, st = max(qsucc[d], key=lambda e: -1 if e[2] else dist.get(e[1], 0))
            tail.append(vi)
            d = n
        loops = d in seen
        bad['late'] = ('%s after the history [%s] followed by quiet cycles [%s%s]' % (
            'never raised (the registers cycle without it)' if loops else 'not raised within %d quiet cycles' % n_hi,
            rle(into(m_src, s), vname) or 'reset', rle(tail, vname), '; ...' if loops else ''))
    # longest quiet wait from the reset state until the strobe (graph distance, for the evidence notes)
    wait = dist[r0] + 1 if dist.get(r0, INF) <= n_hi else None
    return bad, len(parent), wait


def fmt_f(f):
    return '%gMHz' % (f / 1e6)


def check_timers(ctx, f, skipped):
    tag = 'f=' + fmt_f(f)
    ir = ctx.ir(CLS_T, MOD_T, ss_clock_frequency=f)
    EN, TX, LCR, PKT = 'self.enable', 'self.link_command_transmitted', 'self.link_command_received', 'self.packet_received'
    KEEP, REC = 'self.schedule_keepalive', 'self.transition_to_recovery'
    for s in (EN, TX, LCR, PKT, KEEP, REC):
        ctx.need(s in ir.signals, 'port %s of %s' % (s, CLS_T))
    fr = Fraction(f)
    n_rec = RECOVERY_TIMEOUT * fr
    ctx.need(n_rec.denominator == 1 and n_rec >= 4, '1 ms is a whole number of cycles at %s' % fmt_f(f))
    n_rec = int(n_rec)
    n_keep = int(KEEPALIVE_LATEST * fr)

    def decide(out, roles, quiet_of, n_lo, n_hi, once):
        net = Net(ctx, ir, [out], '%s.%s' % (CLS_T, out.split('.')[-1]))
        names = sorted(set(net.inputs) | set(roles))
        ctx.need(all(ir.signals[s].w == 1 for s in names) and len(names) <= 6, '1-bit inputs of the cone of %s: %s' % (out, names))
        vs = vectors(names)
        tuples = [tuple(v[n] for n in net.inputs) for v in vs]
        quiet = [bool(quiet_of(v)) for v in vs]

        def vname(i):
            on = [k.split('.')[-1] for k, x in sorted(vs[i].items()) if x]
            return '+'.join(on) if on else 'nothing'
        if net.state_bits > MAX_EXHAUSTIVE_BITS:
            # fail closed: never a pass.  Reported as ANALYSIS-ERROR at the end of run() unless another configuration
            # already shows a violation (then that verdict stands).
            skipped.append('timer cone of %s at %s too large to analyse every register state (%d register bits in %s, limit %d)' % (
                out, fmt_f(f), net.state_bits, [q.base(r) for r in net.regs], MAX_EXHAUSTIVE_BITS))
            return net, None, None, None
        bad, n, wait = analyse_timer(ctx, net, tuples, quiet, n_lo, n_hi, once, vname, '%s %s' % (tag, out))
        how = 'all %d reachable states of %s x %d input vectors' % (n, [q.base(r) for r in net.regs], len(vs))
        return net, bad, how, wait

    # ---- keepalive: upper bound only
    net, bad, how, wait = decide(KEEP, (EN, TX), lambda v: v[EN] and not v[TX], 0, n_keep, False)
    if bad is not None:
        ctx.ob('C44.keepalive-deadline', '%s.schedule_keepalive.deadline[%s]' % (CLS_T, tag), 'late' not in bad, net.loc(KEEP),
               'while enabled, schedule_keepalive must be raised at most 10 ms (%d cycles at %s) after the last transmitted '
               'link command / U0 entry / previous request (%s)%s' % (
                   n_keep, fmt_f(f), how, ' -- violated: ' + bad['late'] if 'late' in bad else ''))
        if wait is not None:
            ctx.note('%s: schedule_keepalive is raised %d cycles (%.3f us) after reset / the last transmitted link command' % (
                tag, wait, wait / f * 1e6))

    # ---- recovery: exact
    net, bad, how, wait = decide(REC, (EN, LCR, PKT), lambda v: v[EN] and not v[LCR] and not v[PKT], n_rec, n_rec, True)
    if bad is not None:
        ctx.ob('C44.recovery-not-early', '%s.transition_to_recovery.not-before-1ms[%s]' % (CLS_T, tag), 'early' not in bad, net.loc(REC),
               'transition_to_recovery may only be raised when the %d preceding cycles (1 ms at %s, less the current cycle) '
               'were all enabled without link_command_received / packet_received (%s)%s' % (
                   n_rec - 1, fmt_f(f), how, ' -- violated: ' + bad['early'] if 'early' in bad else ''))
        ctx.ob('C44.recovery-deadline', '%s.transition_to_recovery.within-one-cycle[%s]' % (CLS_T, tag), 'late' not in bad, net.loc(REC),
               'transition_to_recovery must be raised %d or %d cycles after the last received link command / header packet / '
               'U0 entry / reset when nothing is received (%s)%s' % (
                   n_rec, n_rec + 1, how, ' -- violated: ' + bad['late'] if 'late' in bad else ''))
        if wait is not None:
            ctx.note('%s: transition_to_recovery is raised %d cycles (%.6f ms) after reset / the last received command or packet' % (
                tag, wait, wait / f * 1e3))


def run(ctx):
    check_idle(ctx)
    skipped = []
    # 1 MHz: small counters; 1.6 MHz / 1.024 MHz: the keepalive (16) / recovery (1024) counter overflows exactly at its
    # timeout; 125 MHz: the link layer default
    freqs = (1e6, 1.6e6, 1.024e6, 125e6)
    if ctx.tier == 'thorough':
        freqs += (2e6, 3e6, 12.8e6, 62.5e6, 250e6)
    for f in freqs:
        check_timers(ctx, f, skipped)
    # fail closed: a configuration that could not be analysed is never a pass; a violation found elsewhere stands
    ctx.need(not skipped or any(not o.ok for o in ctx.obs), '; '.join(skipped))
