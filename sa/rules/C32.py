"""C32 -- receive CTC removes exactly the SKP symbols and nothing else."""
import itertools
from ..ir import E, AnalysisError
from .. import q

TITLE = 'receive CTC SKP removal'
FLOOR = 90
DECIDES = ('CTCSkipRemover by lane-level dataflow: ONE cycle of the extracted guarded assignments (last assignment wins) is '
           'evaluated with symbolic bytes -- every input lane and every buffer lane is a bit vector of identity-carrying '
           'symbols, the control values are enumerated exhaustively: byte count register x sink.valid x, per input lane, '
           'ctrl bit 0/1 x data byte in {each constant the source compares the data with, SKP value 0x3C, any other value} '
           '(an exact partition: every comparison in the source folds on every class, anything that does not fold is an '
           'analysis error); slices / Cat / shifts by (enumerated, hence constant) amounts are pure routing and keep the '
           'identity of each bit, so "which input lane does this output lane carry" is read off the result. Arranged as an '
           'inductive invariant, no multi-cycle run: abstract state = (n, the n pending bytes sit in the buffer lanes '
           'given by a layout function of n, oldest first; the layout is found among top/bottom aligned, both orders). '
           '(a) a lane is dropped exactly when ctrl[i] & data byte i == 0x3C (K28.1) on a valid word; (b) for each of the 16 '
           'skip masks the compacted data / ctrl word read by the buffer push carries the non-SKP lanes in ascending order '
           'packed from lane 0 and the byte count is 4 - popcount(mask) [(a) and (b) localise a failure of (c): a deviation of the '
           'intermediate compacted word is reported only for input classes on which the whole step (c) is wrong too]; (c) for EVERY n of the invariant region (0..7 and '
           'whatever else the count can reach, fixpoint over the count alone from reset under all inputs with source.ready=1) '
           'x every input class: new buffer = (old pending ++ new non-SKP bytes) minus the bytes output, in order, data and '
           'ctrl lanes routed identically, new count = its length and representable without wrap; when source.valid the output '
           'word is the 4 oldest pending bytes in order (data and ctrl); source.valid only with >= 4 pending; nothing changes '
           'without a valid input (except the word taken); sink.ready is 1 in every state of the region (the PHY cannot be '
           'stalled); the region fits the buffer register; reset state is empty; widths of buffer / count registers; '
           '(d) USB3PhysicalLayer: the one CTCSkipRemover has source.ready driven unconditionally by its consumer whose '
           'sink.ready is the constant 1; sink data and ctrl come unconditionally from the same PHY word '
           '(rx_data / rx_datak). Thorough tier: (a) again for all 256 byte values x ctrl of each lane concretely. ')
NOT_DECIDED = ('behaviour under back-pressure (source.ready low: the count can then reach 8, for which no output case exists) '
               '-- excluded by the property; that the composition of the per-cycle steps over an unbounded input sequence '
               'equals the filtered sequence is the induction argument itself (base + step are decided, the induction is '
               'not mechanised); the first / last side-band bits of the stream; diagnostic outputs skip_removed and '
               'bytes_in_buffer; the PHY-internal elastic buffer.')

SKP_SYMBOL = 0x3C          # K28.1 [USB 3.2r1 table 6-2]
MAX_CONSTS = 3             # distinct constants the input data may be compared with (class enumeration stays small)


# ------------------------------------------------------------------------------------------ symbolic bit vectors
# a bit is the int 0/1, or a tuple (identity, value) with value 0 / 1 / None (unknown);  identities:
#   ('d', lane, bit) input data, ('k', lane) input ctrl, ('D', lane, bit) buffer data, ('C', lane) buffer ctrl, ('x', name, bit) other
class Undecided(AnalysisError):
    pass


def kv(b):
    return b if b.__class__ is int else b[1]


class V:
    __slots__ = ('bits', 'num')

    def __init__(self, bits, num=None):
        self.bits = tuple(bits)
        self.num = num            # exact integer when the value came out of arithmetic on known operands

    def known(self):
        if self.num is not None:
            return self.num
        r = 0
        for i, b in enumerate(self.bits):
            v = kv(b)
            if v is None:
                return None
            r |= v << i
        return r


def from_int(val, w=None):
    if w is None:
        w = max(val.bit_length(), 1) + (1 if val < 0 else 0)
    return V([(val >> i) & 1 for i in range(w)], num=val)


def resize(bits, w):
    bits = tuple(bits)
    return bits[:w] if len(bits) >= w else bits + (0,) * (w - len(bits))


CMP = {'<': lambda a, b: a < b, '<=': lambda a, b: a <= b, '>': lambda a, b: a > b, '>=': lambda a, b: a >= b}


class Model:
    """Flat (FSM-less) module: drivers per signal in program order, comb / sync split, read sets."""

    def __init__(self, ctx, ir):
        self.ir = ir
        self.comb, self.sync = {}, {}
        doms = set()
        for a in sorted(ir.assigns, key=lambda x: x.order):
            tgt = a.lhs.args[0] if isinstance(a.lhs, E) and a.lhs.op == 'slice' else a.lhs
            ok = isinstance(tgt, E) and tgt.op == 'sig' and isinstance(a.rhs, E) and a.state is None
            if ok and a.lhs.op == 'slice':
                ok = isinstance(a.lhs.args[1], int) and isinstance(a.lhs.args[2], int)
            ctx.need(ok, '%s assignment to a signal (or a constant slice of one) outside any FSM: %s' % (ir.clsname, q.fmt(a)))
            ctx.need(not any(l.kind == 'cfg' for l in a.guard), 'no configuration-dependent guard in %s: %s' % (ir.clsname, q.fmt(a)))
            n = tgt.args[0].name
            if a.domain == 'comb':
                self.comb.setdefault(n, []).append(a)
            else:
                doms.add(a.domain)
                self.sync.setdefault(n, []).append(a)
        ctx.need(len(doms) == 1, '%s registers live in one clock domain (found %s)' % (ir.clsname, sorted(doms)))
        ctx.need(not (set(self.comb) & set(self.sync)), 'no signal of %s is driven from two domains' % ir.clsname)
        self._cone = {}

    def width(self, n):
        si = self.ir.signals.get(n)
        if si is None or si.w is None:
            raise AnalysisError('C32: width of %s unknown' % n)
        if getattr(si, 'signed', False):
            raise AnalysisError('C32: signed signal %s not modelled' % n)
        return si.w

    @staticmethod
    def reads(a, rhs=True, guard=True):
        out = set()
        if rhs and isinstance(a.rhs, E):
            out |= a.rhs.sigs()
        if guard:
            for l in a.guard:
                if isinstance(l.e, E):
                    out |= l.e.sigs()
        return out

    def cone(self, name):
        """Signals `name` depends on combinationally (through right-hand sides and guards), itself included."""
        if name in self._cone:
            return self._cone[name]
        seen, work = set(), [name]
        while work:
            s = work.pop()
            if s in seen:
                continue
            seen.add(s)
            for a in self.comb.get(s, ()):
                work.extend(self.reads(a))
        self._cone[name] = seen
        return seen


class Cycle:
    """One clock cycle: lazy evaluation of combinational signals, then next values of registers."""

    def __init__(self, model, env, ne, static=None, static_names=()):
        self.m = model
        self.env = dict(env)
        self.ne = ne                      # (kind, lane) -> set of byte values this symbolic data byte is known to differ from
        self.win = {}
        self.busy = set()
        self.cache = {}
        self.static = static
        self.static_names = static_names
        self.wrapped = []                 # (signal, exact value, assignment) stores that do not fit the target

    # ---- signals
    def sig(self, name):
        v = self.env.get(name)
        if v is not None:
            return v
        if self.static is not None and name in self.static_names and name in self.static:
            v, w = self.static[name]
            self.env[name], self.win[name] = v, w
            return v
        ds = self.m.comb.get(name)
        if ds is None:
            raise AnalysisError('C32: signal %s is read but is neither an input, a register nor combinationally driven' % name)
        if name in self.busy:
            raise AnalysisError('C32: combinational loop through %s' % name)
        self.busy.add(name)
        w = self.m.width(name)
        cur = list(from_int(self.m.ir.signals[name].init or 0, w).bits)
        win = None
        for a in ds:
            if self.guard(a):
                cur = self.store(name, cur, a, w)
                win = a
        self.busy.discard(name)
        v = V(cur)
        self.env[name], self.win[name] = v, win
        if self.static is not None and name in self.static_names:
            self.static[name] = (v, win)
        return v

    def next(self, name):
        w = self.m.width(name)
        cur = list(resize(self.sig(name).bits, w))
        win = None
        for a in self.m.sync[name]:
            if self.guard(a):
                cur = self.store(name, cur, a, w)
                win = a
        return V(cur), win

    def store(self, name, cur, a, w):
        val = self.ev(a.rhs)
        if a.lhs.op == 'slice':
            lo, hi = a.lhs.args[1], a.lhs.args[2]
            cur = list(cur)
            cur[lo:hi] = resize(val.bits, hi - lo)
            return cur
        if val.num is not None and not (0 <= val.num < (1 << w)):
            self.wrapped.append((name, val.num, a))
        return list(resize(val.bits, w))

    def guard(self, a):
        for l in a.guard:
            t = self.ev(l.e).known()
            if t is None:
                raise Undecided('C32: guard literal %s does not fold on this input class' % l.canon())
            if bool(t) != l.pos:
                return False
        return True

    # ---- expressions
    def ev(self, e):
        if not isinstance(e, E):
            if isinstance(e, (int, bool)):
                return from_int(int(e))
            raise AnalysisError('C32: cannot evaluate %r' % (e,))
        r = self.cache.get(id(e))
        if r is None:
            r = self._ev(e)
            self.cache[id(e)] = r
        return r

    def integer(self, x, what):
        v = self.ev(x) if not isinstance(x, int) else None
        n = x if v is None else v.known()
        if n is None:
            raise Undecided('C32: %s is not a known integer on this input class: %s' % (what, x.canon()))
        return n

    def unsigned(self, v, e):
        if v.num is not None and v.num < 0:
            raise AnalysisError('C32: negative intermediate value not modelled in %s' % e.canon())
        return v.bits

    def _ev(self, e):
        op = e.op
        if op == 'const':
            if not isinstance(e.val, int):
                raise AnalysisError('C32: non-integer constant %r' % (e.val,))
            return from_int(int(e.val), e.w)
        if op == 'sig':
            return self.sig(e.args[0].name)
        if op == 'slice':
            x, lo, hi = e.args
            bits = self.unsigned(self.ev(x), e)
            lo = self.integer(lo, 'slice bound')
            hi = len(bits) if hi == 'end' else self.integer(hi, 'slice bound')
            if lo < 0 or hi < 0:
                raise AnalysisError('C32: negative slice bound in %s' % e.canon())
            return V(bits[lo:hi])
        if op == 'cat':
            out = []
            for a in e.args:
                out.extend(self.unsigned(self.ev(a), e))
            return V(out)
        if op == 'rev':
            return V(reversed(self.unsigned(self.ev(e.args[0]), e)))
        if op == '~':
            out = []
            for b in self.unsigned(self.ev(e.args[0]), e):
                v = kv(b)
                if v is None:
                    raise Undecided('C32: complement of a symbolic bit in %s' % e.canon())
                out.append(1 - v)
            return V(out)
        if op in ('&', '|', '^'):
            vals = [self.unsigned(self.ev(a), e) for a in e.args]
            w = max(len(b) for b in vals)
            acc = resize(vals[0], w)
            for nxt in vals[1:]:
                acc = tuple(self.bitop(op, x, y, e) for x, y in zip(acc, resize(nxt, w)))
            return V(acc)
        if op in ('==', '!='):
            a, b = (self.unsigned(self.ev(x), e) for x in e.args)
            r = self.equal(a, b, e)
            return from_int(r if op == '==' else 1 - r, 1)
        if op in CMP:
            a, b = (self.integer(x, 'comparison operand') for x in e.args)
            return from_int(int(CMP[op](a, b)), 1)
        if op in ('+', '-', '*'):
            vals = [self.ev(a) for a in e.args]
            nums = []
            for v, a in zip(vals, e.args):
                n = v.known()
                if n is None:
                    raise Undecided('C32: arithmetic on a symbolic operand in %s' % e.canon())
                nums.append(n)
            if op == '+':
                r, w = sum(nums), max(len(v.bits) for v in vals) + len(vals) - 1
            elif op == '-':
                if len(nums) != 2:
                    raise AnalysisError('C32: n-ary subtraction')
                r, w = nums[0] - nums[1], max(len(v.bits) for v in vals) + 1
            else:
                r, w = 1, sum(len(v.bits) for v in vals)
                for n in nums:
                    r *= n
            return from_int(r, w)
        if op in ('<<', '>>'):
            bits = self.unsigned(self.ev(e.args[0]), e)
            k = self.integer(e.args[1], 'shift amount')
            if k < 0:
                raise AnalysisError('C32: negative shift in %s' % e.canon())
            return V(((0,) * k + bits) if op == '<<' else bits[k:] or (0,))
        if op == 'mux':
            return self.ev(e.args[1]) if self.integer(e.args[0], 'Mux selector') else self.ev(e.args[2])
        if op == 'arr':
            i = self.integer(e.args[0], 'Array index')
            items = e.args[1:]
            return self.ev(items[min(i, len(items) - 1)])
        if op == 'call':
            fn = e.args[0]
            if fn in ('bit_select', 'word_select'):
                bits = self.unsigned(self.ev(e.args[1]), e)
                off = self.integer(e.args[2], 'select offset')
                w = self.integer(e.args[3], 'select width')
                lo = off if fn == 'bit_select' else off * w
                return V(resize(bits[lo:lo + w], w))
            if fn in ('any', 'bool', 'all'):
                vs = [kv(b) for b in self.unsigned(self.ev(e.args[1]), e)]
                if fn == 'all':
                    if any(v == 0 for v in vs):
                        return from_int(0, 1)
                    if all(v == 1 for v in vs):
                        return from_int(1, 1)
                else:
                    if any(v == 1 for v in vs):
                        return from_int(1, 1)
                    if all(v == 0 for v in vs):
                        return from_int(0, 1)
                raise Undecided('C32: %s() of symbolic bits in %s' % (fn, e.canon()))
            if fn == 'matches':
                a = self.unsigned(self.ev(e.args[1]), e)
                hit = 0
                for p in e.args[2:]:
                    if not (isinstance(p, E) and p.op == 'const' and isinstance(p.val, int)):
                        raise AnalysisError('C32: matches() pattern not an integer in %s' % e.canon())
                    hit |= self.equal(a, from_int(p.val).bits, e)
                return from_int(hit, 1)
            if fn in ('as_unsigned', 'as_value'):
                return V(self.unsigned(self.ev(e.args[1]), e))
            if fn in ('shift_left', 'shift_right'):
                bits = self.unsigned(self.ev(e.args[1]), e)
                k = self.integer(e.args[2], 'shift amount')
                if k < 0:
                    raise AnalysisError('C32: negative shift in %s' % e.canon())
                return V(((0,) * k + bits) if fn == 'shift_left' else bits[k:] or (0,))
        raise AnalysisError('C32: expression form not evaluated: %s' % e.canon()[:200])

    def bitop(self, op, x, y, e):
        # a plain constant operand (the same in every input class) makes the operator a pass-through or a constant:
        # the identity of the other bit is kept, which is what zero-extension, shift-and-or packing and masks amount to
        for p, r in ((x, y), (y, x)):
            if r.__class__ is int:
                if op == '&':
                    return p if r else 0
                if op == '|':
                    return 1 if r else p
                return p if not r else (1 - p if p.__class__ is int else self._flip(p, e))
        a, b = kv(x), kv(y)
        if a is not None and b is not None:
            return (a & b) if op == '&' else (a | b) if op == '|' else (a ^ b)
        if op == '&':
            if a == 0 or b == 0:
                return 0
            if a == 1:
                return y
            if b == 1:
                return x
        elif op == '|':
            if a == 1 or b == 1:
                return 1
            if a == 0:
                return y
            if b == 0:
                return x
        elif op == '^':
            if a == 0:
                return y
            if b == 0:
                return x
        if x[0] == y[0]:
            return x if op in ('&', '|') else 0
        raise Undecided('C32: %s of two symbolic bits in %s' % (op, e.canon()[:160]))

    def _flip(self, p, e):
        v = kv(p)
        if v is None:
            raise Undecided('C32: complement of a symbolic bit in %s' % e.canon()[:160])
        return 1 - v

    def equal(self, a, b, e):
        """1 / 0 if a == b is decided on this input class (bit values, identities, known-different data bytes)."""
        w = max(len(a), len(b))
        a, b = resize(a, w), resize(b, w)
        open_ = False
        for x, y in zip(a, b):
            p, r = kv(x), kv(y)
            if p is not None and r is not None:
                if p != r:
                    return 0
            elif x.__class__ is tuple and y.__class__ is tuple and x[0] == y[0]:
                continue
            else:
                open_ = True
        if not open_:
            return 1
        for s, o in ((a, b), (b, a)):
            for p in range(0, w - 7):
                x = s[p]
                if x.__class__ is tuple and x[1] is None and len(x[0]) == 3 and x[0][2] == 0 and (x[0][0], x[0][1]) in self.ne:
                    kind, lane = x[0][0], x[0][1]
                    if all(s[p + j].__class__ is tuple and s[p + j][0] == (kind, lane, j) for j in range(8)):
                        c = 0
                        for j in range(8):
                            t = kv(o[p + j])
                            if t is None:
                                c = None
                                break
                            c |= t << j
                        if c is not None and c in self.ne[(kind, lane)]:
                            return 0
                        if c is not None and c < 256:
                            self.m.missing.add(c)     # refinement: this constant needs a data class of its own
        raise Undecided('C32: comparison does not fold on this input class: %s' % e.canon()[:200])


# ------------------------------------------------------------------------------------------ lanes and tokens
def data_tokens(bits, lanes):
    """Per byte lane: ('d', i) input lane i, ('D', j) buffer lane j, ('const', v), or ('mixed', text)."""
    bits = resize(bits, 8 * lanes)
    out = []
    for l in range(lanes):
        by = bits[8 * l:8 * l + 8]
        b0 = by[0]
        if b0.__class__ is tuple and len(b0[0]) == 3 and b0[0][0] in ('d', 'D') and \
                all(b.__class__ is tuple and b[0] == (b0[0][0], b0[0][1], j) for j, b in enumerate(by)):
            out.append((b0[0][0], b0[0][1]))
        elif all(b.__class__ is int for b in by):
            out.append(('const', sum(b << j for j, b in enumerate(by))))
        else:
            out.append(('mixed', ','.join(tok_bit(b) for b in by)))
    return out


def ctrl_tokens(bits, lanes):
    out = []
    for b in resize(bits, lanes):
        if b.__class__ is tuple and b[0][0] == 'k':
            out.append(('d', b[0][1]))
        elif b.__class__ is tuple and b[0][0] == 'C':
            out.append(('D', b[0][1]))
        elif b.__class__ is int:
            out.append(('const', b))
        else:
            out.append(('mixed', tok_bit(b)))
    return out


def tok_bit(b):
    if b.__class__ is int:
        return str(b)
    return '.'.join(str(x) for x in b[0])


def show(tokens):
    def one(t):
        if t[0] == 'd':
            return 'in%d' % t[1]
        if t[0] == 'D':
            return 'buf%d' % t[1]
        if t[0] == 'const':
            return '%#x' % t[1]
        return '<%s>' % t[1][:40]
    return '[' + ' '.join(one(t) for t in tokens) + ']'


def show_class(combo):
    out = []
    for k, d in combo:
        if k == 1 and d == SKP_SYMBOL:
            out.append('SKP')
        else:
            out.append('%s.%s' % ('K' if k else 'D', 'xx' if d == '*' else '%02x' % d))
    return '(' + ' '.join(out) + ')'


LAYOUTS = (
    ('top-aligned, oldest in the lowest lane', lambda n, W: [W - n + j for j in range(n)]),
    ('bottom-aligned, oldest in lane 0', lambda n, W: list(range(n))),
    ('top-aligned, oldest in the highest lane', lambda n, W: [W - 1 - j for j in range(n)]),
    ('bottom-aligned, oldest in the highest lane', lambda n, W: [n - 1 - j for j in range(n)]),
)


# ------------------------------------------------------------------------------------------ the remover
def check_remover(ctx):
    ir = ctx.ir('CTCSkipRemover', 'usb3.physical.ctc')
    ctx.need(not ir.fsms, 'CTCSkipRemover has no FSM')
    m = Model(ctx, ir)
    SV, SR, SP, SC = 'self.sink.valid', 'self.sink.ready', 'self.sink.payload', 'self.sink.ctrl'
    OV, ORDY, OP, OC = 'self.source.valid', 'self.source.ready', 'self.source.payload', 'self.source.ctrl'
    for n in (SV, SR, SP, SC, OV, ORDY, OP, OC):
        ctx.need(n in ir.signals and ir.signals[n].w is not None, 'stream signal %s of CTCSkipRemover' % n)
    for n in (SR, OV, OP, OC):
        ctx.need(n in m.comb, '%s is driven combinationally by CTCSkipRemover' % n)
    for n in (SV, SP, SC, ORDY):
        ctx.need(n not in m.comb and n not in m.sync, '%s is an input of CTCSkipRemover' % n)
    B = ir.signals[SC].w
    shape_ok = B >= 1 and ir.signals[SP].w == 8 * B and ir.signals[OC].w == B and ir.signals[OP].w == 8 * B
    ctx.ob('C32.shape', 'CTCSkipRemover.stream.word-shape', shape_ok, ir.signals[SC].loc,
           'sink and source carry the same number of byte lanes, 8 data bits and one ctrl bit each (sink %s/%s, source %s/%s)' % (
               ir.signals[SP].w, ir.signals[SC].w, ir.signals[OP].w, ir.signals[OC].w))
    ctx.need(shape_ok and B <= 4, 'CTCSkipRemover stream shape (%d lanes)' % B)

    # ---- roles of the registers (by dataflow, not by name)
    regs = set(m.sync)
    cnt = sorted(regs & m.cone(OV))
    ctx.need(len(cnt) == 1, 'the byte count register is the one register source.valid depends on (found %s)' % cnt)
    CNT = cnt[0]
    def direct(names, sig):
        out = set()
        for a in (m.comb.get(sig) or m.sync.get(sig) or ()):
            out |= m.reads(a, guard=False)
        return sorted(out & names)
    dbuf, cbuf = direct(regs - {CNT}, OP), direct(regs - {CNT}, OC)
    ctx.need(len(dbuf) == 1 and len(cbuf) == 1 and dbuf != cbuf,
             'source.payload / source.ctrl are taken from one data buffer register and one ctrl buffer register (found %s / %s)' % (dbuf, cbuf))
    DBUF, CBUF = dbuf[0], cbuf[0]
    ctx.need(regs == {CNT, DBUF, CBUF}, 'CTCSkipRemover keeps exactly the count, data buffer and ctrl buffer registers (found %s)' % sorted(regs))
    scnt, sd, sc = ir.signals[CNT], ir.signals[DBUF], ir.signals[CBUF]
    ctx.need(None not in (scnt.w, sd.w, sc.w), 'register widths are known')
    WD, WC = sd.w // 8, sc.w         # byte lanes of the data buffer / of the ctrl buffer
    W = min(WD, WC)
    NSPEC = 2 * B - 1                # largest pending count when a word leaves as soon as one is complete
    ctx.ob('C32.shape', 'CTCSkipRemover.buffer.lanes', W >= NSPEC, sd.loc,
           'the data buffer (%s bits) and the ctrl buffer (%s bits) must each have at least %d byte lanes: with %d bytes pending no '
           'word leaves and up to %d new bytes arrive' % (sd.w, sc.w, NSPEC, B - 1, B))
    ctx.ob('C32.shape', 'CTCSkipRemover.count.range', (1 << scnt.w) > NSPEC, scnt.loc,
           'the byte count register %s (width %s, range %s) must hold 0..%d' % (CNT, scnt.w, scnt.rng, NSPEC))
    ctx.ob('C32.reset', 'CTCSkipRemover.count.reset-empty', (scnt.init or 0) == 0, scnt.loc,
           'the byte count must reset to 0: the buffer content after reset is not received data (init=%r)' % (scnt.init,))

    # ---- the compacted word (roles: what the buffer push reads besides the buffer itself)
    def feeders(reg):
        out = set()
        for a in m.sync[reg]:
            out |= m.reads(a, guard=False)
        return sorted((out - regs) & set(m.comb))
    dyn = regs | {ORDY}
    vd, vc = feeders(DBUF), feeders(CBUF)
    # the new-byte count: the one combinational signal computed from the input word alone that the count update or the
    # buffer pushes consult -- in a right-hand side (count + new) or in a guard (Switch/Case on the number of new bytes)
    vn = set()
    for reg in (CNT, DBUF, CBUF):
        for a in m.sync[reg]:
            vn |= m.reads(a, guard=True)
    vn = sorted(s for s in (vn - regs) & set(m.comb) if not (m.cone(s) & dyn) and s not in vd + vc)
    ctx.need(len(vd) == 1 and len(vc) == 1 and len(vn) == 1 and len({vd[0], vc[0], vn[0]}) == 3,
             'the compacted data word, compacted ctrl word and new-byte count are one combinational signal each '
             '(read by the data buffer / ctrl buffer / count updates; found %s / %s / %s)' % (vd, vc, vn))
    VD, VC, VN = vd[0], vc[0], vn[0]
    for s in (VD, VC, VN):
        ctx.need(not (m.cone(s) & dyn), 'the compacted word signal %s depends on the input word only (reads %s)' % (s, sorted(m.cone(s) & dyn)))
    static_names = frozenset(s for s in m.comb if not (m.cone(s) & dyn))
    roles = (SV, SR, SP, SC, OV, ORDY, OP, OC, B, W, WD, WC, NSPEC, CNT, DBUF, CBUF, VD, VC, VN, static_names)

    # ---- constants the input data is compared with -> exact partition of the byte values.  Found by refinement: start
    # with the SKP value; a comparison of a symbolic data byte with another constant makes that constant a class of its own.
    consts = {SKP_SYMBOL}
    while True:
        m.missing = set()
        try:
            res = sweep(ctx, ir, m, consts, roles)
            break
        except Undecided:
            new = m.missing - consts
            if not new or len(consts | new) > MAX_CONSTS:
                raise
            consts |= new
    emit_all(ctx, res)
    return ir


def sweep(ctx, ir, m, consts, roles):
    (SV, SR, SP, SC, OV, ORDY, OP, OC, B, W, WD, WC, NSPEC, CNT, DBUF, CBUF, VD, VC, VN, static_names) = roles
    scnt, sd, sc = ir.signals[CNT], ir.signals[DBUF], ir.signals[CBUF]
    dclasses = sorted(consts) + ['*']
    lane_classes = [(k, d) for k in (0, 1) for d in dclasses]
    combos = list(itertools.product(lane_classes, repeat=B))

    buf_env = {
        DBUF: V([(('D', j // 8, j % 8), None) for j in range(sd.w)]),
        CBUF: V([(('C', j), None) for j in range(sc.w)]),
    }
    other_inputs = {}
    for n, si in ir.signals.items():
        if n not in m.comb and n not in m.sync and n not in (SV, SP, SC, ORDY) and si.w is not None:
            other_inputs[n] = V([(('x', n, j), None) for j in range(si.w)])

    def in_env(valid, combo):
        data, ne = [], {}
        for i, (k, d) in enumerate(combo):
            if d == '*':
                data += [(('d', i, b), None) for b in range(8)]
                ne[('d', i)] = consts
            else:
                data += [(('d', i, b), (d >> b) & 1) for b in range(8)]
        env = {SV: from_int(valid, 1), ORDY: from_int(1, 1), SP: V(data),
               SC: V([(('k', i), k) for i, (k, d) in enumerate(combo)])}
        env.update(other_inputs)
        return env, ne

    def spec_kept(combo):
        return [('d', i) for i, (k, d) in enumerate(combo) if not (k == 1 and d == SKP_SYMBOL)]

    def spec_mask(combo):
        return sum(1 << i for i, (k, d) in enumerate(combo) if k == 1 and d == SKP_SYMBOL)

    statics = {}

    def cycle(n, valid, combo):
        env, ne = in_env(valid, combo)
        env.update(buf_env)
        env[CNT] = from_int(n, scnt.w)
        return Cycle(m, env, ne, statics.setdefault((valid, combo), {}), static_names)

    # ---- one-cycle sweep over the invariant region: all n x valid x input classes
    init = scnt.init or 0
    seeds = sorted(set(range(NSPEC + 1)) | {init})
    todo, done = list(seeds), {}
    n_cycles = 0
    while todo:
        n = todo.pop(0)
        if n in done:
            continue
        rows = []
        for valid in (1, 0):
            for combo in combos:
                c = cycle(n, valid, combo)
                ov = c.sig(OV).known()
                rdy = c.sig(SR).known()
                if ov is None or rdy is None:
                    raise Undecided('C32: source.valid / sink.ready do not fold with %d bytes pending' % n)
                nd, wd = c.next(DBUF)
                nc, wc = c.next(CBUF)
                nn, wn = c.next(CNT)
                nnk = nn.known()
                if nnk is None:
                    raise Undecided('C32: next byte count does not fold with %d bytes pending' % n)
                rows.append(dict(n=n, valid=valid, combo=combo, ov=ov, rdy=rdy, nn=nnk,
                                 od=data_tokens(c.sig(OP).bits, B) if ov else None, oc=ctrl_tokens(c.sig(OC).bits, B) if ov else None,
                                 wod=c.win.get(OP), woc=c.win.get(OC), wov=c.win.get(OV), wrdy=c.win.get(SR),
                                 nd=data_tokens(nd.bits, WD), nc=ctrl_tokens(nc.bits, WC), wd=wd, wc=wc, wn=wn,
                                 wrapped=[x for x in c.wrapped if x[0] == CNT]))
                n_cycles += 1
        done[n] = rows
        for r in rows:
            if r['nn'] not in done and r['nn'] not in todo:
                todo.append(r['nn'])
    ctx.need(n_cycles == len(done) * 2 * len(combos) and n_cycles >= 2000, 'one-cycle sweep size (%d)' % n_cycles)
    reach, work = set(), [init]
    while work:
        n = work.pop()
        if n in reach:
            continue
        reach.add(n)
        work.extend(r['nn'] for r in done[n])
    region = sorted(set(seeds) | reach)

    def cex_text(r):
        return '%d bytes pending, sink.valid=%d, input lanes %s' % (r['n'], r['valid'], show_class(r['combo']))

    # ---- layout-independent facts
    facts = {}          # key -> (msg, loc)

    def fail(store, key, msg, a, sig=None):
        if key not in store:
            si = ir.signals.get(sig) if sig else None
            store[key] = ('%s%s' % (msg, (' -- deciding statement: ' + q.fmt(a)) if a is not None else
                                    ' -- no statement assigns %s here (it keeps its default / old value)' % (sig or 'it')),
                          a.loc if a is not None else (si.loc if si is not None else None))

    for n in region:
        for r in done[n]:
            if r['ov'] and n < B:
                fail(facts, 'valid', 'source.valid is raised with %s: fewer than %d bytes pending' % (cex_text(r), B), r['wov'], OV)
            if n in reach and not r['rdy']:
                fail(facts, 'ready', 'sink.ready is low with %s' % cex_text(r), r['wrdy'], SR)
            if n in reach and r['wrapped']:
                _, num, a = r['wrapped'][0]
                fail(facts, 'wrap', 'the next byte count %d does not fit the %d-bit count register with %s' % (num, scnt.w, cex_text(r)), a)
    over = [n for n in sorted(reach) if n > W]
    if over:
        bad = [r for n in sorted(reach) for r in done[n] if r['nn'] == over[0]]
        fail(facts, 'capacity', 'the byte count can reach %d but the buffer holds %d bytes (%s)' % (
            over[0], W, cex_text(bad[0]) if bad else 'reset value'), bad[0]['wn'] if bad else None, CNT)

    # ---- layout-dependent checks under each candidate layout; keep the best
    def judge(layout):
        F, badc = {}, set()
        for n in region:
            if n > W:
                continue
            Pd, Pc = [('D', l) for l in layout(n, WD)], [('D', l) for l in layout(n, WC)]
            for r in done[n]:
                out = bool(r['ov'])
                if out and n >= B:
                    if r['od'] != Pd[:B]:
                        fail(F, (n, 'out.data'), 'source.data carries %s, the %d oldest pending bytes are %s (%s)' % (
                            show(r['od']), B, show(Pd[:B]), cex_text(r)), r['wod'], OP)
                    if r['oc'] != Pc[:B]:
                        fail(F, (n, 'out.ctrl'), 'source.ctrl carries the ctrl bits of %s, those of the %d oldest pending bytes are %s (%s)' % (
                            show(r['oc']), B, show(Pc[:B]), cex_text(r)), r['woc'], OC)
                new = spec_kept(r['combo']) if (r['valid'] and r['rdy']) else []
                drop = B if out else 0
                Qd, Qc = (Pd + new)[drop:], (Pc + new)[drop:]
                kinds = ('append.data', 'append.ctrl', 'count') if r['valid'] else ('idle', 'idle', 'idle')
                def what(P):
                    return ('pending %s ++ new %s%s' % (show(P), show(new), ' minus the word output' if out else '')) if r['valid'] else \
                        ('pending %s%s, no input word' % (show(P), ' minus the word output' if out else ''))
                bad = False
                if r['nn'] != len(Qd):
                    bad = True
                    fail(F, (n, kinds[2]), 'the byte count becomes %d, must become %d = %s (%s)' % (r['nn'], len(Qd), what(Pd), cex_text(r)), r['wn'], CNT)
                if len(Qd) > W:
                    bad = True
                    fail(F, (n, kinds[0]), '%d bytes must stay pending but the buffer has %d lanes (%s)' % (len(Qd), W, cex_text(r)), r['wd'], DBUF)
                else:
                    Ld, Lc = layout(len(Qd), WD), layout(len(Qc), WC)
                    gd, gc = [r['nd'][l] for l in Ld], [r['nc'][l] for l in Lc]
                    if gd != Qd:
                        bad = True
                        fail(F, (n, kinds[0]), 'data buffer lanes %s hold %s, must hold %s = %s (%s)' % (
                            Ld, show(gd), show(Qd), what(Pd), cex_text(r)), r['wd'], DBUF)
                    if gc != Qc:
                        bad = True
                        fail(F, (n, kinds[1]), 'ctrl buffer lanes %s hold the ctrl bits of %s, must hold those of %s = %s (%s)' % (
                            Lc, show(gc), show(Qc), what(Pc), cex_text(r)), r['wc'], CBUF)
                if bad and r['valid']:
                    badc.add(r['combo'])
        return F, badc

    best = None
    for name, layout in LAYOUTS:
        F, badc = judge(layout)
        if best is None or len(F) < len(best[2]):
            best = (name, layout, F, badc)
        if not F:
            break
    lname, layout, F, badc = best
    notes = []
    notes.append('CTCSkipRemover: buffer layout invariant = %s (%d lanes); invariant region of the byte count %s, reachable from reset %s; '
             '%d one-cycle evaluations over %d input classes per lane %s' % (lname, W, region, sorted(reach), n_cycles, len(lane_classes),
                                                                                  ['%#x' % d if d != '*' else 'other' for d in dclasses]))
    hidden = [v for v in range(scnt.rng[1] if scnt.rng else (1 << scnt.w)) if v not in reach]
    if hidden:
        notes.append('CTCSkipRemover: count values %s are in the declared range of %s but not reachable with source.ready = 1 (not examined)' % (hidden, CNT))

    # ---- (a) + (b): the compacted word per input class (blamed only where the end-to-end step is wrong too)
    detect, table = {}, {}
    for combo in combos:
        c = Cycle(m, in_env(1, combo)[0], in_env(1, combo)[1], statics.setdefault((1, combo), {}), static_names)
        cntv = c.sig(VN).known()
        if cntv is None:
            raise Undecided('C32: %s does not fold for input lanes %s' % (VN, show_class(combo)))
        td, tc = data_tokens(c.sig(VD).bits, B), ctrl_tokens(c.sig(VC).bits, B)
        kept, mask = spec_kept(combo), spec_mask(combo)
        okd, okc, okn = td[:len(kept)] == kept, tc[:len(kept)] == kept, cntv == len(kept)
        if (okd and okc and okn) or combo not in badc:
            continue
        got = td[:cntv] if 0 <= cntv <= B else None
        lanes = [t[1] for t in got] if got is not None and all(t[0] == 'd' for t in got) else None
        if lanes is not None and lanes == sorted(set(lanes)) and tc[:cntv] == got:
            impl = sum(1 << i for i in range(B) if i not in lanes)
            for i in range(B):
                if (impl ^ mask) >> i & 1:
                    k, d = combo[i]
                    fail(detect, i, 'input lane %d with ctrl=%d data=%s is %s; a lane is a SKP exactly when ctrl is set and the data '
                         'byte is %#x (input lanes %s, compacted word %s count %d)' % (
                             i, k, 'other' if d == '*' else '%#04x' % d, 'removed' if (impl >> i) & 1 else 'kept', SKP_SYMBOL,
                             show_class(combo), show(td), cntv), c.win.get(VN) or c.win.get(VD), VN)
            continue
        if not okd:
            fail(table, (mask, 'data'), 'compacted data word is %s, must start with the non-SKP lanes %s in order (input lanes %s)' % (
                show(td), show(kept), show_class(combo)), c.win.get(VD), VD)
        if not okc:
            fail(table, (mask, 'ctrl'), 'compacted ctrl word carries the ctrl bits of %s, must start with those of %s (input lanes %s)' % (
                show(tc), show(kept), show_class(combo)), c.win.get(VC), VC)
        if not okn:
            fail(table, (mask, 'count'), 'new-byte count is %d, must be %d = %d - popcount(mask) (input lanes %s)' % (
                cntv, len(kept), B, show_class(combo)), c.win.get(VN), VN)

    # ---- thorough: every concrete byte value of each lane through one whole cycle from the empty buffer
    concrete = {}
    if ctx.tier == 'thorough' and 0 <= init <= W:
        base = [(0, '*')] * B
        for i in range(B):
            for k in (0, 1):
                for d in range(256):
                    combo = tuple(base[:i] + [(k, d)] + base[i + 1:])
                    env, ne = in_env(1, combo)
                    env.update(buf_env)
                    env[CNT] = from_int(init, scnt.w)
                    c = Cycle(m, env, ne)
                    nd, wd = c.next(DBUF)
                    nn = c.next(CNT)[0].known()
                    is_skp = k == 1 and d == SKP_SYMBOL
                    P = [('D', l) for l in layout(init, WD)]
                    out = bool(c.sig(OV).known())
                    Q = (P + [('d', j) for j in range(B) if not (j == i and is_skp)])[B if out else 0:]
                    got = data_tokens(nd.bits, WD)
                    ok = nn == len(Q) and len(Q) <= W and [got[l] for l in layout(len(Q), WD)] == Q
                    if not ok:
                        fail(concrete, i, 'lane %d with ctrl=%d data=%#04x must be %s: buffer becomes %s count %s' % (
                            i, k, d, 'removed' if is_skp else 'kept', show(got), nn), wd, DBUF)
                    n_cycles += 1

    return dict(B=B, W=W, detect=detect, table=table, concrete=concrete, F=F, facts=facts, region=region, reach=reach,
                lname=lname, ncombos=len(combos), scnt=scnt, sd=sd, notes=notes,
                locs=dict(vd=ir.signals[VD].loc, vc=ir.signals[VC].loc, vn=ir.signals[VN].loc, cnt=scnt.loc, dbuf=sd.loc, cbuf=sc.loc,
                          ov=ir.signals[OV].loc, op=ir.signals[OP].loc, sr=ir.signals[SR].loc))


def emit_all(ctx, res):
    for t in res['notes']:
        ctx.note(t)
    B, W, detect, table, concrete, F, facts = (res[k] for k in ('B', 'W', 'detect', 'table', 'concrete', 'F', 'facts'))
    region, reach, lname, scnt, sd, ncombos = (res[k] for k in ('region', 'reach', 'lname', 'scnt', 'sd', 'ncombos'))
    L = res['locs']

    # ---- obligations
    def emit(rule, key, store, skey, good, loc=None):
        msg, l = store.get(skey, (good, loc))
        ctx.ob(rule, 'CTCSkipRemover.' + key, skey not in store, l, msg)

    for i in range(B):
        emit('C32.skp-detect', 'lane%d' % i, detect, i,
             'lane %d is removed exactly when ctrl[%d] is set and data byte %d is %#x, on all %d input classes' % (i, i, i, SKP_SYMBOL, ncombos), L['vn'])
        if ctx.tier == 'thorough':
            emit('C32.skp-detect', 'lane%d.all-byte-values' % i, concrete, i, 'holds for all 256 byte values x ctrl of lane %d' % i, L['vn'])
    for mask in range(1 << B):
        for part in ('data', 'ctrl', 'count'):
            emit('C32.compaction', 'mask%d.%s' % (mask, part), table, (mask, part),
                 'skip mask %s: non-SKP lanes in ascending order packed from lane 0, count %d' % (bin(mask), B - bin(mask).count('1')),
                 L[{'data': 'vd', 'ctrl': 'vc', 'count': 'vn'}[part]])
    for n in region:
        for part in ('append.data', 'append.ctrl', 'count', 'idle'):
            emit('C32.buffer-step', 'pending%d.%s' % (n, part), F, (n, part),
                 'with %d bytes pending the step keeps (pending ++ new non-SKP bytes) minus the word output, in order [%s]' % (n, lname),
                 L[{'append.data': 'dbuf', 'append.ctrl': 'cbuf', 'count': 'cnt', 'idle': 'cnt'}[part]])
    for n in region:
        if n >= B:
            for part in ('data', 'ctrl'):
                emit('C32.output-word', 'pending%d.%s' % (n, part), F, (n, 'out.' + part),
                     'with %d bytes pending the output word is the %d oldest pending bytes in order' % (n, B), L['op'])
    emit('C32.output-word', 'source.valid.only-with-full-word', facts, 'valid', 'source.valid implies at least %d bytes pending' % B, L['ov'])
    emit('C32.sink-ready', 'sink.ready.always', facts, 'ready',
         'sink.ready is 1 in every state of the invariant region %s (the PHY delivers a word every cycle and cannot be stalled)' % sorted(reach), L['sr'])
    emit('C32.capacity', 'count.no-wrap', facts, 'wrap', 'every next byte count fits the %d-bit count register' % scnt.w, scnt.loc)
    emit('C32.capacity', 'buffer.holds-region', facts, 'capacity', 'the largest reachable byte count %d fits the %d buffer lanes' % (max(reach), W), sd.loc)

# ------------------------------------------------------------------------------------------ the physical layer
def check_layer(ctx):
    pl = ctx.ir('USB3PhysicalLayer', 'usb3.physical.layer', allow_opaque=True)
    subs = [s for s in pl.submodules if s.obj.clsname == 'CTCSkipRemover']
    ctx.need(len(subs) == 1, 'exactly one CTCSkipRemover in USB3PhysicalLayer (found %d)' % len(subs))
    T = subs[0].obj.path
    R = 'C32.layer-wiring'

    def sole(name):
        d = pl.drivers(name, exact=True)
        if len(d) == 1 and not d[0].guard and d[0].state is None and d[0].domain == 'comb' and isinstance(d[0].rhs, E):
            return d[0]
        return None

    rd_all = pl.drivers(T + '.source.ready', exact=True)
    ctx.need(rd_all, 'driver of %s.source.ready in USB3PhysicalLayer' % T)
    rd = sole(T + '.source.ready')
    consumer = None
    tied = rd is not None and q.is_one(rd.rhs)
    if rd is not None and rd.rhs.op == 'sig':
        name = rd.rhs.args[0].name
        for s in pl.submodules:
            if name.startswith(s.obj.path + '.'):
                consumer = (s, name[len(s.obj.path) + 1:])
    ctx.ob(R, 'USB3PhysicalLayer.rx_ctc.source.ready.driver', tied or consumer is not None, rd_all[0].loc,
           'the receive CTC output must be taken every cycle: source.ready driven combinationally and unconditionally by the '
           'constant 1 or by the ready of the consuming submodule: %s' % [q.fmt(a) for a in rd_all])
    const_ok, takes_ok, why, loc = tied, tied, 'tied to 1', rd_all[0].loc
    if consumer is not None:
        s, port = consumer
        kw = {k: v for k, v in s.obj.kwargs.items() if isinstance(v, (int, float, str, bool))}
        sub = ctx.ir(s.obj.clsname, None, allow_opaque=True, **kw)
        ds = sub.drivers('self.' + port, exact=True)
        const_ok = bool(ds) and all(a.domain == 'comb' and q.is_one(a.rhs) for a in ds) and \
            any(not a.guard and a.state is None for a in ds)
        why = '%s.%s in %s: %s' % (s.obj.path, port, s.obj.clsname, [q.fmt(a) for a in ds])
        loc = ds[0].loc if ds else rd.loc
        stem = port.rsplit('.', 1)[0]
        takes_ok = True
        for f in ('valid', 'payload', 'ctrl'):
            d = sole('%s.%s.%s' % (s.obj.path, stem, f))
            takes_ok = takes_ok and d is not None and d.rhs.canon() == '%s.source.%s' % (T, f)
    ctx.ob(R, 'USB3PhysicalLayer.rx_ctc.downstream.ready.constant', const_ok, loc,
           'the downstream of the receive CTC must be always ready (every driver the constant 1, one of them unconditional): %s' % why)
    dp, dc = sole(T + '.sink.payload'), sole(T + '.sink.ctrl')
    pair = dp is not None and dc is not None and dp.rhs.op == 'sig' and dc.rhs.op == 'sig' and \
        dp.rhs.args[0].name.rsplit('.', 1)[0] == dc.rhs.args[0].name.rsplit('.', 1)[0]
    ctx.ob(R, 'USB3PhysicalLayer.rx_ctc.sink.data-with-ctrl', pair,
           (dp or dc).loc if (dp or dc) is not None else subs[0].loc,
           'sink data and ctrl must come, unconditionally, from the same received word (K flag of the same byte): %s / %s' % (
               q.fmt(dp) if dp is not None else [q.fmt(a) for a in pl.drivers(T + '.sink.payload', exact=True)],
               q.fmt(dc) if dc is not None else [q.fmt(a) for a in pl.drivers(T + '.sink.ctrl', exact=True)]))
    sv = pl.drivers(T + '.sink.valid', exact=True)
    ctx.note('USB3PhysicalLayer: %s.sink.valid <- %s; %s.sink.ready read by %d statement(s); the module whose ready is fed back %s '
             'source valid/data/ctrl; skip_removed -> %s; bytes_in_buffer -> %s' % (
        T, [a.rhs.canon() for a in sv if isinstance(a.rhs, E)], T, len(pl.readers(T + '.sink.ready')), 'takes' if takes_ok else 'does NOT take',
        [a.lhs.canon() for a in pl.readers(T + '.skip_removed')], [a.lhs.canon() for a in pl.readers(T + '.bytes_in_buffer')]))


def run(ctx):
    check_remover(ctx)
    check_layer(ctx)
