#!/venv/bin/python
"""swap_operands.py <tree> -- behaviour-preserving stress variant: under <tree>/luna/gateware every `a & b`, `a | b`, `a == b`,
`a != b` has its operands swapped and every `a < b` (<=, >, >=) is mirrored to `b > a`; modules are re-emitted with ast.unparse."""
import ast, os, sys


class T(ast.NodeTransformer):
    n = 0

    def visit_BinOp(self, node):
        self.generic_visit(node)
        if isinstance(node.op, (ast.BitAnd, ast.BitOr)):
            node.left, node.right = node.right, node.left
            T.n += 1
        return node

    def visit_Compare(self, node):
        self.generic_visit(node)
        if len(node.ops) == 1:
            op = node.ops[0]
            mirror = {ast.Lt: ast.Gt, ast.Gt: ast.Lt, ast.LtE: ast.GtE, ast.GtE: ast.LtE, ast.Eq: ast.Eq, ast.NotEq: ast.NotEq}
            if type(op) in mirror:
                node.left, node.comparators = node.comparators[0], [node.left]
                node.ops = [mirror[type(op)]()]
                T.n += 1
        return node


for dp, dn, fn in os.walk(os.path.join(sys.argv[1], 'luna', 'gateware')):
    for f in fn:
        if f.endswith('.py'):
            p = os.path.join(dp, f)
            tree = ast.parse(open(p).read())
            for fun in [n for n in ast.walk(tree) if isinstance(n, ast.FunctionDef)]:
                T().visit(fun)
            open(p, 'w').write(ast.unparse(ast.fix_missing_locations(tree)) + '\n')
print('swapped', T.n)
