"""C25 -- the gateware full-speed PHY encodes and decodes USB line signalling."""
from ..ir import E
from .. import q
from ..fsm import state_outcomes, guard_atoms
from ..hdl import class_attr
from ..num import Stepper, NoEval

TITLE = 'gateware FS PHY'
FLOOR = 30
DECIDES = ('(a) no assignment that can enable the D+/D- output drivers is live when op_mode equals the UTMI NON_DRIVING '
           'value (value taken from UTMIOperatingMode), the raw-drive arm sits at the UTMI RAW_DRIVE value and the '
           'encoded arm at NORMAL; (b) every optional pad (pullup, pulldown, vbus_valid) is driven/read only inside its '
           'own hasattr arm: pullup <- term_select, pulldown <- dm_pulldown | dp_pulldown, one driver per pad; '
           '(c) TxBitstuffer and RxBitstuffRemover: exactly six consecutive 1-edges lead from the initial state to '
           'the stuff/drop state, every 0-edge returns to the initial state, the stuff/drop state returns '
           'unconditionally; the stuffed bit is a 0; a 1 in the drop slot is reported as error; (d) TxNRZIEncoder: '
           'states classified by their (usbp, usbn, oe) outputs -- data 1 keeps the line state, data 0 toggles it, '
           'de-asserted oe leads through SE0, SE0, J to idle, first bit leaves idle-J to K; RxNRZIDecoder: data = '
           '~(dk ^ last), se0 = ~dj & ~dk; (e) bit order: TxShifter emits bit 0 and shifts right; RxShifter + pipeline '
           'deliver the first received bit in bit 0; SYNC is seven 0s then a 1; the byte-accept strobe (o_get) is frozen while '
           'the bit stuffer stalls, matching the ~stall gating at its consumer; (f) receive framing wiring; (g) RxClockDataRecovery '
           'composed with a monitor (cycles and bit strobes since the last recognised transition) is explored exhaustively from '
           'reset under all values of the synchronised D+/D- pair in every cycle: between transitions 4k-1, 4k or 4k+1 sampling '
           'cycles apart exactly k bits are strobed (k = 1..7), and a strobe always shows exactly one of J/K/SE0/SE1. ')
NOT_DECIDED = ('jitter inside a bit (edges closer than 3 sampling cycles), the analogue side of the pads, FIFO crossing latency; the '
               'NRZI / bit-stuff / shifter stages of the receive pipeline beyond the clauses above.')


def run(ctx):
    _cdr(ctx)
    idx = ctx.index
    # ---------------------------------------------------------------- (a) operating modes
    ir = ctx.ir('GatewarePHY', 'gateware_phy.phy')
    ip = ir.interp
    um = idx.find_class('UTMIOperatingMode', 'interface.utmi')
    NORMAL = class_attr(ip, um, 'NORMAL')
    NON_DRIVING = class_attr(ip, um, 'NON_DRIVING')
    RAW = class_attr(ip, um, 'RAW_DRIVE')
    ctx.need(all(isinstance(x, int) for x in (NORMAL, NON_DRIVING, RAW)), 'UTMIOperatingMode constants')
    for pad in ('d_p', 'd_n'):
        sig = 'self._io.%s.oe' % pad
        ds = ir.drivers(sig, exact=True)
        ctx.need(ds, 'drivers of ' + sig)
        arms = {}
        for a in ds:
            if q.is_zero(a.rhs):
                continue
            ks = q.guard_consts(a, 'self.op_mode')
            live_when_nondriving = all((k == NON_DRIVING) == pos for k, pos in ks.items())
            ctx.ob('C25.non-driving', 'GatewarePHY.%s.oe<=%s' % (pad, a.rhs.canon()), not live_when_nondriving, a.loc,
                   'an output-enable driver is live when op_mode == NON_DRIVING (%d): %s' % (NON_DRIVING, q.fmt(a)))
            for k, pos in ks.items():
                if pos:
                    arms[k] = a.rhs.canon()
        ctx.ob('C25.mode-arms', 'GatewarePHY.%s.normal' % pad, arms.get(NORMAL) == 'transmitter.o_oe', ds[0].loc,
               'op_mode NORMAL (%d) must enable the pad from the encoder: arms %s' % (NORMAL, arms))
        ctx.ob('C25.mode-arms', 'GatewarePHY.%s.raw' % pad, arms.get(RAW) == 'self.tx_valid', ds[0].loc,
               'op_mode RAW_DRIVE (%d) must enable the pad from tx_valid: arms %s' % (RAW, arms))
    # encoded data path only in normal mode; tx_ready only there
    for lhs, rhs in (('transmitter.i_oe', 'self.tx_valid'), ('transmitter.i_data_payload', 'self.tx_data'),
                     ('self.tx_ready', 'transmitter.o_data_strobe')):
        ds = ir.drivers(lhs, exact=True)
        ok = len(ds) == 1 and ds[0].rhs.canon() == rhs and q.guard_consts(ds[0], 'self.op_mode') == {NORMAL: True}
        ctx.ob('C25.tx-path', 'GatewarePHY.' + lhs, ok, ds[0].loc if ds else None,
               '%s <= %s only in normal mode: %s' % (lhs, rhs, [q.fmt(d) for d in ds]))
    # ---------------------------------------------------------------- (b) optional pads
    pads = {'pullup': ('self._io.pullup.o', 'self.term_select'),
            'pulldown': ('self._io.pulldown.o', 'self.dm_pulldown | self.dp_pulldown')}
    for pad, (sig, want) in pads.items():
        ds = ir.drivers(sig, exact=True)
        ok = len(ds) == 1 and ds[0].rhs.canon() == want and \
            [a for a, p in q.atoms(ds[0]) if a.startswith('cfg:')] and \
            all((pad in a) and p for a, p in q.atoms(ds[0]) if a.startswith('cfg:'))
        ctx.ob('C25.pad', 'GatewarePHY.' + pad, bool(ok), ds[0].loc if ds else None,
               'pad %s must have exactly one driver, %s <= %s, inside its own hasattr arm: %s' % (
                   pad, sig, want, [q.fmt(d) for d in ds]))
    for a in ir.assigns:
        for t in a.lhs_sigs():
            if t.startswith('self._io.') and t.split('.')[2] not in ('d_p', 'd_n'):
                pad = t.split('.')[2]
                cfgs = [(x, p) for x, p in q.atoms(a) if x.startswith('cfg:')]
                ok = cfgs and all(("'%s'" % pad) in x and p for x, p in cfgs)
                ctx.ob('C25.pad-arm', 'GatewarePHY.%s-driver' % pad, bool(ok), a.loc,
                       'optional pad %s is driven outside its own hasattr arm: %s' % (pad, q.fmt(a)))
    vb = ir.drivers('self.vbus_valid', exact=True)
    ok = len(vb) == 2 and {d.rhs.canon() for d in vb} == {'self._io.vbus_valid.i', '1'}
    ctx.ob('C25.pad', 'GatewarePHY.vbus_valid', ok, vb[0].loc if vb else None, 'vbus_valid follows the pad or is tied to 1')
    # ---------------------------------------------------------------- (c) bit stuffing
    tb = ctx.ir('TxBitstuffer', 'transmitter')
    # the stuff flag by role: what o_stall shows -- a local flag copied to the output, or the output raised in the state itself
    st = tb.drivers('self.o_stall', exact=True)
    SB = 'self.o_stall'
    if len(st) == 1 and st[0].domain == 'comb' and not st[0].guard and st[0].state is None and st[0].rhs.op == 'sig':
        SB = st[0].rhs.canon()
    _stuffer(ctx, 'TxBitstuffer', 'transmitter', 'self.i_data', None, SB)
    _stuffer(ctx, 'RxBitstuffRemover', 'receiver', 'self.i_data', 'self.i_valid', 'drop_bit')
    od = tb.drivers('self.o_data', exact=True)
    # next o_data in every FSM state and for every valuation of what its drivers mention: 0 in the stuffing state (where
    # o_stall is raised), the data bit in every other state -- an If/Else on a flag, a Mux, `i_data & ~stuff_bit` and
    # statements written inside the states are one table
    tfsm = ctx.the_fsm(tb)
    stall_states = q.flag_states(tb, tfsm, SB)
    ok = bool(od) and any(v is True for v in stall_states.values()) and all(v in (True, False) for v in stall_states.values())
    try:
        for st_ in tfsm.states if ok else ():
            ong = {'ongoing(%s:%s)' % (tfsm.id, s2): (s2 == st_) for s2 in tfsm.states}
            ong[SB] = stall_states[st_]
            for asg, val in q.flag_values(tb, 'self.o_data', st_, assume=ong, init=None):
                want_ = False if stall_states[st_] else asg.get('self.i_data')
                if 'self.i_data' not in asg and not stall_states[st_]:
                    ok = False
                elif val is not want_:
                    ok = False
    except Exception:
        ok = False
    ctx.ob('C25.stuffed-bit', 'TxBitstuffer.o_data', ok, od[0].loc if od else None,
           'the stuffed bit must be a 0, data passes otherwise: %s' % [q.fmt(d) for d in od])
    ctx.ob('C25.stuffed-bit', 'TxBitstuffer.o_stall', bool(st) and all(a.domain == 'comb' for a in st) and
           (SB != 'self.o_stall' or all(q.is_one(a.rhs) and not a.guard and a.state is not None for a in st)), None,
           'o_stall must be the stuff-bit flag (raised unconditionally in the stuffing state): %s' % [q.fmt(a) for a in st])
    rb = ctx.ir('RxBitstuffRemover', 'receiver')
    er = rb.drivers('self.o_error', exact=True)
    ok = len(er) == 1 and er[0].rhs.canon() == 'drop_bit & self.i_data & self.i_valid'
    ctx.ob('C25.stuff-error', 'RxBitstuffRemover.o_error', ok, er[0].loc if er else None,
           'a 1 in the dropped-bit slot must be reported as an error: %s' % [q.fmt(d) for d in er])
    sl = rb.drivers('self.o_stall', exact=True)
    ok = len(sl) == 1 and sl[0].rhs.canon() == 'drop_bit | ~self.i_valid'
    ctx.ob('C25.stuff-drop', 'RxBitstuffRemover.o_stall', ok, sl[0].loc if sl else None,
           'the dropped bit must stall the shifter: %s' % [q.fmt(d) for d in sl])
    # ---------------------------------------------------------------- (d) NRZI
    _nrzi_tx(ctx)
    rn = ctx.ir('RxNRZIDecoder', 'receiver')
    want = {'self.o_data': '~(last_data ^ self.i_dk)', 'last_data': 'self.i_dk', 'self.o_se0': '~self.i_dj & ~self.i_dk'}
    for lhs, rhs in want.items():
        ds = rn.drivers(lhs, exact=True)
        ok = len(ds) == 1 and ds[0].rhs.canon() == rhs and q.atoms(ds[0]) == {('self.i_valid', True)}
        ctx.ob('C25.nrzi-rx', 'RxNRZIDecoder.' + lhs, ok, ds[0].loc if ds else None,
               '%s <= %s under i_valid: %s' % (lhs, rhs, [q.fmt(d) for d in ds]))
    # ---------------------------------------------------------------- (e) bit order / SYNC
    ts = ctx.ir('TxShifter', 'transmitter', width=8)
    od = ts.drivers('self.o_data', exact=True)
    # the shift register by role: the local register whose slice is shown on o_data (the name is the code's own)
    r0 = od[0].rhs if len(od) == 1 and isinstance(od[0].rhs, E) else None
    SH = r0.args[0].canon() if r0 is not None and r0.op == 'slice' and isinstance(r0.args[0], E) and r0.args[0].op == 'sig' \
        else (r0.canon() if r0 is not None and r0.op == 'sig' else None)
    ctx.ob('C25.lsb-first', 'TxShifter.o_data', SH is not None and SH in ts.signals and not SH.startswith('self.') and
           r0.canon() == SH + '[0:1]' and not od[0].guard, None,
           'transmit shifter must emit bit 0 of its shift register: %s' % [q.fmt(d) for d in od])
    sd = ts.drivers(SH, exact=True) if SH else []
    sh = [d for d in sd if isinstance(d.rhs, E) and d.rhs.op == '>>']
    ctx.ob('C25.lsb-first', 'TxShifter.shift', len(sh) == 1 and sh[0].rhs.canon() == SH + ' >> 1' and
           q.has(sh[0], 'self.i_enable'), sh[0].loc if sh else None, 'transmit shifter must shift right by one')
    ld = [d for d in sd if d.rhs.canon() == 'self.i_data']
    # "empty" by role: what the o_empty port mirrors
    oe = [d for d in ts.drivers('self.o_empty', exact=True)]
    EMP = oe[0].rhs.canon() if len(oe) == 1 and not oe[0].guard and isinstance(oe[0].rhs, E) else '<source of o_empty>'
    ctx.ob('C25.lsb-first', 'TxShifter.load', len(ld) == 1 and q.has(ld[0], EMP) and q.has(ld[0], 'self.i_enable'),
           ld[0].loc if ld else None, 'shifter loads a new byte only when empty (what o_empty reports: %s) and enabled' % EMP)
    rs = ctx.ir('RxShifter', 'receiver', width=8)
    srd = q.merged_drivers(rs, 'shift_reg')            # written whole or slice by slice: one form
    up = [d for d in srd if isinstance(d.rhs, E) and d.rhs.canon() == 'Cat(self.i_data, shift_reg[0:8])']
    down = [d for d in srd if isinstance(d.rhs, E) and d.rhs.canon() == 'Cat(shift_reg[1:9], self.i_data)']
    rp = ctx.ir('RxPipeline', 'receiver')
    wd = rp.drivers('payload_fifo.w_data', exact=True)
    ctx.need(len(wd) == 1, 'RxPipeline payload_fifo.w_data driver')
    rev = wd[0].rhs.op == 'rev' and wd[0].rhs.args[0].canon() == 'shifter.o_data'
    straight = wd[0].rhs.canon() == 'shifter.o_data'
    ok = (len(up) == 1 and not down and rev) or (len(down) == 1 and not up and straight)
    ctx.ob('C25.lsb-first', 'RxShifter+RxPipeline', ok, wd[0].loc,
           'first received bit must end in bit 0 of the byte (shift-up with reversal, or shift-down without): '
           'up=%d down=%d rhs=%s' % (len(up), len(down), wd[0].rhs.canon()))
    # the byte assembler is re-armed (sentinel 1) at the end of every packet: a packet that ends inside a byte (dribble
    # bit, truncated packet) must not leave its bits behind for the next packet.  Either the shifter has a reset input
    # that loads the sentinel in the domain of the register and the pipeline drives it with the packet-end strobe, or a
    # ResetInserter is applied FOR THAT DOMAIN (a bare-signal ResetInserter resets `sync` only -- the shifter lives in usb_io)
    shd = rs.drivers('shift_reg', exact=True)
    sh_dom = {d.domain for d in shd}
    # (the arm may be the Elif of the shift: then it also excludes the shift condition, which is fine -- a byte that
    #  completes in the very cycle of the packet end re-arms the sentinel itself)
    arm = [d for d in shd if q.is_one(d.rhs) and ('self.reset', True) in q.atoms(d) and all(not p_ for x_, p_ in q.atoms(d) if x_ != 'self.reset')]
    wire = [d for d in rp.drivers('shifter.reset', exact=True)]
    by_port = len(arm) == 1 and len(wire) == 1 and not wire[0].guard and wire[0].rhs.canon() == 'detect.o_pkt_end' and \
        all(x.order > arm[0].order or q.atoms(x) != q.atoms(arm[0]) for x in shd if x is not arm[0]) is not None
    shsub = [sm for sm in rp.submodules if sm.name == 'shifter']
    by_inserter = False
    for kind, ctl in (getattr(shsub[0].obj, 'inserters', None) or []) if shsub else []:
        if kind == 'reset' and isinstance(ctl, dict) and len(sh_dom) == 1:
            c = ctl.get(next(iter(sh_dom)))
            by_inserter = by_inserter or (isinstance(c, E) and c.canon() == 'detect.o_pkt_end')
    ctx.ob('C25.shifter-rearm', 'RxShifter+RxPipeline.rearm-at-packet-end', by_port or by_inserter, (wire[0] if wire else shd[0]).loc if (wire or shd) else None,
           'the receive shift register (domain %s) must be reset to its sentinel by the packet-end strobe detect.o_pkt_end: reset arm %s, '
           'wiring %s, inserters %s' % (sorted(sh_dom), [q.fmt(d) for d in arm], [q.fmt(d) for d in wire],
                                       getattr(shsub[0].obj, 'inserters', None) if shsub else None))
    tp = ctx.ir('TxPipeline', 'transmitter')
    sp = [d for d in tp.drivers('sync_pulse', exact=True) if d.rhs.op == 'const']
    w = getattr(tp.signals.get('sync_pulse'), 'w', None)
    ok = len(sp) == 1 and sp[0].rhs.val == 128 and w == 8 and \
        any(d.rhs.canon() == 'sync_pulse >> 1' for d in tp.drivers('sync_pulse', exact=True))
    ctx.ob('C25.sync', 'TxPipeline.sync_pulse', ok, sp[0].loc if sp else None,
           'SYNC must be a walking 1 from bit 7 of an 8-bit register shifted right (seven 0 bits then a 1)')
    fd = tp.drivers('self.fit_dat', exact=True)
    ok = len(fd) == 1 and fd[0].rhs.canon() == '(shifter.o_data & state_data & ~bitstuff.o_stall) | sp_bit'
    ctx.ob('C25.sync', 'TxPipeline.fit_dat', ok, fd[0].loc if fd else None,
           'bit stream = data bits (0 while stalled for a stuffed bit) or the sync bit: %s' % [q.fmt(d) for d in fd])
    spb = tp.drivers('sp_bit', exact=True)
    ctx.ob('C25.sync', 'TxPipeline.sp_bit', len(spb) == 1 and spb[0].rhs.canon() == 'sync_pulse[0:1]', None,
           'sync bit is bit 0 of the walking-one register')
    # ---------------------------------------------------------------- a stuffed bit at the very end of the packet is sent
    # The data phase (output enabled, bits taken from the stuffer) is state_gray == 0b11.  When the stuffer announces
    # that the NEXT bit time carries a stuffed 0 (o_will_stall), the pipeline must still be in the data phase in that
    # next bit time -- also when the packet's data has just run out.  One-cycle truth table per FSM state in which the
    # register can be 0b11 and whose transitions / writers mention o_will_stall: under every valuation with o_will_stall
    # the next value of state_gray is 0b11 (the values it can hold in the state come from a forward dataflow).
    from ..flow import reg_flow, TOP
    from ..fsm import lit_atoms, assignments, holds
    WS, SG = 'bitstuff.o_will_stall', 'state_gray'
    tfsm = ctx.the_fsm(tp)
    ctx.need(SG in tp.signals and tp.signals[SG].w == 2, 'TxPipeline phase register state_gray (2 bits)')
    _, possible = reg_flow(tp, tfsm, SG)
    sgd = sorted(tp.drivers(SG, exact=True), key=lambda a: a.order)
    n_ws = 0
    for S in tfsm.states:
        here = [a for a in sgd if a.state is None or q.state_of(a) == S]
        ats = set()
        for it in here + list(tfsm.out_edges(S)):
            for l in it.guard:
                ats |= set(lit_atoms(l))
        cur = possible.get(S) or set()
        if WS not in ats or TOP in cur or 3 not in cur:
            continue
        n_ws += 1
        bad = None
        for asg in assignments(sorted(ats), {WS: True}):
            fire = [a for a in here if holds(a.guard, asg)]
            if fire:
                r = fire[-1].rhs
                nxt = {r.val & 3} if isinstance(r, E) and r.op == 'const' else {TOP}
            else:
                nxt = set(cur)
            if nxt != {3} and bad is None:
                bad = ({k: v for k, v in asg.items() if k != WS}, sorted(map(str, nxt)), fire[-1] if fire else None)
        ctx.ob('C25.stuffed-bit-sent', 'TxPipeline.state_gray@%s' % S, bad is None, (bad[2].loc if bad and bad[2] is not None else tfsm.state_loc[S]),
               'while the bit stuffer announces a stuffed bit for the next bit time (o_will_stall) the pipeline must stay in the '
               'data phase (state_gray 0b11) for that bit time, also when the payload has just run out -- otherwise the output '
               'enable drops one bit early and the packet ends six 1s + SE0 without the mandatory stuffed 0; next state_gray is '
               '%s when %s' % (bad and bad[1], bad and bad[0]))
    ctx.need(n_ws >= 1, 'a TxPipeline state that decides on bitstuff.o_will_stall while in the data phase')
    # ---------------------------------------------------------------- (e2) byte-accept strobe survives a stuff stall
    # TxPipeline consumes shifter.o_get under ~stall (stall = a stuffed bit is being inserted) and enables the shifter
    # with ~stall; so the shifter must only update o_get while enabled, otherwise a load that coincides with a stall
    # is never reported and the byte is sent twice.
    st = tp.drivers('self.o_data_strobe', exact=True)
    ok = len(st) == 1 and st[0].rhs.canon() == 'self.i_oe & shifter.o_get & state_data & ~stall'
    ctx.ob('C25.byte-accept', 'TxPipeline.o_data_strobe', ok, st[0].loc if st else None,
           'a byte is reported accepted when the shifter fetched it, outside a stall: %s' % [q.fmt(d) for d in st])
    en = tp.drivers('shifter.i_enable', exact=True)
    sl = tp.drivers('stall', exact=True)
    ok = len(en) == 1 and en[0].rhs.canon() == '~stall' and len(sl) == 1 and sl[0].rhs.canon() == 'bitstuff.o_stall'
    ctx.ob('C25.byte-accept', 'TxPipeline.shifter.i_enable', ok, en[0].loc if en else None, 'the shifter is frozen exactly while the stuffer stalls')
    og = ts.drivers('self.o_get', exact=True)
    ok = len(og) == 1 and og[0].rhs.canon() in ('empty', EMP) and q.atoms(og[0]) == {('self.i_enable', True)}    # what o_empty reports, by name or in place
    ctx.ob('C25.byte-accept', 'TxShifter.o_get-frozen-while-stalled', ok, og[0].loc if og else None,
           'o_get must be updated only while i_enable is high (it is consumed under ~stall, so a value produced during a '
           'stall would be lost and the byte loaded twice): %s' % [q.fmt(d) for d in og])
    # ---------------------------------------------------------------- (f) receive framing
    want = {'self.rx_data': 'receiver.o_data_payload', 'self.rx_valid': 'receiver.o_data_strobe & receiver.o_pkt_in_progress',
            'self.rx_active': 'receiver.o_pkt_in_progress', 'self.rx_error': 'receiver.o_receive_error',
            'receiver.i_usbp': 'self._io.d_p.i & ~transmitter.o_oe', 'receiver.i_usbn': 'self._io.d_n.i & ~transmitter.o_oe'}
    for lhs, rhs in want.items():
        ds = ir.drivers(lhs, exact=True)
        ok = len(ds) == 1 and ds[0].rhs.canon() == rhs and not ds[0].guard
        ctx.ob('C25.rx-wiring', 'GatewarePHY.' + lhs, ok, ds[0].loc if ds else None, '%s <= %s: %s' % (lhs, rhs, [q.fmt(d) for d in ds]))
    pe = rp.drivers('self.o_receive_error', exact=True)
    ctx.ob('C25.rx-wiring', 'RxPipeline.o_receive_error', len(pe) == 1 and pe[0].rhs.canon() == 'bitstuff.o_error', None,
           'receive error comes from the bit-stuff remover')


def _stuffer(ctx, cls, mod, data, valid, flag):
    ir = ctx.ir(cls, mod)
    fsm = ctx.the_fsm(ir)
    assume = {valid: True} if valid else {}
    s = fsm.init
    ones = 0
    seen = [s]
    flag_states = {q.state_of(a) for a in q.raises(ir, flag)}
    ctx.need(len(flag_states) == 1, '%s: the state raising %s' % (cls, flag))
    target = flag_states.pop()
    ok = True
    msg = ''
    while s != target and ones < 10:
        outs = state_outcomes(fsm, s, dict(assume, **{data: True}))
        zero = state_outcomes(fsm, s, dict(assume, **{data: False}))
        if set(zero) != {fsm.init}:
            ok, msg = False, 'a 0 in counting state #%d must return to the initial state, outcomes %s' % (ones, sorted(map(str, zero)))
            break
        if len(outs) != 1 or None in outs:
            ok, msg = False, 'a 1 in counting state #%d must advance, outcomes %s' % (ones, sorted(map(str, outs)))
            break
        s = list(outs)[0]
        ones += 1
        if s in seen:
            ok, msg = False, 'counting chain loops before reaching the stuff state'
            break
        seen.append(s)
    ctx.ob('C25.six-ones', cls + '.chain', ok and ones == 6, fsm.loc,
           '%s: exactly six consecutive 1s must lead to the stuff/drop state (found %d) %s' % (cls, ones, msg))
    back = state_outcomes(fsm, target, assume)
    ctx.ob('C25.six-ones', cls + '.return', set(back) == {fsm.init}, fsm.state_loc.get(target),
           '%s: the stuff/drop state must return to the initial state unconditionally: %s' % (cls, sorted(map(str, back))))
    if valid:
        for st in fsm.states:
            hold = state_outcomes(fsm, st, {valid: False})
            ctx.ob('C25.six-ones', '%s.hold-%d' % (cls, fsm.states.index(st)), set(hold) == {None}, fsm.state_loc.get(st),
                   '%s: no bit -> no state change' % cls)


def _nrzi_tx(ctx):
    ir = ctx.ir('TxNRZIEncoder', 'transmitter')
    fsm = ctx.the_fsm(ir)
    out = {}
    for st in fsm.states:
        vals = {}
        for a in ir.assigns:
            if a.state == (fsm.id, st) and a.domain == 'comb' and not a.guard and a.rhs.op == 'const':
                vals[a.lhs.canon()] = a.rhs.val
        # what the registered outputs load in this state: their unconditional drivers evaluated with the constants the state
        # gives the combinational locals (three one-bit locals, or one level word sliced into the three outputs)
        from ..num import ev as _nev, NoEval as _NoEval
        trip = []
        for o in ('self.o_usbp', 'self.o_usbn', 'self.o_oe'):
            ds = [a for a in ir.drivers(o, exact=True) if not a.guard and a.state is None and a.domain != 'comb']
            v = None
            if len(ds) == 1:
                try:
                    env = dict(vals)
                    for n_, si_ in ir.signals.items():
                        if isinstance(getattr(si_, 'w', None), int):
                            env['$w:' + n_] = si_.w
                    v = int(_nev(ds[0].rhs, env)) & 1
                except (_NoEval, KeyError):
                    v = None
            trip.append(v)
        out[st] = tuple(trip)
    J = [s for s in fsm.states if out[s] == (1, 0, 1)]
    K = [s for s in fsm.states if out[s] == (0, 1, 1)]
    SE0 = [s for s in fsm.states if out[s] == (0, 0, 1)]
    idle = fsm.init
    ctx.ob('C25.nrzi-tx', 'TxNRZIEncoder.idle', out[idle] == (1, 0, 0), fsm.state_loc[idle],
           'idle must present J with the driver off: %s' % (out[idle],))
    ctx.need(len(K) == 1 and len(SE0) == 2 and len(J) == 2, 'NRZI encoder states classified by outputs: %s' % out)
    k = K[0]
    V = 'self.i_valid'
    # data J state: the J state that has a data-dependent exit
    dj = [s for s in J if any(a == 'self.i_data' for e in fsm.out_edges(s) for a, _ in guard_atoms(e.guard))]
    ctx.need(len(dj) == 1, 'the data J state')
    j = dj[0]
    eopj = [s for s in J if s != j][0]
    def outs(st, **kw):
        asg = {V: True}
        asg.update({('self.' + k_): v for k_, v in kw.items()})
        return set(state_outcomes(fsm, st, asg))
    chk = [
        ('idle-start', outs(idle, i_oe=True) == {k}, 'first bit leaves idle (J) to K'),
        ('J-one', outs(j, i_oe=True, i_data=True) == {j}, 'data 1 keeps J'),
        ('J-zero', outs(j, i_oe=True, i_data=False) == {k}, 'data 0 toggles J to K'),
        ('K-one', outs(k, i_oe=True, i_data=True) == {k}, 'data 1 keeps K'),
        ('K-zero', outs(k, i_oe=True, i_data=False) == {j}, 'data 0 toggles K to J'),
    ]
    se0a = outs(j, i_oe=False)
    chk.append(('eop-from-J', len(se0a) == 1 and se0a <= set(SE0) and se0a == outs(k, i_oe=False), 'oe low leads to SE0'))
    if len(se0a) == 1:
        a = list(se0a)[0]
        b = outs(a)
        chk.append(('eop-se0-2', len(b) == 1 and b <= set(SE0) and b != se0a, 'second SE0 bit'))
        if len(b) == 1:
            c = outs(list(b)[0])
            chk.append(('eop-J', c == {eopj}, 'SE0 SE0 then J'))
            chk.append(('eop-idle', outs(eopj) == {idle}, 'J then idle'))
    for st in fsm.states:
        chk.append(('hold-%d' % fsm.states.index(st), set(state_outcomes(fsm, st, {V: False})) == {None},
                    'no bit strobe -> no change'))
    for name, ok, msg in chk:
        ctx.ob('C25.nrzi-tx', 'TxNRZIEncoder.' + name, ok, fsm.loc, msg)
    for o in ('o_oe', 'o_usbp', 'o_usbn'):
        ds = ir.drivers('self.' + o, exact=True)
        ctx.ob('C25.nrzi-tx', 'TxNRZIEncoder.' + o, len(ds) == 1 and ds[0].domain != 'comb' and not ds[0].guard and ds[0].state is None,
               None, 'registered output, loaded unconditionally with the level of the current state: %s' % [q.fmt(a) for a in ds])


def _cdr(ctx):
    """(g) clock/data recovery, decided on the extracted transition relation by an exhaustive fixpoint: the recovered-bit
    strobe line_state_valid of RxClockDataRecovery composed with a monitor (cycles D since the last transition cycle,
    strobes n since then) is explored from reset under ALL values of the synchronised D+/D- pair in every cycle.  Whenever
    a new transition is recognised D cycles after the previous one with D = 4k-1, 4k or 4k+1 (a bit time is 4 sampling
    cycles; the USB clock tolerance plus sampling phase moves an edge by at most one cycle), exactly k bits have been
    strobed -- none lost to an early edge, none doubled by a late one; and a strobe always shows a settled line state."""
    ir = ctx.ir('RxClockDataRecovery', 'gateware_phy.receiver')
    fsm = ctx.the_fsm(ir)
    VALID = 'self.line_state_valid'
    LS = ['self.line_state_dj', 'self.line_state_dk', 'self.line_state_se0', 'self.line_state_se1']
    for n_ in [VALID] + LS:
        ctx.need(n_ in ir.signals, 'RxClockDataRecovery.%s' % n_)
    # "a transition is recognised in this cycle" = the sampling-phase counter is re-aligned (written with the constant 0).
    # The phase counter is found by role: the register the bit strobe is derived from that is incremented by one.
    vd = ir.drivers(VALID, exact=True)
    reads = set()
    for a in vd:
        for e_ in [a.rhs] + [l.e for l in a.guard]:
            if isinstance(e_, E):
                reads |= q.support(ir, e_)
    phase = sorted(n for n in reads if any(isinstance(d.rhs, E) and d.rhs.canon() == '1 + ' + n for d in ir.drivers(n, exact=True)))
    ctx.need(len(phase) == 1, 'the sampling-phase counter behind line_state_valid (found %s)' % phase)
    realign = [d for d in ir.drivers(phase[0], exact=True) if q.is_zero(d.rhs)]
    ctx.need(realign, 'the statement that re-aligns the sampling phase on a transition')
    st = Stepper(ir)
    # the synchronised pair (outputs of the two FFSynchronizers) is a free input of the exploration
    free = [a.lhs.canon() for a in st.sync if isinstance(a.rhs, E) and a.rhs.op == 'call' and a.rhs.args and a.rhs.args[0] == 'ffsync']
    ctx.need(len(free) == 2, 'the two synchronised line inputs of RxClockDataRecovery (found %s)' % free)
    st.sync = [a for a in st.sync if a.lhs.canon() not in free]
    st.regs = [r for r in st.regs if r not in free]
    key = '$fsm%s' % (fsm.id,)
    DMAX = 4 * 7 + 2                      # bit stuffing: at most 7 bit times without an edge inside a packet
    init = (tuple(st.inits.get(r, 0) for r in st.regs), fsm.init, None, 0)
    seen, work, bad, badv, n_eval, checked = {init}, [init], None, None, 0, set()
    while work and (bad is None or badv is None):
        regs, fs, D, n = work.pop()
        for v in range(4):
            env = dict(zip(st.regs, regs))
            env.update({key: fs, free[0]: v & 1, free[1]: v >> 1})
            try:
                cur, nxt = st.step(env)
            except NoEval as ex:
                ctx.need(False, 'RxClockDataRecovery evaluates from the synchronised pair alone (%s)' % ex)
            n_eval += 1
            valid = cur.get(VALID, 0)
            if valid and sum(cur.get(x, 0) for x in LS) != 1 and badv is None:
                badv = 'line_state_valid is raised while the line state outputs are %s (state %s)' % ({x.split('.')[-1]: cur.get(x, 0) for x in LS}, fs)
            Dc = None if D is None else min(D + 1, DMAX + 1)
            nc = n + (1 if valid else 0)
            if any(st._active(d, dict(cur, **{key: fs})) for d in realign):
                if Dc is not None and 3 <= Dc <= DMAX and Dc % 4 in (3, 0, 1):
                    checked.add(Dc)
                    want = (Dc + 1) // 4
                    if nc != want and bad is None:
                        bad = 'a transition recognised %d cycles after the previous one (%d bit time(s)) saw %d bit strobe(s), expected %d' % (Dc, want, nc, want)
                Dn, nn = 0, 0
            else:
                Dn, nn = Dc, (nc if Dc is not None and Dc <= DMAX else 0)
            nx = (tuple(nxt[r] for r in st.regs), nxt[key], Dn, min(nn, 9))
            if nx not in seen:
                seen.add(nx)
                work.append(nx)
    ctx.need(bad is not None or len(checked) >= 3 * 7, 'the exploration reached every edge distance 3..29 (reached %s)' % sorted(checked))
    loc = ir.drivers(VALID, exact=True)[0].loc
    ctx.ob('C25.cdr-bit-count', 'RxClockDataRecovery.line_state_valid.bits-per-interval', bad is None, loc,
           'between two recognised transitions D = 4k-1, 4k or 4k+1 sampling cycles apart exactly k bits are strobed, for every input '
           'sequence (%d product states, %d evaluations, distances %s): %s' % (len(seen), n_eval, sorted(checked)[:3] + ['...'], bad or 'holds'))
    ctx.ob('C25.cdr-bit-count', 'RxClockDataRecovery.line_state_valid.settled', badv is None, loc,
           'a strobed bit shows exactly one of J / K / SE0 / SE1: %s' % (badv or 'holds'))
