"""A6 -- GF(2) affine dataflow over extracted HDL expressions.

An expression built only from signal bits, constants, Cat, slices, reversal, ^ and ~ denotes an affine map over
GF(2).  `forms(e, env)` evaluates it to a list of affine forms (one per bit, LSB first); a form is a Python int whose
bit 0 is the constant term and whose bit 1+k is the coefficient of variable k.  Equality of two form lists is
equality of the functions for every value of every variable."""
from __future__ import annotations
from .ir import E, AnalysisError


class NotAffine(AnalysisError):
    pass


class Vars:
    """Variable numbering: each leaf signal bit gets an index."""
    def __init__(self):
        self.index = {}
        self.names = []

    def bit(self, name, i):
        key = (name, i)
        if key not in self.index:
            self.index[key] = len(self.names)
            self.names.append(key)
        return 1 << (1 + self.index[key])

    def vec(self, name, w):
        return [self.bit(name, i) for i in range(w)]

    def describe(self, form):
        parts = ['1'] if form & 1 else []
        k = 0
        f = form >> 1
        while f:
            if f & 1:
                parts.append('%s[%d]' % self.names[k])
            f >>= 1
            k += 1
        return ' ^ '.join(parts) or '0'


def forms(e, vs, widths=None, subst=None):
    """Affine forms of expression e.  `widths` may supply widths for leaf signals whose width is unknown;
    `subst` maps a signal name to a list of forms to use instead of fresh variables."""
    widths = widths or {}
    subst = subst or {}
    if not isinstance(e, E):
        raise NotAffine('not an expression: %r' % (e,))
    op = e.op
    if op == 'sig':
        name = e.args[0].name
        if name in subst:
            return list(subst[name])
        w = e.w if e.w is not None else widths.get(name)
        if w is None:
            raise NotAffine('width of %s unknown' % name)
        return vs.vec(name, w)
    if op == 'const':
        if not isinstance(e.val, int):
            raise NotAffine('non-integer constant')
        w = e.w if e.w is not None else max(e.val.bit_length(), 1)
        return [(e.val >> i) & 1 for i in range(w)]
    if op == 'slice':
        inner, lo, hi = e.args
        f = forms(inner, vs, widths, subst)
        if not isinstance(lo, int) or not isinstance(hi, int):
            raise NotAffine('symbolic slice')
        if hi > len(f):
            raise NotAffine('slice [%s:%s] beyond width %d of %s' % (lo, hi, len(f), inner.canon()))
        return f[lo:hi]
    if op == 'cat':
        out = []
        for a in e.args:
            out += forms(a, vs, widths, subst)
        return out
    if op == 'rev':
        return list(reversed(forms(e.args[0], vs, widths, subst)))
    if op == '~':
        return [f ^ 1 for f in forms(e.args[0], vs, widths, subst)]
    if op == '^':
        parts = [forms(a, vs, widths, subst) for a in e.args]
        w = max(len(p) for p in parts)
        out = [0] * w
        for p in parts:
            for i, f in enumerate(p):
                out[i] ^= f
        return out
    if op in ('&', '|'):
        # bitwise AND / OR stay affine where, bit by bit, all operands but one are constants (a mask selected by flags
        # that a caller has replaced by constants)
        parts = [forms(a, vs, widths, subst) for a in e.args]
        w = max(len(p) for p in parts)
        unit, absorb = (1, 0) if op == '&' else (0, 1)
        out = []
        for i in range(w):
            bits = [p[i] if i < len(p) else 0 for p in parts]
            if absorb in bits:
                out.append(absorb)
                continue
            rest = [b for b in bits if b != unit]
            if len(rest) > 1:
                raise NotAffine('%s of two non-constant bits: %s' % (op, e.canon()[:80]))
            out.append(rest[0] if rest else unit)
        return out
    if op == 'mux' and len(e.args) == 3:
        c = forms(e.args[0], vs, widths, subst)
        if any(f not in (0, 1) for f in c):
            raise NotAffine('Mux on a non-constant condition: %s' % e.canon()[:80])
        a, b = forms(e.args[1], vs, widths, subst), forms(e.args[2], vs, widths, subst)
        w = max(len(a), len(b))
        pick = a if any(c) else b
        return list(pick) + [0] * (w - len(pick))
    if op in ('==', '!=') and len(e.args) == 2:
        a, b = forms(e.args[0], vs, widths, subst), forms(e.args[1], vs, widths, subst)
        w = max(len(a), len(b))
        a, b = a + [0] * (w - len(a)), b + [0] * (w - len(b))
        if any(f not in (0, 1) for f in a + b):
            raise NotAffine('comparison of non-constant values: %s' % e.canon()[:80])
        return [int((a == b) == (op == '=='))]
    if op == 'call' and e.args and e.args[0] == 'xor' and len(e.args) == 2:
        acc = 0
        for f in forms(e.args[1], vs, widths, subst):        # x.xor(): the XOR of all bits of x
            acc ^= f
        return [acc]
    raise NotAffine('operator %s is not GF(2)-affine: %s' % (op, e.canon()[:80]))


def substitute(fs, vs, mapping):
    """Replace variables by forms: mapping {(name, i): form}."""
    out = []
    for f in fs:
        acc = f & 1
        k = 0
        g = f >> 1
        while g:
            if g & 1:
                key = vs.names[k]
                acc ^= mapping[key] if key in mapping else (1 << (1 + k))
            g >>= 1
            k += 1
        out.append(acc)
    return out


def serial_crc_step(R, bits, poly, n):
    """Bit-serial CRC as in USB 2.0 8.3.5 / USB 3.2 7.2.1: for each message bit b (wire order) the feedback is
    b ^ R[n-1]; R shifts left by one and the generator polynomial (without its top bit) is XORed in when the
    feedback is 1.  R and bits are lists of affine forms."""
    R = list(R)
    for b in bits:
        fb = b ^ R[n - 1]
        R = [0] + R[:n - 1]
        for i in range(n):
            if (poly >> i) & 1:
                R[i] ^= fb
    return R


def crc_field(R):
    """Check field in transmission order: the complemented remainder, highest power first."""
    return [f ^ 1 for f in reversed(R)]


def crc_reference_int(data_bits, poly, n):
    """Plain-integer bit-serial CRC (used by the self-test to validate the reference against zlib)."""
    R = (1 << n) - 1
    for b in data_bits:
        fb = b ^ ((R >> (n - 1)) & 1)
        R = (R << 1) & ((1 << n) - 1)
        if fb:
            R ^= poly
    out = 0
    for i in range(n):
        if not (R >> (n - 1 - i)) & 1:
            out |= 1 << i
    return out
