"""C18 -- the transactional FIFO behaves as a commit/rollback queue.

The FIFO is four pointer registers over a ring of depth+1 slots plus combinational status equations, so every clause
is decided on the extracted IR by *finite evaluation* of its guarded assignments (Amaranth last-assignment-wins) over
the ring-ordered pointer states and all 64 combinations of the six strobes -- not by comparing expression texts.
Roles are discovered from the public strobes that gate each register and from the memory ports."""
import itertools

from ..ir import E
from .. import q

TITLE = 'transactional FIFO commit/rollback pointers'
FLOOR = 40
DECIDES = ('For several depths/widths (power-of-two depth, power-of-two ring, the 512x10 instance used by the USB2 '
           'endpoints), on every ring-ordered pointer state (exhaustive for small depths, corner states otherwise) and '
           'every combination of the six strobes: (a) storage holds at least depth+1 words of the configured width, '
           'every pointer register and space_available can hold the value depth, the reset state is empty; '
           '(b) empty <=> current read pointer == committed write pointer, full <=> depth entries lie between the '
           'committed read and the current write pointer, space_available == depth minus that number; (c) the current '
           'write pointer advances by one modulo depth+1 exactly on write_en & ~full and at that moment the memory is '
           'written at that pointer with write_data, the memory is never written inside the held region; the current '
           'read pointer advances exactly on read_en & ~empty; (d) a commit copies current -> committed, the committed '
           'pointers change on nothing else; a discard copies committed -> current and beats a simultaneous advance; '
           '(e) a simultaneous commit and discard on one side leaves the pointers ring-ordered; (f) the address given '
           'to the synchronous read port is the value the current read pointer has in the next cycle (hold, advance, '
           'discard), and read_data is the port data; built with domain="usb" every register of the FIFO is in one clock domain. '
           '(g) address, data and enable of both memory ports are combinational (a registered port input shifts the access by a cycle against the pointers and flags). ')
NOT_DECIDED = ('queue equivalence over unbounded histories (the one-step relation is decided only on the listed depths '
               'and, for large depths, on corner states); whether a write and a commit in the same cycle commit that '
               'write (either is accepted); the domain renaming and the memory primitive itself.')

CLS = 'TransactionalizedFIFO'


class _Stop(Exception):
    pass

STROBES = ('self.write_en', 'self.write_commit', 'self.write_discard', 'self.read_en', 'self.read_commit', 'self.read_discard')
ROLE_STROBES = {                        # which public strobes gate the register of each role
    'cw': {'self.write_en', 'self.write_discard'},
    'kw': {'self.write_commit'},
    'cr': {'self.read_en', 'self.read_discard'},
    'kr': {'self.read_commit'},
}
ROLE_NAME = {'cw': 'current write pointer', 'kw': 'committed write pointer', 'cr': 'current read pointer',
             'kr': 'committed read pointer'}


# ------------------------------------------------------------------------------------------------ finite evaluator
class Model:
    """Evaluates the guarded assignments of one ModuleIR on concrete values (Python ints are exact for Amaranth's
    widening arithmetic; truncation happens where a value is stored into a signal of known width)."""

    def __init__(self, ctx, ir):
        self.ctx, self.ir = ctx, ir
        self.comb, self.sync = {}, {}
        for a in sorted(ir.assigns, key=lambda a: a.order):
            ctx.need(isinstance(a.lhs, E) and a.lhs.op == 'sig' and isinstance(a.rhs, E),
                     'whole-signal assignment in %s: %s' % (CLS, q.fmt(a)))
            ctx.need(a.state is None, 'no FSM expected in %s' % CLS)
            (self.comb if a.domain == 'comb' else self.sync).setdefault(a.lhs.canon(), []).append(a)
        ctx.need(not (set(self.comb) & set(self.sync)), 'signals driven from one domain only')
        ctx.need(len({a.domain for ds in self.sync.values() for a in ds}) == 1, 'one clock domain for all FIFO registers')
        self.regs = sorted(self.sync)
        self._g, self._f, self._keep = {}, {}, []

    def width(self, e):
        if e.w is not None:
            return e.w
        if e.op == 'sig':
            si = self.ir.signals.get(e.args[0].name)
            return si.w if si is not None else None
        if e.op in ('==', '!=', '<', '<=', '>', '>='):
            return 1
        if e.op in ('&', '|', '^', '~'):
            ws = [self.width(a) for a in e.args]
            return None if None in ws else max(ws)
        return None

    def init(self, name):
        si = self.ir.signals.get(name)
        return si.init if si is not None and isinstance(si.init, int) else 0

    def store(self, name, val):
        si = self.ir.signals.get(name)
        if si is not None and isinstance(si.w, int):
            val &= (1 << si.w) - 1
        return val

    def guard(self, a, env, memo):
        S = None
        for fn, pos in self.guards(a):
            if S is None:
                S = lambda name: self.sig(name, env, memo)
            if bool(fn(S)) != pos:
                return False
        return True

    def guards(self, a):
        g = self._g.get(id(a))
        if g is None:
            for l in a.guard:
                self.ctx.need(l.kind != 'cfg' and isinstance(l.e, E), 'guard decidable for a concrete configuration: %s' % q.fmt(a))
            g = self._g[id(a)] = [(self.fn(l.e), l.pos) for l in a.guard]
        return g

    def fn(self, e):
        """The expression compiled to a Python function of the signal-lookup function S."""
        f = self._f.get(id(e))
        if f is None:
            f = self._f[id(e)] = eval('lambda S: ' + self.src(e), {})
            self._keep.append(e)
        return f

    def ev(self, e, env, memo):
        return self.fn(e)(lambda name: self.sig(name, env, memo))

    def sig(self, name, env, memo):
        if name in env:
            return env[name]
        if name in memo:
            self.ctx.need(memo[name] is not None, 'no combinational loop through %s' % name)
            return memo[name]
        if name in self.comb:
            memo[name] = None
            val = self.init(name)
            for a in self.comb[name]:
                if self.guard(a, env, memo):
                    val = self.store(name, self.ev(a.rhs, env, memo))
            memo[name] = val
            return val
        self.ctx.need(name not in self.sync, 'register %s given a value in the evaluated state' % name)
        return self.init(name)            # an input that is not part of the experiment keeps its reset value

    def src(self, e):
        op = e.op
        if op == 'const':
            self.ctx.need(isinstance(e.val, int), 'integer constant: %s' % e.canon())
            return '(%d)' % e.val
        if op == 'sig':
            return 'S(%r)' % e.args[0].name
        if op in ('+', '*', '&', '|', '^'):
            self.ctx.need(len(e.args) >= 2, 'operands of %s' % e.canon())
            return '(' + (' %s ' % op).join(self.src(a) for a in e.args) + ')'
        if op in ('-', '==', '!=', '<', '<=', '>', '>='):
            self.ctx.need(len(e.args) == 2, 'binary %s' % e.canon())
            r = '(%s %s %s)' % (self.src(e.args[0]), op, self.src(e.args[1]))
            return r if op == '-' else 'int' + r
        if op == '~':
            w = self.width(e.args[0])
            self.ctx.need(isinstance(w, int) and not any(n.op in ('-', 'neg') for n in e.args[0].walk()),
                          'width of the (unsigned) operand of %s' % e.canon())
            return '(%d & ~%s)' % ((1 << w) - 1, self.src(e.args[0]))
        if op == 'neg':
            return '(-%s)' % self.src(e.args[0])
        if op == 'mux':
            return '(%s if %s else %s)' % (self.src(e.args[1]), self.src(e.args[0]), self.src(e.args[2]))
        if op == 'slice':
            lo, hi = e.args[1], e.args[2]
            self.ctx.need(isinstance(lo, int) and isinstance(hi, int), 'constant slice bounds: %s' % e.canon())
            return '((%s >> %d) & %d)' % (self.src(e.args[0]), lo, (1 << (hi - lo)) - 1)
        if op == 'cat':
            parts, sh = [], 0
            for a in e.args:
                w = self.width(a)
                self.ctx.need(isinstance(w, int), 'width of %s in %s' % (a.canon(), e.canon()))
                parts.append('((%s & %d) << %d)' % (self.src(a), (1 << w) - 1, sh))
                sh += w
            return '(' + ' | '.join(parts or ['0']) + ')'
        self.ctx.need(False, 'expression form %r not evaluable: %s' % (op, e.canon()))

    def step(self, env, memo):
        """Next value of every register (the last sync assignment whose guard holds wins; otherwise it holds)."""
        nxt = {}
        for r in self.regs:
            val = env[r]
            for a in self.sync[r]:
                if self.guard(a, env, memo):
                    val = self.store(r, self.ev(a.rhs, env, memo))
            nxt[r] = val
        return nxt


# ------------------------------------------------------------------------------------------------ role discovery
def discover(ctx, ir, mdl):
    ctx.need(len(mdl.regs) == 4, 'exactly four pointer registers in %s (found %s)' % (CLS, mdl.regs))
    gated = {}
    for r in mdl.regs:
        s = set()
        for a in mdl.sync[r]:
            for l in a.guard:
                if isinstance(l.e, E):
                    s |= q.support(ir, l.e)
            if isinstance(a.rhs, E):
                s |= q.support(ir, a.rhs)          # the selection may sit in a combinational next-value signal
        gated[r] = s & set(STROBES)
    best = []
    for perm in itertools.permutations(mdl.regs):
        score = 0
        for role, r in zip(('cw', 'kw', 'cr', 'kr'), perm):
            score += len(gated[r] & ROLE_STROBES[role]) - len(gated[r] - ROLE_STROBES[role])
        best.append((score, perm))
    best.sort(key=lambda t: -t[0])
    ctx.need(best[0][0] > 0 and best[0][0] > best[1][0],
             'unambiguous roles of the four pointer registers from the strobes gating them: %s' % gated)
    return dict(zip(('cw', 'kw', 'cr', 'kr'), best[0][1]))


def ring_states(D, exhaustive):
    """(kr, a, b, c): committed read pointer and the numbers of un-finalised reads, committed unread entries and
    uncommitted writes; a + b + c <= D."""
    if exhaustive:
        ks, vals = range(D + 1), range(D + 1)
    else:
        ks = sorted({0, 1, D // 2, D - 1, D})
        vals = sorted({0, 1, 2, D - 2, D - 1, D})
    for kr in ks:
        for a, b, c in itertools.product(vals, repeat=3):
            if a + b + c <= D:
                yield kr, a, b, c


class Tally:
    """One aggregated obligation: counts evaluations, keeps the simplest counterexample."""

    def __init__(self):
        self.n = 0
        self.bad = None
        self.nbad = 0
        self.cost = None

    def check(self, ok, why, cost=0):
        """`cost`: how contrived the experiment is (number of strobes raised); the simplest witness is reported."""
        self.n += 1
        if not ok:
            self.nbad += 1
            if self.bad is None or cost < self.cost:
                self.bad, self.cost = (why() if callable(why) else why), cost


# ------------------------------------------------------------------------------------------------ one configuration
def check(ctx, width, depth, dyn):
    tag = 'w%d,d%d' % (width, depth)
    ir = ctx.ir(CLS, 'gateware.memory', width=width, depth=depth)
    mdl = Model(ctx, ir)
    # the memory ports are wired combinationally: a write lands in the cycle the write pointer advances, the read address
    # is the pointer of the next cycle.  A port input that is a register shifts the access by a cycle against the pointers
    # and the status flags (decided structurally; the finite evaluation below presumes it)
    port_sigs = {p.attrs[f].canon(): '%s.%s' % (p.port_kind, f) for m_ in ir.memories for p in m_.ports
                 for f in ('addr', 'data', 'en') if f in p.attrs and isinstance(p.attrs[f], E)}
    late = sorted(r for r in mdl.regs if r in port_sigs and port_sigs[r] != 'read_port.data')
    ctx.ob('C18.port-wiring', '%s.memory.ports.combinational[%s]' % (CLS, tag), not late,
           mdl.sync[late[0]][0].loc if late else (ir.memories[0].loc if ir.memories else None),
           'the memory port inputs %s are registers: the access happens a cycle after the pointers and the empty/full flags '
           'have moved (a committed entry can be read before it is stored)' % late if late else
           'address, data and enable of both memory ports are combinational')
    if late:
        raise _Stop()
    role = discover(ctx, ir, mdl)
    CW, KW, CR, KR = role['cw'], role['kw'], role['cr'], role['kr']
    D, N = depth, depth + 1

    # ---- storage and ranges ------------------------------------------------------------------------------------
    ctx.need(len(ir.memories) == 1, 'exactly one memory in %s' % CLS)
    mem = ir.memories[0]
    rps = [p for p in mem.ports if p.port_kind == 'read_port']
    wps = [p for p in mem.ports if p.port_kind == 'write_port']
    ctx.need(len(rps) == 1 and len(wps) == 1, 'one read and one write port on the FIFO memory')
    rp, wp = rps[0], wps[0]
    P = {k: p.attrs[f].canon() for k, (p, f) in {'waddr': (wp, 'addr'), 'wdata': (wp, 'data'), 'wen': (wp, 'en'),
                                                    'raddr': (rp, 'addr'), 'rdata': (rp, 'data'), 'ren': (rp, 'en')}.items()}
    ctx.ob('C18.storage', '%s.memory.depth[%s]' % (CLS, tag), isinstance(mem.depth, int) and mem.depth >= N, mem.loc,
           'one slot of the ring is sacrificed to tell full from empty: the memory needs at least depth+1 = %d words, '
           'it has %r' % (N, mem.depth))
    ctx.ob('C18.storage', '%s.memory.width[%s]' % (CLS, tag),
           all(isinstance(w, int) and w >= width for w in (mem.mem_width, ir.signals['self.read_data'].w,
                                                             ir.signals['self.write_data'].w)),
           mem.loc, 'memory word / read_data / write_data must be (at least) %d bits wide (memory %r, read_data %r, write_data %r)' % (
               width, mem.mem_width, ir.signals['self.read_data'].w, ir.signals['self.write_data'].w))
    for r in ('cw', 'kw', 'cr', 'kr'):
        si = ir.signals[role[r]]
        ctx.ob('C18.pointer-range', '%s.%s[%s]' % (CLS, ROLE_NAME[r].replace(' ', '_'), tag),
               isinstance(si.w, int) and (1 << si.w) > D, si.loc,
               'the %s (%s, width %s, range %s) must be able to hold the last slot address %d' % (
                   ROLE_NAME[r], role[r], si.w, si.rng, D))
    si = ir.signals['self.space_available']
    ctx.ob('C18.space-range', '%s.space_available.width[%s]' % (CLS, tag), isinstance(si.w, int) and (1 << si.w) > D, si.loc,
           'space_available (width %s) must be able to report an empty FIFO: %d' % (si.w, D))

    # ---- finite evaluation ---------------------------------------------------------------------------------------
    rd_dom = rp.kwargs.get('domain', 'sync')
    ctx.need(isinstance(rd_dom, str), 'clock domain of the memory read port')
    rd_sync = rd_dom != 'comb'
    ones = (1 << width) - 1
    patt = 0xA5A5A5A5A5 & ones
    st_empty, st_full, st_space = Tally(), Tally(), Tally()
    n_states = 0
    exhaustive = D <= 5
    for kr, a, b, c in ring_states(D, exhaustive):
        n_states += 1
        cr, kw, cw = (kr + a) % N, (kr + a + b) % N, (kr + a + b + c) % N
        held, readable = a + b + c, b
        state = {KR: kr, CR: cr, KW: kw, CW: cw}
        desc = 'depth %d, committed read %d, current read %d, committed write %d, current write %d' % (D, kr, cr, kw, cw)

        def dist(x):
            return (x - kr) % N
        for bits in itertools.product((0, 1), repeat=6):
            wen, wcm, wds, ren, rcm, rds = bits
            env = dict(state)
            env.update(zip(STROBES, bits))
            env['self.write_data'] = patt if (kr + a + c) & 1 else ones
            env[P['rdata']] = ones if (kr + b) & 1 else patt
            memo = {}
            nb = sum(bits)

            def chk(name, ok, why):
                dyn[name].check(ok, why, nb)
            # (b) status equations (under every strobe setting: they must not depend on the strobes)
            e_, f_, s_ = (mdl.sig(n, env, memo) for n in ('self.empty', 'self.full', 'self.space_available'))
            st_empty.check(e_ == int(readable == 0), 'empty = %d with %d committed unread entries (%s)' % (e_, readable, desc), nb)
            st_full.check(f_ == int(held == D), 'full = %d with %d of %d entries held (%s)' % (f_, held, D, desc), nb)
            st_space.check(s_ == D - held, 'space_available = %d with %d of %d entries held, expected %d (%s)' % (
                s_, held, D, D - held, desc), nb)
            nxt = mdl.step(env, memo)
            ncw, nkw, ncr, nkr = nxt[CW], nxt[KW], nxt[CR], nxt[KR]
            w_adv = wen and held < D
            r_adv = ren and readable > 0
            ins = 'write en/commit/discard=%d%d%d read en/commit/discard=%d%d%d; %s' % (bits + (desc,))
            # (c)/(d)/(e) write side
            if not wds:
                want = (cw + 1) % N if w_adv else cw
                chk('write-advance', ncw == want, lambda: 'next %s = %d, expected %d (%s)' % (
                    ROLE_NAME['cw'], ncw, want, ins))
                ok = nkw in ((cw, (cw + 1) % N) if w_adv else (cw,)) if wcm else nkw == kw
                chk('write-commit', ok, lambda: 'next %s = %d, expected %d (%s)' % (
                    ROLE_NAME['kw'], nkw, cw if wcm else kw, ins))
            elif not wcm:
                chk('write-discard', ncw == kw and nkw == kw, lambda: 'next current/committed write pointers = %d/%d, '
                                           'expected %d/%d (%s)' % (ncw, nkw, kw, kw, ins))
            else:
                ok = max(ncw, nkw) <= D and dist(kw) <= dist(nkw) <= dist(ncw) <= dist(cw) + (1 if w_adv else 0)
                chk('write-commit+discard', ok, lambda: 'next current/committed write pointers = %d/%d are not '
                                                  'ring-ordered: the current write pointer is behind the committed one, so '
                                                  'committed entries get overwritten and space_available over-reports (%s)' % (
                                                      ncw, nkw, ins))
            en_, ad_, da_ = (mdl.sig(P[k], env, memo) for k in ('wen', 'waddr', 'wdata'))
            if w_adv:
                chk('write-port', en_ == 1 and ad_ == cw and da_ == env['self.write_data'], lambda: (
                    'an accepted write must store write_data (%#x) at the current write pointer %d: memory port en=%d '
                    'addr=%d data=%#x (%s)' % (env['self.write_data'], cw, en_, ad_, da_, ins)))
            chk('write-protect', not (en_ and ad_ <= D and dist(ad_) < held), lambda: (
                'memory written at slot %d which holds a live entry (%s)' % (ad_, ins)))
            # read side
            if not rds:
                want = (cr + 1) % N if r_adv else cr
                chk('read-advance', ncr == want, lambda: 'next %s = %d, expected %d (%s)' % (
                    ROLE_NAME['cr'], ncr, want, ins))
                ok = nkr in ((cr, (cr + 1) % N) if r_adv else (cr,)) if rcm else nkr == kr
                chk('read-commit', ok, lambda: 'next %s = %d, expected %d (%s)' % (
                    ROLE_NAME['kr'], nkr, cr if rcm else kr, ins))
            elif not rcm:
                chk('read-discard', ncr == kr and nkr == kr, lambda: 'next current/committed read pointers = %d/%d, '
                                          'expected %d/%d (%s)' % (ncr, nkr, kr, kr, ins))
            else:
                ok = max(ncr, nkr) <= D and dist(nkr) <= dist(ncr) <= dist(cr) + (1 if r_adv else 0)
                chk('read-commit+discard', ok, lambda: 'next current/committed read pointers = %d/%d are not '
                                                 'ring-ordered: entries that will be read again are already counted as '
                                                 'free space (%s)' % (ncr, nkr, ins))
            # (f) read address look-ahead / read data
            if not (rds and rcm) and not (wds and wcm):
                want_cr = kr if rds else (cr + 1) % N if r_adv else cr
                want_kw = cw if wcm else kw
                ra = mdl.sig(P['raddr'], env, memo)
                if P['ren'] in mdl.comb and not mdl.sig(P['ren'], env, memo):
                    ra = 'nothing (read port disabled)'
                case = 'discard' if rds else 'advance' if r_adv else 'hold'
                if rd_sync:
                    if want_cr != want_kw:           # read_data matters next cycle only if the FIFO is then not empty
                        chk('read-address@' + case, ra == want_cr, lambda: (
                            'the synchronous read port is addressed with %s but the current read pointer is %d in the next '
                            'cycle: read_data then shows a stale entry while empty is low (%s)' % (ra, want_cr, ins)))
                elif readable:
                    chk('read-address@' + case, ra == cr, lambda: 'asynchronous read port addressed with %s, current '
                                                      'read pointer is %d (%s)' % (ra, cr, ins))
            rdv = mdl.sig('self.read_data', env, memo)
            chk('read-data', rdv == env[P['rdata']], lambda: 'read_data = %#x, memory read port data = %#x (%s)' % (
                rdv, env[P['rdata']], ins))
    # ---- per-configuration obligations -----------------------------------------------------------------------------
    se = [a for a in ir.drivers('self.empty', exact=True)]
    sf = [a for a in ir.drivers('self.full', exact=True)]
    ss = [a for a in ir.drivers('self.space_available', exact=True)]
    ctx.need(se and sf and ss, 'drivers of empty / full / space_available')
    note = ' [%d states%s]' % (n_states, '' if exhaustive else ', corners')
    ctx.ob('C18.status-empty', '%s.empty[%s]' % (CLS, tag), st_empty.n > 0 and not st_empty.bad, se[0].loc,
           (st_empty.bad or 'empty <=> no committed unread entry') + note)
    ctx.ob('C18.status-full', '%s.full[%s]' % (CLS, tag), st_full.n > 0 and not st_full.bad, sf[0].loc,
           (st_full.bad or 'full <=> depth entries held') + note)
    ctx.ob('C18.status-space', '%s.space_available[%s]' % (CLS, tag), st_space.n > 0 and not st_space.bad, ss[-1].loc,
           (st_space.bad or 'space_available == depth - entries held') + note)
    # reset state: all four pointers equal and in range -> empty, full capacity
    inits = {r: mdl.init(role[r]) for r in role}
    return ir, role, P, inits


DYN = [   # (tally, rule id, key suffix, which construct to point at, statement)
    ('write-advance', 'C18.write-advance', 'current_write_pointer.advance', 'cw',
     'the current write pointer moves to the next slot (modulo depth+1) exactly on write_en & ~full'),
    ('write-commit', 'C18.write-commit', 'committed_write_pointer', 'kw',
     'write_commit copies the current write pointer to the committed one; nothing else changes it'),
    ('write-discard', 'C18.write-discard', 'current_write_pointer.discard', 'cw',
     'write_discard returns the current write pointer to the committed one, also when a write is requested in the same cycle'),
    ('write-commit+discard', 'C18.simultaneous', 'write_commit+write_discard', 'cw',
     'simultaneous write_commit and write_discard must leave the write pointers ring-ordered'),
    ('write-port', 'C18.write-port', 'memory.write_port', 'waddr',
     'an accepted write stores write_data at the current write pointer'),
    ('write-protect', 'C18.write-protect', 'memory.write_port.held-region', 'wen',
     'the memory is never written at a slot holding an entry that is not yet finalised'),
    ('read-advance', 'C18.read-advance', 'current_read_pointer.advance', 'cr',
     'the current read pointer moves to the next slot (modulo depth+1) exactly on read_en & ~empty'),
    ('read-commit', 'C18.read-commit', 'committed_read_pointer', 'kr',
     'read_commit copies the current read pointer to the committed one; nothing else changes it'),
    ('read-discard', 'C18.read-discard', 'current_read_pointer.discard', 'cr',
     'read_discard returns the current read pointer to the committed one, also when a read is requested in the same cycle'),
    ('read-commit+discard', 'C18.simultaneous', 'read_commit+read_discard', 'cr',
     'simultaneous read_commit and read_discard must leave the read pointers ring-ordered'),
    ('read-address@hold', 'C18.read-lookahead', 'memory.read_port.addr@hold', 'raddr',
     'without a read the memory read address is the current read pointer'),
    ('read-address@advance', 'C18.read-lookahead', 'memory.read_port.addr@advance', 'raddr',
     'on an accepted read the memory read address is already the next read pointer'),
    ('read-address@discard', 'C18.read-lookahead', 'memory.read_port.addr@read_discard', 'raddr',
     'on read_discard the memory read address must already be the committed read pointer (the value the current read '
     'pointer takes), otherwise read_data is stale for one cycle while empty is low'),
    ('read-data', 'C18.read-data', 'read_data', 'rdata', 'read_data is the data output of the memory read port'),
]


def run(ctx):
    configs = [(8, 4), (10, 7), (8, 16), (10, 512)]
    if ctx.tier == 'thorough':
        configs += [(8, 1), (8, 2), (8, 3), (1, 5), (32, 8), (8, 15), (9, 64), (8, 100), (8, 1023), (10, 1024)]
    dyn = {t[0]: Tally() for t in DYN}
    last = None
    bad_reset = []
    for width, depth in configs:
        try:
            ir, role, P, inits = check(ctx, width, depth, dyn)
        except _Stop:
            return                      # a violated structural premise has been reported; nothing further is evaluated
        if len(set(inits.values())) != 1 or max(inits.values()) > depth:
            bad_reset.append('width %d depth %d: %s' % (width, depth, inits))
        last = (ir, role, P)
    ir, role, P = last
    ctx.note('one-step relation evaluated %d times over %d configurations' % (dyn['read-data'].n, len(configs)))
    ctx.ob('C18.reset-state', '%s.pointers.reset' % CLS, not bad_reset, ir.signals[role['cw']].loc,
           'after reset all four pointers must coincide inside the ring (empty, full capacity): %s' % bad_reset)

    def where(sel):
        name = role.get(sel) or P.get(sel)
        if sel == 'rdata':
            name = 'self.read_data'
        ds = ir.drivers(name, exact=True)
        return ds[-1].loc if ds else None
    for tally, rule, key, sel, text in DYN:
        t = dyn[tally]
        ctx.ob(rule, '%s.%s' % (CLS, key), t.n > 0 and t.bad is None, where(sel),
               '%s -- %s [%d evaluations over %d configurations, %d failing]' % (
                   text, t.bad or 'holds', t.n, len(configs), t.nbad))

    # ---- one clock: with a non-default `domain` argument (the in-tree users pass domain="usb") every register of the FIFO
    # and both memory ports must still be clocked by one and the same domain -- a pointer left in another domain is updated
    # by a foreign clock and the queue state no longer follows the strobes
    dir_ = ctx.ir(CLS, 'gateware.memory', width=8, depth=4, domain='usb')
    doms = {}
    for a in dir_.assigns:
        if a.domain != 'comb':
            doms.setdefault(a.domain, []).append(a)
    ports = {}
    for sm in dir_.submodules:
        o = getattr(sm, 'obj', None)
        d = getattr(o, 'kwargs', {}).get('domain') if o is not None else None
        if d is not None:
            ports[sm.name] = d if isinstance(d, str) else getattr(d, 'val', d)
    alld = set(doms) | {v for v in ports.values() if isinstance(v, str)}
    minority = min(doms.values(), key=len) if len(doms) > 1 else []
    ctx.ob('C18.one-clock', '%s.domain[domain=usb]' % CLS, len(alld) == 1, minority[0].loc if minority else None,
           'all registers and memory ports of the FIFO must share one clock domain when it is built with domain="usb": '
           'domains %s; %s' % (sorted(map(str, alld)), [q.fmt(a)[:140] for a in minority[:3]]))
