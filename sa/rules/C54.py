"""C54 -- PHY reset controllers produce the configured pulses and always finish."""
from ..ir import E
from .. import q
from ..fsm import state_outcomes, unreachable_states

TITLE = 'PHY reset controller'
FLOOR = 10
DECIDES = ('For three duration configurations (equal, stop > reset, reset > stop): (a) range coverage -- every constant N '
           'the cycle counter is compared with (counter + 1 == N) satisfies N - 1 <= the largest value the declared '
           'counter range can hold, so each terminal comparison is reachable; the constants fold to ceil(T * f); '
           '(b) phy_reset is exactly "FSM in the reset state", phy_stop exactly "not in the idle state"; (c) the reset '
           'state leaves only under its comparison to the stop state, the stop state only under its comparison to idle, '
           'both clearing the counter there and counting up by one otherwise; idle clears the counter and leaves only '
           'on trigger; initial state follows power_on_reset; the counter is reset with its clock domain, to 0. '
           'phy_reset may be the state decode or a register mirroring one state (set on every edge into it, cleared on every edge out, initial value following the FSM initial state); decided for power_on_reset True and False. ')
NOT_DECIDED = 'nothing of the controller beyond cycle-exact counting semantics of Amaranth arithmetic.'

import math


def _mirror(ir, fsm, name):
    """(state, '') when `name` is, or is an unconditional copy of, a register that equals `fsm.ongoing(state)` in every
    cycle; (None, reason) otherwise."""
    ds = ir.drivers(name, exact=True)
    reg = name
    if len(ds) == 1 and ds[0].domain == 'comb' and not ds[0].guard and ds[0].state is None and ds[0].rhs.op == 'sig':
        reg = ds[0].rhs.canon()
        ds = ir.drivers(reg, exact=True)
    if not ds or any(a.domain != fsm.domain or a.rhs.op != 'const' or a.state is None for a in ds):
        return None, '%s is not a register written with constants inside the FSM' % reg
    with_edge = {}
    for a in ds:
        es = [e for e in fsm.edges if e.state == a.state and q.atoms(e) == q.atoms(a)]
        if len(es) != 1:
            return None, 'the write %s does not accompany exactly one transition' % q.fmt(a)
        with_edge[id(es[0])] = bool(a.rhs.val)
    on = {e.dst for e in fsm.edges if with_edge.get(id(e)) is True}
    if len(on) != 1:
        return None, '%s is set on transitions into %s' % (reg, sorted(on))
    st = on.pop()
    for e in fsm.edges:
        src = e.state[1] if isinstance(e.state, tuple) else e.src
        if e.dst == st and src != st and with_edge.get(id(e)) is not True:
            return None, 'the transition %s enters %s without setting %s' % (q.fmt(e), st, reg)
        if src == st and e.dst != st and with_edge.get(id(e)) is not False:
            return None, 'the transition %s leaves %s without clearing %s' % (q.fmt(e), st, reg)
        if with_edge.get(id(e)) is True and e.dst != st or with_edge.get(id(e)) is False and e.dst == st:
            return None, 'the transition %s writes %s against the state it enters' % (q.fmt(e), reg)
    si = ir.signals.get(reg)
    init = (si.init or 0) if si is not None else 0
    if bool(init) != (fsm.init == st):
        return None, '%s starts at %d while the FSM starts in %s (it mirrors %s)' % (reg, init, fsm.init, st)
    if si is not None and si.reset_less:
        return None, '%s is not reset with the FSM' % reg
    return st, ''


def check(ctx, f, tr, ts, por=True):
    tag = 'f%g,r%g,s%g%s' % (f, tr, ts, '' if por else ',nopor')
    ir = ctx.ir('PHYResetController', 'architecture.car', clock_frequency=f, reset_length=tr, stop_length=ts, power_on_reset=por)
    fsm = ctx.the_fsm(ir)
    n_r, n_s = math.ceil(tr * f - 1e-9), math.ceil(ts * f - 1e-9)
    pr = ir.drivers('self.phy_reset', exact=True)
    ps = ir.drivers('self.phy_stop', exact=True)
    # phy_reset is raised in exactly one state, phy_stop in every state but one -- written inside the states or as a
    # function of `fsm.ongoing(...)` outside (q.flag_states gives one answer for both)
    ctx.need(pr and ps, 'phy_reset / phy_stop drivers')
    fr, fs_ = q.flag_states(ir, fsm, 'self.phy_reset'), q.flag_states(ir, fsm, 'self.phy_stop')
    why_not = ''
    if all(v == 'cond' for v in fr.values()):
        # the output may be a register that mirrors one state: set on every edge into it, cleared on every edge out of it,
        # written nowhere else, and starting as the FSM starts
        mir, why_not = _mirror(ir, fsm, 'self.phy_reset')
        if mir is not None:
            fr = {s: s == mir for s in fsm.states}
    r_on = [s for s in fsm.states if fr[s] is True]
    s_off = [s for s in fsm.states if fs_[s] is False]
    ok = len(r_on) == 1 and len(s_off) == 1 and all(v is False for s, v in fr.items() if s not in r_on) and \
        all(v is True for s, v in fs_.items() if s not in s_off)
    rst = r_on[0] if r_on else None
    idle = s_off[0] if s_off else None
    ctx.ob('C54.outputs', 'PHYResetController.phy_stop[%s]' % tag, ok and idle != rst, ps[0].loc,
           'phy_reset = in reset state, phy_stop = not idle: phy_reset %s, phy_stop %s%s' % (fr, fs_, ('; ' + why_not) if why_not else ''))
    ctx.need(ok, 'idle state')
    others = [s for s in fsm.states if s not in (idle, rst)]
    ctx.need(len(others) == 1, 'exactly one stop-deferral state')
    stp = others[0]
    ctx.ob('C54.init', 'PHYResetController.init[%s]' % tag, fsm.init == (rst if por else idle), fsm.loc,
           'initial state must be the reset state iff power_on_reset (init=%s)' % fsm.init)
    ctx.ob('C54.reachable', 'PHYResetController.states[%s]' % tag, not unreachable_states(fsm), fsm.loc, 'all states reachable')
    cnt = None
    for st, nxt, n in ((rst, stp, n_r), (stp, idle, n_s)):
        es = fsm.out_edges(st)
        role = 'reset' if st == rst else 'stop'
        ok = len(es) == 1 and es[0].dst == nxt and len(es[0].guard) == 1
        ce = q.const_eq(es[0].guard[0].e) if ok else None
        ctx.ob('C54.chain', 'PHYResetController.%s-exit[%s]' % (role, tag), bool(ok and ce and es[0].guard[0].pos), es[0].loc if es else None,
               'the %s state must leave only under its cycle comparison, to the %s state' % (role, 'stop' if st == rst else 'idle'))
        if not (ok and ce):
            continue
        N, expr = ce
        ctx.ob('C54.duration', 'PHYResetController.%s-cycles[%s]' % (role, tag), N == n and expr.startswith('1 + '), es[0].loc,
               '%s duration compares (%s) with %r, expected counter+1 == ceil(T*f) = %d' % (role, expr, N, n))
        cnt = expr[4:]
        si = ir.signals.get(cnt)
        ctx.need(si is not None and si.w is not None, 'cycle counter shape')
        maxval = (si.rng[1] - 1) if si.rng else (1 << si.w) - 1
        ctx.ob('C54.range-coverage', 'PHYResetController.%s-compare[%s]' % (role, tag), N - 1 <= maxval and N - 1 < (1 << si.w), si.loc,
               'counter %s declared %s (max %d, %d bits) cannot reach %d needed by the %s comparison' % (
                   cnt, si.shape_src, maxval, si.w, N - 1, role))
        here = [a for a in ir.drivers(cnt, exact=True) if q.state_of(a) == st]
        # next counter value for both outcomes of the comparison (last assignment wins; default-then-override and an
        # explicit If/Else are the same thing): comparison hit -> 0, otherwise -> counter + 1
        from ..fsm import lit_atoms, assignments, holds
        cmp_atom = list(q.atoms(es[0]))[0][0]
        ats = sorted({x for a in here for l in a.guard for x in lit_atoms(l)} | {cmp_atom})
        okc = ats == [cmp_atom] and bool(here)
        if okc:
            for asg in assignments(ats):
                fire = sorted([a for a in here if holds(a.guard, asg)], key=lambda a: a.order)
                last = fire[-1] if fire else None
                if asg[cmp_atom]:
                    okc = okc and last is not None and q.is_zero(last.rhs)
                else:
                    okc = okc and last is not None and last.rhs.canon() == '1 + ' + cnt
        ctx.ob('C54.count', 'PHYResetController.%s-count[%s]' % (role, tag), okc, es[0].loc,
               'the %s state counts up by one and clears the counter when its comparison hits: %s' % (role, [q.fmt(a) for a in here]))
    trig = state_outcomes(fsm, idle, {'self.trigger': True})
    hold = state_outcomes(fsm, idle, {'self.trigger': False})
    ctx.ob('C54.idle', 'PHYResetController.idle[%s]' % tag, set(trig) == {rst} and set(hold) == {None}, fsm.state_loc[idle],
           'idle must wait for trigger and then enter the reset state')
    if cnt:
        ic = [a for a in ir.drivers(cnt, exact=True) if q.state_of(a) == idle]
        ctx.ob('C54.idle', 'PHYResetController.idle-clear[%s]' % tag, len(ic) == 1 and q.is_zero(ic[0].rhs) and not ic[0].guard,
               ic[0].loc if ic else None, 'idle keeps the counter at zero')
        # the FSM follows the domain reset (with power_on_reset it restarts in the reset state): the counter that measures
        # the pulse must restart with it, at 0 -- a reset-less or non-zero-initialised counter makes the power-on pulse
        # start from a stale count
        si = ir.signals.get(cnt)
        ctx.ob('C54.counter-reset', 'PHYResetController.counter.reset[%s]' % tag,
               si is not None and not getattr(si, 'reset_less', False) and (si.init or 0) == 0, si.loc if si else None,
               'the cycle counter must be reset with its clock domain to 0 (reset_less=%s, init=%s): the FSM restarts in its '
               'initial state on a domain reset and measures the pulse from whatever the counter holds' % (
                   getattr(si, 'reset_less', None), getattr(si, 'init', None)))


def run(ctx):
    check(ctx, 60e6, 2e-6, 2e-6)
    check(ctx, 60e6, 2e-6, 10e-6)
    check(ctx, 60e6, 10e-6, 2e-6)
    check(ctx, 60e6, 2e-6, 2e-6, por=False)
    if ctx.tier == 'thorough':
        check(ctx, 48e6, 1e-6, 1e-3)
        check(ctx, 100e6, 5e-3, 3e-7)
