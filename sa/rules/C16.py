"""C16 -- isochronous OUT endpoints deliver only whole, CRC-valid packets."""
from ..ir import E, literals
from .. import q
from ..fsm import atom_of

TITLE = 'isochronous OUT whole packets'
FLOOR = 10
DECIDES = ('(a) FIFO commit requires the delayed packet-complete strobe, discard the delayed packet-invalid strobe, both with the '
           'endpoint-number and OUT-direction atoms, and the discard does not depend on the FIFO fill state; bytes are written only for this endpoint, under next & valid of the '
           'boundary-processed stream; (b) whole-packet admission: a byte may be refused for lack of space only if the packet '
           'is then dropped as a whole -- i.e. the space test in write_en is a per-packet (registered) decision, or every '
           'refusal sets a flag that keeps write_commit from committing the partial packet; (c) first/last flags travel with '
           'each byte through the FIFO (bit 9 / bit 8) and the output stream is read from the FIFO in order (valid = '
           '~empty, read_en = ready, reads committed). ')
NOT_DECIDED = 'the byte contents (C13/C18 cover the FIFO and boundary detector); frame timing.'
EP = 'self._endpoint_number == self.interface.tokenizer.endpoint'
OUT = 'self.interface.tokenizer.is_out'


def conj(e):
    return {atom_of(l) for l in literals(e, True)}


def run(ctx):
    ir = ctx.ir('USBIsochronousStreamOutEndpoint', 'isochronous_stream_out')
    def one(sig):
        ds = ir.drivers(sig, exact=True)
        ctx.need(len(ds) == 1 and not ds[0].guard, 'single unconditional driver of ' + sig)
        return ds[0]
    wc, wd, we = one('fifo.write_commit'), one('fifo.write_discard'), one('fifo.write_en')
    c = conj(wc.rhs)
    ctx.ob('C16.commit', 'IsoOut.write_commit', {(EP, True), (OUT, True), ('boundary_detector.complete_out', True)} <= c, wc.loc,
           'commit needs endpoint match, OUT and the delayed complete strobe: %s' % sorted(c))
    d = conj(wd.rhs)
    ctx.ob('C16.discard', 'IsoOut.write_discard', {(EP, True), (OUT, True), ('boundary_detector.invalid_out', True)} <= d, wd.loc,
           'discard needs endpoint match, OUT and the delayed invalid strobe: %s' % sorted(d))
    extra = sorted(a for a, p in d if 'fifo.' in a)
    ctx.ob('C16.discard-regardless-of-fill', 'IsoOut.write_discard', not extra, wd.loc,
           'the bytes of a corrupted packet are already in the FIFO when the invalid strobe arrives, so the discard must not '
           'depend on the FIFO fill state at that moment (found %s): otherwise the uncommitted bytes stay and are published '
           'by the next commit' % extra)
    w = conj(we.rhs)
    ctx.ob('C16.write-gate', 'IsoOut.write_en', {(EP, True), (OUT, True), ('boundary_detector.processed_stream.next', True),
                                                   ('boundary_detector.processed_stream.valid', True)} <= w, we.loc,
           'bytes are stored only for this endpoint under next & valid: %s' % sorted(w))
    # (b) whole-packet admission
    space = [a for a, p in w if 'space_available' in a or 'fifo.full' in a]
    refusals_flagged = False
    flag_in_commit = [a for a, p in c if not p and a in ('overflow',) or (not p and any(
        q.is_one(x.rhs) for x in ir.drivers(a, exact=True)))]
    for fl in flag_in_commit:
        sets = [x for x in ir.drivers(fl, exact=True) if q.is_one(x.rhs)]
        # the flag must be set whenever a byte is offered but refused for lack of space
        for s_ in sets:
            at = q.atoms(s_)
            if any(('space_available' in a and not p) or ('fifo.full' in a and p) for a, p in at):
                refusals_flagged = True
    live = bool(space)
    registered = live and all(ir.signals.get(a) is not None and any(x.domain != 'comb' for x in ir.drivers(a, exact=True)) for a in space)
    ok = (not live) or registered or (refusals_flagged and _flag_covers_space_refusal(ir, flag_in_commit, space))
    ctx.ob('C16.whole-packet', 'IsoOut.write_en-live-space', ok, we.loc,
           'write_en re-evaluates the space test (%s) for every byte and write_commit does not exclude a packet that had '
           'bytes refused: a packet that starts with just enough room is stored partially and still committed' % space)
    # (b') the admission threshold itself: for packet sizes that are and are not powers of two, the space test in the write
    #      gate holds exactly when a whole maximum-size packet fits (space_available >= max_packet_size)
    from ..num import ev as _nev, NoEval as _NoEval
    for mps in (64, 192, 1023):
        irc = ctx.ir('USBIsochronousStreamOutEndpoint', 'isochronous_stream_out', endpoint_number=1, max_packet_size=mps)
        wes = irc.drivers('fifo.write_en', exact=True)
        lits = [l for l in (literals(wes[0].rhs, True) if len(wes) == 1 and isinstance(wes[0].rhs, E) else [])
                if isinstance(l.e, E) and l.e.sigs() == {'fifo.space_available'}]
        si = irc.signals.get('fifo.space_available')
        wsp = si.w if si is not None and isinstance(si.w, int) else (2 * mps).bit_length()
        bad = None
        ctx.need(lits, 'the space test in the write gate (a condition on fifo.space_available alone)')
        if lits:
            try:
                for v in range(0, min(1 << wsp, 2 * mps + 2)):
                    got = all(bool(_nev(l.e, {'fifo.space_available': v, '$w:fifo.space_available': wsp})) == l.pos for l in lits)
                    if got != (v >= mps) and bad is None:
                        bad = (v, got)
            except _NoEval as ex:
                ctx.need(False, 'space test of the write gate as a function of space_available (%s)' % ex)
        ctx.ob('C16.space-threshold', 'IsoOut.write_en.space-test[mps=%d]' % mps, bool(lits) and bad is None,
               wes[0].loc if wes else None,
               'a packet may be admitted exactly when max_packet_size = %d bytes are free: the test %s is %s with %s bytes free' % (
                   mps, [l.canon() for l in lits], bad[1] if bad else None, bad[0] if bad else None))
    # (c)
    wdat = {}
    for key, (lo, hi) in (('fifo.write_data[0:8]', (0, 8)), ('fifo.write_data[8:9]', (8, 9)), ('fifo.write_data[9:10]', (9, 10))):
        bd = q.bits_drivers(ir, 'fifo.write_data', lo, hi)
        wdat[key] = bd[0][1].canon() if len(bd) == 1 and bd[0][1] is not None and not bd[0][0].guard else [q.fmt(a) for a, _ in bd]
    want = {'fifo.write_data[0:8]': 'boundary_detector.processed_stream.payload', 'fifo.write_data[8:9]': 'boundary_detector.last',
            'fifo.write_data[9:10]': 'boundary_detector.first'}
    ctx.ob('C16.flags-with-bytes', 'IsoOut.write_data', wdat == want, None, 'payload/last/first packed into the FIFO word: %s' % wdat)
    outs = {'self.stream.valid': '~fifo.empty', 'self.stream.p.data': 'fifo.read_data[0:8]', 'self.stream.p.last': 'fifo.read_data[8:9]',
            'self.stream.p.first': 'fifo.read_data[9:10]', 'fifo.read_en': 'self.stream.ready', 'fifo.read_commit': '1'}
    PW = {'self.stream.p.data': 8, 'self.stream.p.last': 1, 'self.stream.p.first': 1}     # Packet(unsigned(8)): data, last, first
    for lhs, rhs in outs.items():
        a = one(lhs)
        got = a.rhs
        if isinstance(a.lhs, E) and a.lhs.op == 'cat' and all(x.op == 'sig' and x.canon() in PW for x in a.lhs.args) and isinstance(a.rhs, E):
            # the packet fields assigned through one Cat() on the left (their widths come from the stream layout)
            from ..hdl import slice_of
            off = 0
            for x in a.lhs.args:
                if x.canon() == lhs:
                    got = slice_of(a.rhs, off, off + PW[x.canon()])
                off += PW[x.canon()]
        ctx.ob('C16.output', 'IsoOut.' + lhs, got.canon() == rhs, a.loc, '%s <= %s, found %s' % (lhs, rhs, got.canon()))
    for lhs, rhs in (('boundary_detector.complete_in', 'self.interface.rx_complete'), ('boundary_detector.invalid_in', 'self.interface.rx_invalid'),
                     ('boundary_detector.unprocessed_stream.payload', 'self.interface.rx.payload'),
                     ('boundary_detector.unprocessed_stream.next', 'self.interface.rx.next'),
                     ('boundary_detector.unprocessed_stream.valid', 'self.interface.rx.valid')):
        a = one(lhs)
        ctx.ob('C16.input', 'IsoOut.' + lhs, a.rhs.canon() == rhs, a.loc, '%s <= %s, found %s' % (lhs, rhs, a.rhs.canon()))
    fifo = [s for s in ir.submodules if s.name == 'fifo']
    ctx.ob('C16.fifo', 'IsoOut.fifo', bool(fifo) and fifo[0].obj.clsname == 'TransactionalizedFIFO' and fifo[0].obj.kwargs.get('width') == 10,
           fifo[0].loc if fifo else None, 'a 10-bit TransactionalizedFIFO holds data + last + first')


def _flag_covers_space_refusal(ir, flags, space_atoms):
    """Some flag excluded by write_commit is set whenever a byte is offered while the space test fails."""
    for fl in flags:
        for s_ in ir.drivers(fl, exact=True):
            if not q.is_one(s_.rhs):
                continue
            at = q.atoms(s_)
            if all(any(a == sp and not p for a, p in at) for sp in space_atoms if 'space_available' in sp):
                return True
    return False
