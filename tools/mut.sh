#!/bin/bash
# mut.sh <Cnn> <relative file under luna/> <python-regex> <replacement> [count]  -- apply one edit in a scratch copy and run the check
P=$1; F=$2; RE=$3; REP=$4; N=${5:-1}
D=/tmp/mut_$$; rm -rf $D; mkdir -p $D; cp -r /repo/luna $D/luna
/venv/bin/python - "$D/luna/$F" "$RE" "$REP" "$N" <<'PY'
import re,sys
p,rx,rep,n=sys.argv[1:5]
s=open(p).read()
s2,k=re.subn(rx,rep,s,count=int(n),flags=re.S)
if k==0: print('NO MATCH'); sys.exit(3)
open(p,'w').write(s2)
import py_compile; py_compile.compile(p,doraise=True)
PY
[ $? -eq 0 ] || { rm -rf $D; exit 3; }
/venv/bin/python /verif/vcheck $P --repo $D > $D/out.txt 2>&1; rc=$?
echo "exit $rc: $(grep -v '^KNOWN' $D/out.txt | grep '^  [^a]\|ANALYSIS' | grep -v '^  analysed' | head -${LINES_OUT:-2} | cut -c1-${COLS_OUT:-220})"
rm -rf $D
git -C /verif checkout -- evidence 2>/dev/null
