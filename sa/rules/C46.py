"""C46 -- SuperSpeed IN endpoints deliver data and signal readiness correctly."""
from ..ir import E, _is_bool
from .. import q
from ..fsm import lit_atoms, assignments, _DUAL

TITLE = 'SuperSpeed stream IN endpoint'
FLOOR = 45
DECIDES = (
    'On SuperSpeedStreamInEndpoint (states identified by what they do; every "for all" is an exhaustive evaluation of '
    'the extracted guards over their boolean leaves under last-assignment-wins), for several endpoint numbers and '
    'packet sizes: (a) the reset state is the no-data state; NRDY is raised there for exactly the IN requests (ACK TP '
    'for this endpoint number with a non-zero packet count) that are not answered with data, is remembered in a flag, '
    'and once NRDY was sent (flag or request in this very cycle) the state is left only towards the state that '
    'raises send_erdy unconditionally until handshakes_out.done and then waits for the IN request; NRDY/ERDY '
    'requests carry this endpoint number and the device endpoint multiplexer forwards them (request, endpoint number, '
    'done); (b) in the waiting state an IN request for this endpoint starts the data packet when the read buffer '
    'holds data, a ZLP (then wait for its ACK) when it is empty, and nothing happens without a request; (c) the '
    'sequence counter is 5 bits, reset by ep_reset, changed only by +1; it advances on EVERY accepted ACK (ACK TP for '
    'this endpoint, retry clear, next_sequence == counter + 1 compared at 5 bits) whatever the next state is, and '
    'never otherwise (not on a retry); (d) a retry request re-enters the send state (or repeats the ZLP when the '
    'packet in flight was a ZLP, tracked by a flag set with every ZLP and cleared with every data packet) without '
    'any guarded register update; the send position is cleared in the ACK-wait state, the only successor of the '
    'send state; (e) header parameters: tx sequence number = counter, endpoint number = configured number, length = '
    'fill count of the buffer being read, direction IN, in the send state AND in the cycle the first word becomes '
    'valid (the link latches them then; no ACK TP is assumed in that very cycle), and with every tx_zlp strobe (counter + 1 when the strobe coincides with '
    'the advance); (f) the send state leaves exactly when the word containing the last byte is issued and the '
    'transmitter takes it ((pos+1)*4 >= count, evaluated numerically), the last word carries the byte-valid mask for '
    'count mod 4; (g) on an accepted ACK the read count is cleared (and only then), buffers are swapped only on '
    'leaving the no-data state or on an accepted ACK that owes no ZLP, a new data packet is started only on an IN '
    'request and only after a swap, a full-size packet that ended the stream is followed by a ZLP (now, if '
    'requested, else via the waiting state) and never by the no-data/send state, the full-size constant is '
    'max_packet_size, and every accepted ACK that owes no ZLP leaves the ACK-wait state; (h) input side: fill count '
    'grows by the number of valid bytes, stream.ready = room for a word & stream not ended, the end flag is set by '
    'last & write enable, the no-data state is left exactly on a valid word that completes the packet or carries last. ')
NOT_DECIDED = ('value-level delivery (memory addressing/latency, payload order), behaviour when the transaction packet '
               'generator is busy when NRDY is requested, ERDY sent without a preceding NRDY (the NRDY flag is never '
               'cleared), burst transfers, what ep_reset does to the buffers.')

CLS = 'SuperSpeedStreamInEndpoint'
I = 'self.interface.'
HIN, HOUT = I + 'handshakes_in.', I + 'handshakes_out.'
ACK, RETRY, EPRESET, DONE = HIN + 'ack_received', HIN + 'retry_required', I + 'ep_reset', HOUT + 'done'
TXR, TXZ = I + 'tx.ready', '0 == self.interface.tx.valid'      # TXZ: no byte of tx.valid set (`~tx.valid.any()`)
MASK = {0: 0b1111, 1: 0b0001, 2: 0b0011, 3: 0b0111}


# ------------------------------------------------------------------------------------------------ small helpers
def leaves_of(e, out):
    """Leaf expressions (E) of a boolean combination, same decomposition as fsm.leaf_atoms."""
    if isinstance(e, E) and e.op in ('&', '|') and all(_is_bool(a) for a in e.args):
        for a in e.args:
            leaves_of(a, out)
    elif isinstance(e, E) and e.op == '~' and _is_bool(e.args[0]):
        leaves_of(e.args[0], out)
    elif isinstance(e, E) and e.op in _DUAL and len(e.args) == 2:
        d = E(_DUAL[e.op], e.args, w=1)                # `a != b` is the leaf `a == b` negated (fsm.leaf_atoms)
        out[d.canon()] = d
    elif isinstance(e, E) and e.op != 'const':
        out[e.canon()] = e
    return out


def ev(e, env):
    """Integer value of an expression; env maps canonical texts (signals or whole sub-expressions) to ints."""
    if not isinstance(e, E):
        return int(e)
    c = e.canon()
    if c in env:
        return env[c]
    op = e.op
    if op == 'const':
        return int(e.val)
    if op == 'sig':
        raise KeyError(c)                      # a signal the environment does not give a value to
    if op == 'slice':
        v = ev(e.args[0], env)
        if not isinstance(e.args[2], int):     # x[lo:] of a value of undeclared width: everything from bit lo upwards
            return v >> e.args[1]
        return (v >> e.args[1]) & ((1 << (e.args[2] - e.args[1])) - 1)
    if op == 'call' and e.args[0] in ('any', 'bool'):
        return int(ev(e.args[1], env) != 0)
    a = [ev(x, env) for x in e.args]
    if op == '+':
        return sum(a)
    if op == '-':
        return a[0] - a[1]
    if op == '<<':
        return a[0] << a[1]
    if op == '>>':
        return a[0] >> a[1]
    if op == '&':
        r = a[0]
        for x in a[1:]:
            r &= x
        return r
    if op == '|':
        r = a[0]
        for x in a[1:]:
            r |= x
        return r
    if op == '~':
        if _is_bool(e.args[0]):
            return 1 - int(a[0] != 0)
        raise KeyError('~ of a vector: ' + c)
    if op in ('==', '!=', '<', '<=', '>', '>='):
        x, y = a
        return int({'==': x == y, '!=': x != y, '<': x < y, '<=': x <= y, '>': x > y, '>=': x >= y}[op])
    raise KeyError('cannot evaluate %s' % c)


_CG = {}


def _compile(e):
    """Boolean skeleton of a guard expression with the leaf texts precomputed (same decomposition as fsm.eval_bool)."""
    if isinstance(e, E):
        if e.op == 'const':
            return ('k', bool(e.val), None)
        if e.op == '~' and _is_bool(e.args[0]):
            return ('~', e.canon(), _compile(e.args[0]))
        if e.op in ('&', '|') and all(_is_bool(a) for a in e.args):
            return (e.op, e.canon(), tuple(_compile(a) for a in e.args))
        if e.op in _DUAL and len(e.args) == 2:
            return ('~', e.canon(), ('l', E(_DUAL[e.op], e.args, w=1).canon(), None))
        return ('l', e.canon(), None)
    return ('l', str(e), None)


def _run(t, asg):
    op, c, sub = t
    if op == 'k':
        return c
    if c in asg:
        return asg[c]
    if op == 'l':
        return None
    if op == '~':
        v = _run(sub, asg)
        return None if v is None else (not v)
    vals = [_run(x, asg) for x in sub]
    if op == '&':
        if any(v is False for v in vals):
            return False
        return None if any(v is None for v in vals) else True
    if any(v is True for v in vals):
        return True
    return None if any(v is None for v in vals) else False


def holds(guard, asg):
    """fsm.holds with the guard compiled once (True / False / None when undetermined)."""
    key = id(guard)
    cg = _CG.get(key)
    if cg is None or cg[0] is not guard:
        lits = []
        for l in guard:
            if l.kind == 'cfg':
                lits.append((('l', 'cfg:' + (l.e.canon() if isinstance(l.e, E) else str(l.e)), None), l.pos))
            else:
                lits.append((_compile(l.e), l.pos))
        cg = (guard, lits)
        _CG[key] = cg
    unknown = False
    for t, pos in cg[1]:
        v = _run(t, asg)
        if v is None:
            unknown = True
        elif v != pos:
            return False
    return None if unknown else True


class Fam:
    """A condition that may appear under several leaf spellings (==, !=, truthiness): {leaf canon: inverted?}."""
    def __init__(self, name):
        self.name = name
        self.forms = {}
        self.default = None      # value when the condition is not tested anywhere (reported separately)

    def put(self, asg, value):
        for c, inv in self.forms.items():
            asg[c] = (not value) if inv else value
        return asg

    def value(self, asg):
        for c, inv in self.forms.items():
            if c in asg:
                return (not asg[c]) if inv else asg[c]
        return self.default

    def consistent(self, asg):
        vals = {((not asg[c]) if inv else asg[c]) for c, inv in self.forms.items() if c in asg}
        return len(vals) <= 1


def cmp_form(e, pred_other, target):
    """If e compares signal `target` (==/!=) with something accepted by pred_other: (inverted?, other E)."""
    if isinstance(e, E) and e.op in ('==', '!=') and len(e.args) == 2:
        a, b = e.args
        for x, y in ((a, b), (b, a)):
            if isinstance(x, E) and x.canon() == target and pred_other(y):
                return e.op == '!=', y
    return None


class Model:
    """The endpoint under one configuration, with its roles resolved."""

    def __init__(self, ctx, cfg):
        self.ctx = ctx
        self.mps = cfg.get('max_packet_size', 1024)
        self.epn = cfg.get('endpoint_number')
        self.tag = 'ep%s,mps%d' % ('sym' if self.epn is None else self.epn, self.mps)
        self.ir = ir = ctx.ir(CLS, 'usb3.endpoints.stream', **cfg)
        self.fsm = fsm = ctx.the_fsm(ir)
        self.all_leaves = {}
        for it in list(fsm.edges) + list(ir.assigns):
            for l in it.guard:
                if isinstance(l.e, E) and l.kind != 'cfg':
                    leaves_of(l.e, self.all_leaves)
        self.fams = []
        self.glob = []          # guarded assignments outside the FSM that the enumerations must be able to evaluate
        self._enum, self._drv = {}, {}
        self.extra_atoms = {}   # state -> conditions of the specification that must be enumerated even if the code forgot them

    # -- enumeration ------------------------------------------------------------------------------------------
    def items(self, state):
        return [a for a in self.ir.assigns if a.state == (self.fsm.id, state)]

    def universe(self, state, extra=()):
        atoms = set(self.extra_atoms.get(state, ()))
        for it in list(self.fsm.out_edges(state)) + self.items(state) + list(extra):
            for l in it.guard:
                atoms |= set(lit_atoms(l))
        return atoms

    def enum(self, state, assume=None):
        base = {EPRESET: False}
        base.update(assume or {})
        key = (state, tuple(sorted(base.items())), len(self.glob), len(self.fams), len(self.extra_atoms.get(state, ())))
        if key not in self._enum:
            self._enum[key] = [asg for asg in assignments(self.universe(state, self.glob), base)
                               if all(f.consistent(asg) for f in self.fams)]
        return self._enum[key]

    def next_state(self, state, asg):
        dst = None
        for e in sorted(self.fsm.out_edges(state), key=lambda e: e.order):
            if holds(e.guard, asg):
                dst = e.dst
        return dst

    def outcomes(self, state, assume=None):
        out = {}
        for asg in self.enum(state, assume):
            out.setdefault(self.next_state(state, asg), asg)
        return out

    def fires(self, items, asg):
        return [a for a in items if holds(a.guard, asg)]

    def winner(self, name, state, asg):
        """rhs of the comb driver of `name` that wins in `state` under asg (None: not driven -> reset value)."""
        if name not in self._drv:
            self._drv[name] = sorted((a for a in self.ir.drivers(name, exact=True) if a.domain == 'comb'), key=lambda a: a.order)
        w = None
        for a in self._drv[name]:
            if not (a.state is None or a.state == (self.fsm.id, state)):
                continue
            if holds(a.guard, asg):
                w = a
        return w

    def show(self, asg):
        if asg is None:
            return None
        short = lambda k: k.replace(HIN, 'hs_in.').replace(I, '').replace('Array[buffer_fill_count[0], buffer_fill_count[1]]', 'fill')\
            .replace('Array[stream_ended_in_buffer0, stream_ended_in_buffer1]', 'ended')
        return sorted(short(k) for k, v in asg.items() if v)


class Collect:
    """One obligation per (rule, role): it holds iff it holds under every configuration analysed (keys do not depend on the
    configuration, so the thorough tier refines the same obligations instead of adding differently named ones)."""

    def __init__(self):
        self.obs = {}

    def ob(self, rule, key, ok, loc, msg, tag):
        r = self.obs.setdefault((rule, key), [True, None, None, []])
        if not ok:
            if r[0]:
                r[1], r[2] = loc, msg
            r[0] = False
            r[3].append(tag)
        elif r[1] is None and r[0]:
            r[1], r[2] = loc, msg

    def emit(self, ctx):
        for (rule, key), (ok, loc, msg, tags) in self.obs.items():
            ctx.ob(rule, key, ok, loc, msg if ok else '[%s] %s' % (', '.join(tags), msg))


def run(ctx):
    cfgs = [dict(endpoint_number=1), dict(endpoint_number=3, max_packet_size=512)]
    if ctx.tier == 'thorough':
        cfgs += [dict(endpoint_number=15, max_packet_size=64), dict(endpoint_number=2, max_packet_size=1024),
                 dict(endpoint_number=7, max_packet_size=16), dict()]
    col = Collect()
    for cfg in cfgs:
        check_endpoint(ctx, cfg, col)
    col.emit(ctx)
    check_mux(ctx)


# ------------------------------------------------------------------------------------------------ the endpoint
def check_endpoint(ctx, cfg, col):
    M = Model(ctx, cfg)
    ir, fsm, tag, mps = M.ir, M.fsm, M.tag, M.mps
    K = lambda role: '%s.%s' % (CLS, role)
    OB = lambda rule, key, ok, loc=None, msg='': col.ob(rule, key, bool(ok), loc, msg, tag)

    # ---- roles: states
    def states_of(items):
        return {q.state_of(a) for a in items}
    nrdy = q.raises(ir, HOUT + 'send_nrdy')
    erdy = q.raises(ir, HOUT + 'send_erdy')
    zlps = q.raises(ir, I + 'tx_zlp')
    vset = [a for a in q.raises(ir, I + 'tx.valid') if a.domain != 'comb']
    ctx.need(nrdy and erdy and zlps and vset, 'drivers of send_nrdy, send_erdy, tx_zlp and tx.valid')
    ctx.need(len(states_of(nrdy)) == 1 and None not in states_of(nrdy), 'one state raising send_nrdy')
    ctx.need(len(states_of(erdy)) == 1 and None not in states_of(erdy), 'one state raising send_erdy')
    ctx.need(len(states_of(vset)) == 1 and None not in states_of(vset), 'one state setting tx.valid (the send state)')
    S_nodata, S_erdy, S_send = states_of(nrdy).pop(), states_of(erdy).pop(), states_of(vset).pop()
    ack_states = {e.src for e in fsm.edges if any(RETRY in a or (HIN + 'next_sequence') in a for l in e.guard for a in lit_atoms(l))}
    ctx.need(len(ack_states) == 1, 'one state deciding on handshakes_in.retry_required / next_sequence (the ACK-wait state)')
    S_ack = ack_states.pop()
    ex = M.outcomes(S_erdy, {DONE: True})
    ctx.need(len(ex) == 1 and None not in ex, 'the ERDY state has one successor once handshakes_out.done')
    S_wait = list(ex)[0]
    ctx.need(len({S_nodata, S_erdy, S_send, S_ack, S_wait}) == 5, 'five distinct roles: no-data %s, erdy %s, wait %s, send %s, '
             'ack-wait %s' % (S_nodata, S_erdy, S_wait, S_send, S_ack))
    role = {S_nodata: 'no-data', S_erdy: 'erdy', S_wait: 'wait', S_send: 'send', S_ack: 'ack-wait', None: 'stay'}
    R = lambda s: role.get(s, 'state#%d' % fsm.states.index(s) if s in fsm.states else str(s))

    # ---- roles: conditions
    is_epn = (lambda y: isinstance(y, E) and ((y.op == 'const') if M.epn is not None else
                                              (y.op != 'const' and '_endpoint_number' in y.canon())))
    TOUS, INREQ, SEQOK = Fam('for-this-endpoint'), Fam('in-request'), Fam('sequence-advancing')
    epn_consts, seq_others = set(), []
    for c, e in M.all_leaves.items():
        f = cmp_form(e, is_epn, HIN + 'endpoint_number')
        if f:
            TOUS.forms[c] = f[0]
            epn_consts.add(f[1].canon())
            continue
        f = cmp_form(e, lambda y: isinstance(y, E) and y.op == 'const' and y.val == 0, HIN + 'number_of_packets')
        if f:
            INREQ.forms[c] = not f[0]          # '0 == n' is the inverted form of "request"
            continue
        if c == HIN + 'number_of_packets' or (e.op == '>' and e.args[0].canon() == HIN + 'number_of_packets'
                                              and e.args[1].is_const(0)):
            INREQ.forms[c] = False
            continue
        f = cmp_form(e, lambda y: True, HIN + 'next_sequence')
        if f:
            SEQOK.forms[c] = f[0]
            seq_others.append(f[1])
    ctx.need(INREQ.forms and SEQOK.forms, 'number_of_packets and next_sequence tests in the guards')
    if not TOUS.forms:
        TOUS.default = True
    other = [c for c, e in M.all_leaves.items() if (HIN + 'endpoint_number') in e.sigs() and c not in TOUS.forms]
    OB('C46.token-for-this-endpoint', K('endpoint-number-test'),
           TOUS.forms and not other and epn_consts == ({str(M.epn)} if M.epn is not None else {'self._endpoint_number'}), fsm.loc,
           'handshakes_in.endpoint_number must be compared with the configured endpoint number %s: compared with %s %s' % (
               M.epn, sorted(epn_consts), other))

    # the count of the buffer being read = what the send state compares its position with to find the last word
    posr = [a for a in M.items(S_send) if a.domain != 'comb' and a.lhs.op == 'sig' and isinstance(a.rhs, E)
            and a.rhs.canon() == '1 + ' + a.lhs.canon()]
    ctx.need(len(posr) == 1, 'send position register (incremented in the send state)')
    POS = posr[0].lhs.canon()
    lw = [l for e in fsm.out_edges(S_send) for l in e.guard if isinstance(l.e, E) and POS in l.e.sigs() and l.pos]
    ctx.need(lw and len({l.e.canon() for l in lw}) == 1, 'last-word test on the edge out of the send state')
    LW = lw[0].e
    LWc = LW.canon()
    xs = {n.canon(): n for n in LW.walk() if n.op == 'arr'}
    ctx.need(len(xs) == 1, 'the last-word test compares the send position with one buffer fill count')
    X = list(xs.values())[0]
    Xc = X.canon()
    ctx.need(isinstance(X.args[0], E) and X.args[0].op == '~' and X.args[0].args[0].op == 'sig',
             'read buffer selected by the inverted ping-pong flag')
    G = X.args[0].args[0].canon()                                   # ping-pong register
    WFC = E('arr', (X.args[0].args[0],) + tuple(X.args[1:]), w=X.w)  # fill count of the buffer being written
    XNZ = Fam('read-buffer-non-empty')
    FULL = Fam('read-buffer-full')
    full_consts = set()
    for c, e in M.all_leaves.items():
        if c == Xc:
            XNZ.forms[c] = False
            continue
        f = cmp_form(e, lambda y: isinstance(y, E) and y.op == 'const', Xc)
        if f and f[1].val == 0:
            XNZ.forms[c] = not f[0]
        elif f:
            FULL.forms[c] = f[0]
            full_consts.add(f[1].val)
    cand = dict(M.all_leaves)
    cand.update({a.lhs.canon(): a.lhs for a in ir.assigns if isinstance(a.lhs, E)})
    ENDED = [c for c, e in cand.items() if e.op == 'arr' and c != Xc and e.args[0].canon() == X.args[0].canon()
             and all(getattr(x, 'w', None) == 1 for x in e.args[1:])]
    ctx.need(XNZ.forms, 'empty/non-empty test of the read buffer count')
    ctx.need(FULL.forms and len(ENDED) == 1, 'full-size test of the read buffer count and its stream-ended flag')
    ENDED = ENDED[0]
    M.extra_atoms[S_ack] = {ENDED, RETRY} | set(FULL.forms)
    M.fams = [TOUS, INREQ, SEQOK, XNZ, FULL]

    def A(ack=None, tous=None, inreq=None, retry=None, seqok=None, **more):
        asg = {}
        if ack is not None:
            asg[ACK] = ack
        if retry is not None:
            asg[RETRY] = retry
        for fam, v in ((TOUS, tous), (INREQ, inreq), (SEQOK, seqok)):
            if v is not None:
                fam.put(asg, v)
        asg.update(more)
        return asg
    token = lambda asg: bool(asg.get(ACK) and TOUS.value(asg) and INREQ.value(asg))
    accepted = lambda asg: bool(asg.get(ACK) and TOUS.value(asg) and SEQOK.value(asg) and not asg.get(RETRY))
    owed = lambda asg: bool(FULL.value(asg) and asg.get(ENDED))

    # ---- roles: registers
    # sequence counter: the register with a +1 update that feeds tx_sequence_number
    sq = [a for a in ir.drivers(I + 'tx_sequence_number', exact=True)]
    ctx.need(sq, 'driver of tx_sequence_number')
    feed = set()
    for a in sq:
        feed |= q.support(ir, a.rhs)
    incs = [a for a in ir.assigns if a.domain != 'comb' and a.lhs.op == 'sig' and a.lhs.canon() in feed and isinstance(a.rhs, E)
            and q.expand(ir, a.rhs).canon() == '1 + ' + a.lhs.canon()]
    ctx.need(len({a.lhs.canon() for a in incs}) == 1, 'one sequence counter (register with a +1 update feeding tx_sequence_number)')
    SEQ = incs[0].lhs.canon()
    PLUS1 = '1 + ' + SEQ
    # advance sites: the +1 updates, looking through a 1-bit combinational request flag
    sites = []          # (state, guard literals, loc)
    for a in incs:
        flags = [l for l in a.guard if l.pos and isinstance(l.e, E) and l.e.op == 'sig' and not l.e.canon().startswith('self.')
                 and ir.drivers(l.e.canon(), exact=True) and all(d.domain == 'comb' and q.is_one(d.rhs)
                                                                  for d in ir.drivers(l.e.canon(), exact=True))]
        if a.state is None and len(flags) == 1:
            rest = tuple(l for l in a.guard if l is not flags[0])
            for d in ir.drivers(flags[0].e.canon(), exact=True):
                sites.append((q.state_of(d), tuple(d.guard) + rest, d.loc))
        else:
            sites.append((q.state_of(a), tuple(a.guard), a.loc))
    ctx.need(sites, 'sequence advance sites')
    M.glob = [a for a in ir.assigns if a.state is None and a.guard and (a in incs or a.lhs.canon().startswith(I))]

    def advancing(state, asg):
        return [s for s in sites if s[0] in (None, state) and holds(s[1], asg)]

    # ---- (c) the sequence counter
    si, ti = ir.signals.get(SEQ), ir.signals.get(I + 'tx_sequence_number')
    OB('C46.seq-width', K('sequence.width'), si is not None and si.w == 5 and ti is not None and ti.w == 5,
           si.loc if si else None, 'USB3 sequence numbers are 5 bits (counter %s, tx_sequence_number %s)' % (
               si.w if si else None, ti.w if ti else None))
    bad = []
    for a in ir.drivers(SEQ, exact=True):
        c = q.expand(ir, a.rhs).canon() if isinstance(a.rhs, E) else '?'
        if a in incs or (q.is_zero(a.rhs) and q.has(a, EPRESET)):
            continue
        bad.append(q.fmt(a))
    rst = [a for a in ir.drivers(SEQ, exact=True) if q.is_zero(a.rhs) and q.atoms(a) == {(EPRESET, True)}]
    OB('C46.seq-updates', K('sequence.writers'), not bad and len(rst) == 1, si.loc if si else None,
           'the sequence counter is cleared by ep_reset and otherwise only incremented by one: %s' % bad)
    ok = bool(seq_others)
    why = []
    for o in seq_others:
        w = o.w if o.op != 'sig' else (ir.signals[o.canon()].w if o.canon() in ir.signals else None)
        if q.expand(ir, o).canon() != PLUS1 or w != 5:
            ok = False
            why.append('%s (= %s, width %s)' % (o.canon(), q.expand(ir, o).canon(), w))
    OB('C46.seq-compare', K('sequence.acknowledged-test'), ok, fsm.state_loc[S_ack],
           'the host\'s next_sequence must be compared with counter+1 truncated to 5 bits: %s' % why)
    # advance only on an accepted ACK; on every accepted ACK
    wrong, on_retry = None, None
    for st in sorted({s[0] for s in sites}, key=str):
        ctx.need(st is not None, 'sequence advance requested inside an FSM state')
        for asg in M.enum(st):
            if advancing(st, asg):
                if not (asg.get(ACK) and TOUS.value(asg) and SEQOK.value(asg)) and wrong is None:
                    wrong = (st, asg)
                if asg.get(RETRY) and on_retry is None:
                    on_retry = (st, asg)
    loc0 = sites[0][2]
    OB('C46.advance-only-on-ack', K('sequence.advance@guard'), wrong is None, loc0,
           'the sequence number may advance only on an ACK TP for this endpoint that acknowledges counter+1: advances in %s when %s' % (
               R(wrong[0]) if wrong else None, M.show(wrong[1]) if wrong else None))
    OB('C46.no-advance-on-retry', K('sequence.advance@retry'), on_retry is None,
           [s for s in sites if on_retry and holds(s[1], on_retry[1])][0][2] if on_retry else loc0,
           'a retry request must resend the same packet with the same sequence number, the counter advances when %s' % (
               M.show(on_retry[1]) if on_retry else None,))
    miss = {}
    seen = set()
    for asg in M.enum(S_ack, A(ack=True, tous=True, retry=False, seqok=True)):
        dst = M.next_state(S_ack, asg)
        seen.add(dst)
        if not advancing(S_ack, asg):
            miss.setdefault(dst, asg)
    ctx.need(seen, 'accepted-ACK cases in the ACK-wait state')
    for dst in sorted(seen, key=str):
        e = [x for x in fsm.out_edges(S_ack) if x.dst == dst and dst in miss and holds(x.guard, miss[dst])]
        OB('C46.advance-on-every-accept', K('sequence.advance@accept->%s' % R(dst)), dst not in miss,
               e[-1].loc if e else fsm.state_loc[S_ack],
               'every acknowledged packet must advance the sequence number; it does not when the ACK-wait state goes to %s under %s' % (
                   dst, M.show(miss.get(dst))))

    # ---- (a) NRDY / ERDY
    OB('C46.init-no-data', K('init'), fsm.init == S_nodata, fsm.loc,
           'after reset the endpoint holds no data: the initial state must be the one answering NRDY (is %s)' % fsm.init)
    cex = None
    for asg in M.enum(S_nodata):
        raised = bool(M.fires(nrdy, asg))
        if raised != token(asg) and not (token(asg) and M.next_state(S_nodata, asg) == S_send) and cex is None:
            cex = asg
    OB('C46.nrdy-exact', K('send_nrdy'), cex is None, nrdy[0].loc,
           'NRDY must answer exactly the IN requests for this endpoint while no data is held; differs when %s' % (M.show(cex),))
    flags = [a for a in M.items(S_nodata) if a.domain != 'comb' and q.is_one(a.rhs) and a.lhs.op == 'sig' and
             any(q.atoms(a) == q.atoms(n) for n in nrdy)]
    FLAG = flags[0].lhs.canon() if len(flags) == 1 else None
    OB('C46.nrdy-remembered', K('nrdy-flag.set'), FLAG is not None, nrdy[0].loc,
           'a register must record that NRDY was sent (set under the send_nrdy condition): %s' % [q.fmt(a) for a in flags])
    for name, assume in (('flag', {FLAG: True} if FLAG else None), ('request-now', A(ack=True, tous=True, inreq=True))):
        if assume is None:
            continue
        outs = M.outcomes(S_nodata, assume)
        okk = set(outs) <= {None, S_erdy} and S_erdy in outs
        badd = [d for d in outs if d not in (None, S_erdy)]
        OB('C46.erdy-after-nrdy', K('no-data.exit@%s' % name), okk, fsm.state_loc[S_nodata],
               'once NRDY was sent the host stops polling: the no-data state may only be left through the ERDY state; goes to %s when %s' % (
                   badd, M.show(outs[badd[0]]) if badd else None))
    e_un = [a for a in erdy if not a.guard]
    hold = M.outcomes(S_erdy, {DONE: False})
    OB('C46.erdy-state', K('send_erdy'), len(e_un) == 1 and len(erdy) == 1 and set(hold) == {None}, erdy[0].loc,
           'send_erdy must be held, unconditionally, until handshakes_out.done: drivers %s, without done goes to %s' % (
               [q.fmt(a) for a in erdy], sorted(map(str, hold))))
    for sig, items in (('send_nrdy', nrdy), ('send_erdy', erdy)):
        st = q.state_of(items[0])
        cex = None
        for asg in M.enum(st):
            if M.fires(items, asg):
                w = M.winner(HOUT + 'endpoint_number', st, asg)
                if w is None or not is_epn(w.rhs) or (M.epn is not None and w.rhs.val != M.epn):
                    cex = (asg, w)
                    break
        OB('C46.handshake-endpoint-number', K('handshakes_out.endpoint_number@%s' % sig), cex is None, items[0].loc,
               '%s must be requested for this endpoint number: handshakes_out.endpoint_number is %s' % (
                   sig, 'not driven (0)' if cex and cex[1] is None else (q.fmt(cex[1]) if cex else None)))

    # ---- (b) the waiting state
    z_wait = [z for z in zlps if q.state_of(z) == S_wait]
    o1 = M.outcomes(S_wait, XNZ.put(A(ack=True, tous=True, inreq=True), True))
    OB('C46.wait-state', K('wait.request-with-data'), set(o1) == {S_send}, fsm.state_loc[S_wait],
           'an IN request while data is held must start the data packet: goes to %s' % sorted(map(R, o1)))
    cex = None
    n = 0
    for asg in M.enum(S_wait, XNZ.put(A(ack=True, tous=True, inreq=True), False)):
        n += 1
        if not (M.fires(z_wait, asg) and M.next_state(S_wait, asg) == S_ack) and cex is None:
            cex = asg
    OB('C46.wait-state', K('wait.request-empty'), n > 0 and cex is None, fsm.state_loc[S_wait],
           'an IN request while the read buffer is empty (a ZLP is owed) must send a ZLP and wait for its ACK; not when %s' % (M.show(cex),))
    cex = None
    for nm, assume in (('no-ack', A(ack=False)), ('other-endpoint', A(ack=True, tous=False)), ('no-request', A(ack=True, tous=True, inreq=False))):
        for asg in M.enum(S_wait, assume):
            fired = [a for a in M.fires(M.items(S_wait), asg) if a.guard]
            if (M.next_state(S_wait, asg) is not None or fired) and cex is None:
                cex = (nm, asg, fired)
    OB('C46.wait-state', K('wait.idle'), cex is None, fsm.state_loc[S_wait],
           'without an IN request for this endpoint the waiting state must do nothing: %s' % (
               (cex[0], M.show(cex[1]), [q.fmt(a) for a in cex[2]]) if cex else None,))

    # ---- ZLP / data flag
    lz = [a for a in M.items(S_wait) if a.domain != 'comb' and q.is_one(a.rhs) and a.lhs.op == 'sig' and
          any(q.atoms(a) == q.atoms(z) for z in z_wait)]
    LZ = lz[0].lhs.canon() if len(lz) == 1 else None
    OB('C46.zlp-flag', K('zlp-flag'), LZ is not None, z_wait[0].loc if z_wait else fsm.state_loc[S_wait],
           'a register must record whether the packet in flight is a ZLP (set with the ZLP of the waiting state)')
    if LZ:
        lz_all = [a for a in ir.drivers(LZ, exact=True) if a.domain != 'comb']
        cex = None
        for st in (S_wait, S_ack):
            for asg in M.enum(st):
                if st == S_ack and not accepted(asg):
                    continue
                f = [a for a in M.fires(lz_all, asg) if a.state == (fsm.id, st)]
                val = sorted(f, key=lambda a: a.order)[-1].rhs if f else None
                z = [x for x in M.fires(zlps, asg) if q.state_of(x) == st]
                if z and not (val is not None and q.is_one(val)) and cex is None:
                    cex = ('ZLP sent without setting the flag', st, asg)
                if M.next_state(st, asg) == S_send and not (val is not None and q.is_zero(val)) and cex is None:
                    cex = ('data packet started without clearing the flag', st, asg)
        OB('C46.zlp-flag', K('zlp-flag.tracks-packet'), cex is None, lz[0].loc,
               'the ZLP flag decides what a retry resends, it must follow every packet start: %s' % (
                   (cex[0], R(cex[1]), M.show(cex[2])) if cex else None,))

    # ---- (d) retry
    if LZ:
        o = M.outcomes(S_ack, A(ack=True, tous=True, retry=True, **{LZ: False}))
        OB('C46.retry-resends', K('retry.data'), set(o) == {S_send}, fsm.state_loc[S_ack],
               'a retry request for a data packet must re-enter the send state: goes to %s' % sorted(map(R, o)))
        cex = None
        for asg in M.enum(S_ack, A(ack=True, tous=True, retry=True, **{LZ: True})):
            z = [x for x in M.fires(zlps, asg) if q.state_of(x) == S_ack]
            if not (z and M.next_state(S_ack, asg) is None) and cex is None:
                cex = asg
        OB('C46.retry-resends', K('retry.zlp'), cex is None, fsm.state_loc[S_ack],
               'a retry request for a ZLP must send the ZLP again and keep waiting; not when %s' % (M.show(cex),))
    else:
        cex = None
        for asg in M.enum(S_ack, A(ack=True, tous=True, retry=True)):
            z = [x for x in M.fires(zlps, asg) if q.state_of(x) == S_ack]
            if not (z or M.next_state(S_ack, asg) == S_send) and cex is None:
                cex = asg
        OB('C46.retry-resends', K('retry.data'), cex is None, fsm.state_loc[S_ack],
               'a retry request must resend (send state or ZLP); not when %s' % (M.show(cex),))
    cex = None
    for asg in M.enum(S_ack, A(ack=True, tous=True, retry=True)):
        f = [a for a in M.fires(M.items(S_ack), asg) if a.guard and a.domain != 'comb']
        # re-writing the ZLP flag with the value it already has is not a side effect
        f = [a for a in f if not (LZ and a.lhs.canon() == LZ and LZ in asg and
                                  ((q.is_one(a.rhs) and asg[LZ]) or (q.is_zero(a.rhs) and not asg[LZ])))]
        if f and cex is None:
            cex = (asg, f)
    OB('C46.retry-keeps-state', K('retry.side-effects'), cex is None, cex[1][0].loc if cex else fsm.state_loc[S_ack],
           'a retry must not touch buffer selection, counts or flags: %s when %s' % (
               [q.fmt(a) for a in cex[1]] if cex else None, M.show(cex[0]) if cex else None))
    clr = [a for a in M.items(S_ack) if a.domain != 'comb' and a.lhs.canon() == POS and q.is_zero(a.rhs) and not a.guard]
    succ = {e.dst for e in fsm.out_edges(S_send)}
    OB('C46.restart-position', K('send-position.clear'), len(clr) == 1 and succ == {S_ack}, posr[0].loc,
           'every (re)transmission starts at word 0: the send position must be cleared unconditionally in the ACK-wait state, the only '
           'successor of the send state (successors %s)' % sorted(map(R, succ)))

    # ---- (e) header parameters
    def want_param(name, asg, state):
        if name == 'tx_sequence_number':
            return PLUS1 if advancing(state, asg) else SEQ
        if name == 'tx_endpoint_number':
            return str(M.epn) if M.epn is not None else 'self._endpoint_number'
        if name == 'tx_length':
            return Xc
        return '1'

    def param_ok(name, state, asg):
        w = M.winner(I + name, state, asg)
        want = want_param(name, asg, state)
        if w is None:
            s = ir.signals.get(I + name)
            return (name == 'tx_direction' and s is not None and s.init == 1), 'not driven'
        got = q.expand(ir, w.rhs).canon() if isinstance(w.rhs, E) else '?'
        return got == want, '%s (want %s)' % (got, want)

    for name in ('tx_sequence_number', 'tx_endpoint_number', 'tx_length', 'tx_direction'):
        cex = None
        for asg in M.enum(S_send, A(ack=False)):
            okk, got = param_ok(name, S_send, asg)
            if not okk and cex is None:
                cex = got
        OB('C46.tx-params', K('%s@send' % name), cex is None, fsm.state_loc[S_send],
               'while a data packet is sent %s must carry the %s: %s' % (name, {'tx_sequence_number': 'sequence counter',
               'tx_endpoint_number': 'endpoint number', 'tx_length': 'read-buffer fill count', 'tx_direction': 'IN direction (1)'}[name], cex))
    # the cycle in which tx.valid becomes non-zero is the cycle after a set site
    firsts = set()
    for v in vset:
        for asg in M.enum(S_send):
            if holds(v.guard, asg):
                firsts.add(M.next_state(S_send, asg) or S_send)
    cex = None
    for name in ('tx_sequence_number', 'tx_endpoint_number', 'tx_length'):
        for st in sorted(firsts):
            for asg in M.enum(st, A(ack=False)):
                okk, got = param_ok(name, st, asg)
                if not okk and cex is None:
                    cex = (st, name, got)
    OB('C46.tx-params-first-word', K('tx-params@first-valid'), cex is None, fsm.state_loc[cex[0]] if cex else fsm.state_loc[S_send],
       'the link latches sequence number, endpoint number and length in the cycle tx.valid becomes non-zero, i.e. the cycle after '
       'tx.valid is set; a one-word packet is then already in state %s where %s is %s' % (
           cex[0] if cex else None, cex[1] if cex else None, cex[2] if cex else None))
    for z in zlps:
        st = q.state_of(z)
        ctx.need(st is not None, 'tx_zlp raised inside a state')
        zr = 'wait' if st == S_wait else None
        if st == S_ack:
            pos = {a for a, p in q.atoms(z) if p}
            neg = {a for a, p in q.atoms(z) if not p}
            if RETRY in neg:
                zr = 'follow-up'
            elif any(RETRY in c for c in pos):
                zr = 'retry'
        zr = zr or 'state#%d' % fsm.states.index(st)
        cex = None
        for name in ('tx_sequence_number', 'tx_endpoint_number'):
            for asg in M.enum(st):
                if holds(z.guard, asg):
                    okk, got = param_ok(name, st, asg)
                    if not okk and cex is None:
                        cex = (name, got)
        OB('C46.zlp-params', K('tx-params@zlp-%s' % zr), cex is None, z.loc,
           'a ZLP is a data packet of this endpoint carrying the next sequence number; with this tx_zlp strobe %s is %s' % (
               cex[0] if cex else None, cex[1] if cex else None))

    # ---- (f) leaving the send state, byte-valid mask
    un = M.universe(S_send)
    casef = {}
    for c in un:
        e = M.all_leaves.get(c)
        ce = q.const_eq(e) if e is not None else None
        if ce and ce[1] == Xc + '[0:2]':
            casef[ce[0]] = c
    ctx.need(un - set(casef.values()) <= {LWc, TXR, TXZ}, 'conditions of the send state are tx.ready, any(tx.valid), the last-word test '
             'and the count mod 4: %s' % sorted(un - set(casef.values()) - {LWc, TXR, TXZ}))
    cex = None
    counts = sorted(set(range(1, min(mps, 40) + 1)) | set(range(max(1, mps - 9), mps + 1)))
    for cnt in counts:
        for p in sorted({0, 1} | {max(0, (cnt + 3) // 4 - 1 + d) for d in (-1, 0, 1, 2)}):
            try:
                got = bool(ev(LW, {POS: p, Xc: cnt}))
            except KeyError as ex:
                ctx.need(False, 'last-word test is computable from send position and count: %s' % ex)
            if got != ((p + 1) * 4 >= cnt) and cex is None:
                cex = (p, cnt, got)
    OB('C46.last-word', K('send.last-word-test'), cex is None, lw[0].e and fsm.state_loc[S_send],
           'the word at position p holds the last byte iff (p+1)*4 >= count: %s gives %s for p=%s count=%s' % (
               LWc, cex[2] if cex else None, cex[0] if cex else None, cex[1] if cex else None))
    exp = {}
    for asg in M.enum(S_send):
        go = (asg.get(TXR, False) or asg.get(TXZ, False))
        exp_dst = S_ack if (go and asg.get(LWc)) else None
        if M.next_state(S_send, asg) != exp_dst:
            exp.setdefault((M.next_state(S_send, asg), exp_dst), asg)
    OB('C46.send-exit', K('send.exit'), not exp, fsm.state_loc[S_send],
           'the send state must move to the ACK-wait state exactly when the last word is issued and the transmitter takes it '
           '(tx.ready | ~any(tx.valid)): %s' % [(R(k[0]), 'expected ' + R(k[1]), M.show(v)) for k, v in exp.items()])
    vdrv = [a for a in M.items(S_send) if a.domain != 'comb' and a.lhs.canon() == I + 'tx.valid']
    # the residues are exclusive and exhaustive: with three of the four compared, the fourth is 'none of them' (a default
    # assignment before the Switch, or m.Default)
    if set(casef) <= {0, 1, 2, 3} and len(casef) >= 3:
        for r in range(4):
            asg = {TXR: True, TXZ: False, LWc: True}
            for k_, c in casef.items():
                asg[c] = (k_ == r)
            f = sorted(M.fires(vdrv, asg), key=lambda a: a.order)
            got = f[-1].rhs.val if f and f[-1].rhs.op == 'const' else None
            OB('C46.byte-valid', K('tx.valid.last-word[count%%4=%d]' % r), got == MASK[r], f[-1].loc if f else fsm.state_loc[S_send],
                   'the last word of a packet with count mod 4 = %d has byte-valid mask %s, found %s' % (r, bin(MASK[r]), got))
    else:
        ctx.need(False, 'byte-valid mask of the last word selected by count[0:2] cases 0..3 (found %s)' % sorted(casef))
    asg = {TXR: True, TXZ: False, LWc: False}
    for c in casef.values():
        asg[c] = False
    f = sorted(M.fires(vdrv, asg), key=lambda a: a.order)
    got = f[-1].rhs.val if f and f[-1].rhs.op == 'const' else None
    OB('C46.byte-valid', K('tx.valid.inner-word'), got == 0b1111, f[-1].loc if f else fsm.state_loc[S_send],
           'every word before the last one is fully valid, found %s' % got)
    stall = {TXR: False, TXZ: False, LWc: True}
    f = [a for a in M.fires(M.items(S_send), stall) if a.guard]
    OB('C46.respect-ready', K('send.stall'), not f, f[0].loc if f else fsm.state_loc[S_send],
           'while the transmitter is not ready for the pending word nothing may advance: %s' % [q.fmt(a) for a in f])

    # ---- (g) acknowledged data
    clears = [a for a in ir.assigns if a.domain != 'comb' and a.lhs.canon() == Xc and q.is_zero(a.rhs)]
    cex = None
    for a in clears:
        st = q.state_of(a)
        if st != S_ack:
            cex = ('cleared outside the ACK-wait state', q.fmt(a))
            break
    if cex is None:
        for asg in M.enum(S_ack):
            if bool(M.fires(clears, asg)) != accepted(asg) and cex is None:
                cex = ('cleared' if M.fires(clears, asg) else 'kept', M.show(asg))
    OB('C46.release-on-accept', K('read-count.clear'), bool(clears) and cex is None, clears[0].loc if clears else fsm.state_loc[S_ack],
           'the read buffer is released (count cleared) exactly on an accepted ACK: %s' % (cex,))
    swaps = [a for a in ir.drivers(G, exact=True)]
    okw = all(isinstance(a.rhs, E) and a.rhs.canon() == '~' + G for a in swaps) and {q.state_of(a) for a in swaps} <= {S_nodata, S_ack}
    OB('C46.swap-sites', K('buffer-swap.sites'), bool(swaps) and okw, swaps[0].loc if swaps else None,
           'the ping-pong flag is only inverted, in the no-data state and in the ACK-wait state: %s' % [q.fmt(a) for a in swaps if True][:4])
    cex = None
    for asg in M.enum(S_nodata):
        sw = [a for a in M.fires(swaps, asg) if q.state_of(a) == S_nodata]
        if bool(sw) != (M.next_state(S_nodata, asg) is not None) and cex is None:
            cex = asg
    OB('C46.swap-sites', K('buffer-swap@no-data'), cex is None, fsm.state_loc[S_nodata],
           'the filled buffer becomes the read buffer exactly when the no-data state is left; differs when %s' % (M.show(cex),))
    cex = None
    for asg in M.enum(S_ack):
        sw = [a for a in M.fires(swaps, asg) if q.state_of(a) == S_ack]
        dst = M.next_state(S_ack, asg)
        if sw and not (accepted(asg) and not owed(asg)) and cex is None:
            cex = ('swap without an accepted ACK / while a ZLP is owed', asg)
        if accepted(asg) and dst == S_send and not sw and cex is None:
            cex = ('next data packet started without swapping buffers', asg)
        if accepted(asg) and dst == S_nodata and sw and cex is None:
            cex = ('buffers swapped but the endpoint claims to hold no data', asg)
    OB('C46.swap-sites', K('buffer-swap@ack-wait'), cex is None, fsm.state_loc[S_ack],
           'buffers are swapped only on an accepted ACK that owes no ZLP, and always before the next data packet: %s' % (
               (cex[0], M.show(cex[1])) if cex else None,))
    OB('C46.zlp-const', K('zlp.full-size-constant'), full_consts == {mps}, fsm.state_loc[S_ack],
           'a ZLP is owed after a packet of exactly max_packet_size=%d bytes; the count is compared with %s' % (mps, sorted(full_consts)))
    cex = None
    n = 0
    for asg in M.enum(S_ack, A(ack=True, tous=True, retry=False, seqok=True)):
        z = [x for x in M.fires(zlps, asg) if q.state_of(x) == S_ack]
        dst = M.next_state(S_ack, asg)
        if owed(asg):
            n += 1
            if not ((z and dst is None and INREQ.value(asg)) or (not z and dst == S_wait)) and cex is None:
                cex = ('ZLP owed', R(dst), bool(z), asg)
        else:
            if z and cex is None:
                cex = ('ZLP not owed but sent', R(dst), True, asg)
            if dst is None and cex is None:
                cex = ('accepted ACK leaves the endpoint waiting for another ACK', R(dst), bool(z), asg)
            if dst == S_send and not INREQ.value(asg) and cex is None:
                cex = ('data packet started without an IN request', R(dst), bool(z), asg)
    OB('C46.zlp-follow-up', K('accept.next-step'), n > 0 and cex is None, fsm.state_loc[S_ack],
           'after an accepted ACK: a full-size packet that ended the stream is followed by a ZLP (at once if requested, else via the '
           'waiting state); otherwise the state is left, to the send state only on an IN request: %s' % (
               (cex[0], 'goes to ' + cex[1], 'tx_zlp=%s' % cex[2], M.show(cex[3])) if cex else None,))
    cex = None
    for asg in M.enum(S_ack):
        if not asg.get(ACK) or not TOUS.value(asg):
            f = [a for a in M.fires(M.items(S_ack), asg) if a.guard]
            if (f or M.next_state(S_ack, asg) is not None) and cex is None:
                cex = (asg, f)
    OB('C46.ack-for-this-endpoint', K('ack-wait.idle'), cex is None, fsm.state_loc[S_ack],
           'without an ACK TP for this endpoint the ACK-wait state must do nothing: %s' % (
               (M.show(cex[0]), [q.fmt(a) for a in cex[1]][:2]) if cex else None,))

    # ---- (h) input side
    WFCc = WFC.canon()
    incw = [a for a in ir.assigns if a.domain != 'comb' and a.lhs.canon() == WFCc and not q.is_zero(a.rhs)]
    WE = None
    for a in incw:
        for at, p in q.atoms(a):
            e = M.all_leaves.get(at)
            if p and e is not None and e.op == 'arr' and e.args[0].canon() == G:
                WE = at
    ctx.need(incw and WE, 'fill count updates under the write enable of the buffer being written')
    ctx.need(any(q.guard_consts(a, 'self.stream.valid') for a in incw), 'fill count updates selected by the byte-valid mask of the word')
    for kmask, nbytes in ((1, 1), (3, 2), (7, 3), (15, 4)):
        d = [a for a in incw if q.guard_consts(a, 'self.stream.valid').get(kmask) is True]
        okk = len(d) == 1 and q.has(d[0], WE) and d[0].rhs.canon() == '%d + %s' % (nbytes, WFCc)
        OB('C46.fill-count', K('fill-count[valid=%s]' % bin(kmask)), okk, d[0].loc if d else incw[0].loc,
               'a word with byte-valid mask %s adds %d to the fill count of the buffer being written: %s' % (
                   bin(kmask), nbytes, [q.fmt(a)[:160] for a in d]))
    wen = [a for a in ir.assigns if a.lhs.canon() == WE]
    rdy = ir.drivers('self.stream.ready', exact=True)
    ctx.need(len(wen) == 1 and len(rdy) == 1 and not rdy[0].guard and not wen[0].guard, 'single drivers of stream.ready and the write enable')
    cex = None
    for v in (0, 1, 3, 7, 15):
        for r in (0, 1):
            try:
                got = bool(ev(wen[0].rhs, {'self.stream.valid': v, 'self.stream.ready': r}))
            except KeyError as ex:
                ctx.need(False, 'write enable computable from stream.valid and stream.ready: %s' % ex)
            if got != (v != 0 and r == 1) and cex is None:
                cex = (v, r)
    OB('C46.write-enable', K('write-enable'), cex is None, wen[0].loc,
       'a word is stored exactly when it is valid and accepted: %s is wrong for valid=%s ready=%s' % (
           wen[0].rhs.canon(), bin(cex[0]) if cex else None, cex[1] if cex else None))
    ends = [c for c, e in leaves_of(rdy[0].rhs, {}).items() if e.op == 'arr' and e.args[0].canon() == G and c != WFCc]
    ctx.need(len(ends) == 1, 'stream-ended flag of the buffer being written in stream.ready')
    WEND = ends[0]
    cex = None
    for w in sorted(set(range(0, min(mps, 24) + 1)) | set(range(max(0, mps - 9), mps + 1))):
        for en in (0, 1):
            try:
                got = bool(ev(rdy[0].rhs, {WFCc: w, WEND: en}))
            except KeyError as ex:
                ctx.need(False, 'stream.ready computable from fill count and end flag: %s' % ex)
            if got != (w + 4 <= mps and not en) and cex is None:
                cex = (w, en, got)
    OB('C46.stream-ready', K('stream.ready'), cex is None, rdy[0].loc,
           'stream.ready = room for a whole word (count + 4 <= %d) & stream not ended in this buffer: wrong for count=%s ended=%s' % (
               mps, cex[0] if cex else None, cex[1] if cex else None))
    es = [a for a in ir.assigns if a.domain != 'comb' and a.lhs.canon() == WEND and q.is_one(a.rhs)]
    cex = None
    for last in (0, 1):
        for v in (0, 15):
            for r in (0, 1):
                env = {'self.stream.last': last, 'self.stream.valid': v, 'self.stream.ready': r, WE: int(v != 0 and r == 1)}
                try:
                    got = any(all(bool(ev(l.e, env)) == l.pos for l in a.guard) for a in es)
                except KeyError as ex:
                    ctx.need(False, 'end-of-stream flag condition computable from the stream signals: %s' % ex)
                if got != bool(last and v and r) and cex is None:
                    cex = (last, v, r)
    OB('C46.stream-end-flag', K('stream-ended.set'), bool(es) and cex is None, es[0].loc if es else None,
       'the end-of-stream flag of the buffer is set exactly by an accepted word with last: wrong for (last, valid, ready) = %s' % (cex,))
    # leaving the no-data state: valid word that completes the packet or ends the stream
    cex = None
    out_e = fsm.out_edges(S_nodata)
    ctx.need(out_e, 'edges out of the no-data state')
    for w in sorted(set(range(0, min(mps, 16) + 1, 1)) | set(range(max(0, mps - 9), mps + 1))):
        for last in (0, 1):
            for valid in (0, 1, 3, 7, 15):
                env = {WFCc: w, 'self.stream.last': last, 'self.stream.valid': valid}
                leave = False
                for e in out_e:
                    try:
                        vals = []
                        for l in e.guard:
                            if not isinstance(l.e, E) or not (l.e.sigs() & {'self.stream.last', 'self.stream.valid'} or WFCc in l.e.canon()):
                                continue        # the ERDY-or-not choice
                            if FLAG and FLAG in l.e.sigs():
                                continue
                            vals.append(bool(ev(l.e, env)) == l.pos)
                        ctx.need(vals, 'data conditions on the edges out of the no-data state')
                        leave = leave or all(vals)
                    except KeyError as ex:
                        ctx.need(False, 'leave condition of the no-data state computable: %s' % ex)
                want = valid != 0 and (w + 4 >= mps or bool(last))
                if leave != want and cex is None:
                    cex = (w, last, valid, leave)
    OB('C46.packet-complete', K('no-data.leave-condition'), cex is None, fsm.state_loc[S_nodata],
           'the no-data state is left exactly when a valid word fills the packet (count + 4 >= %d) or carries last: wrong for '
           'count=%s last=%s valid=%s' % (mps, cex[0] if cex else None, cex[1] if cex else None, bin(cex[2]) if cex else None))


# ------------------------------------------------------------------------------------------------ the multiplexer
def check_mux(ctx):
    ir = ctx.ir('SuperSpeedEndpointMultiplexer', 'usb3.protocol.endpoint')
    SH, IF = 'self.shared.handshakes_out.', 'self._interfaces[*].handshakes_out.'
    reqs = ['send_ack', 'send_stall', 'send_nrdy', 'send_erdy']
    for req in ('send_nrdy', 'send_erdy'):
        asg = {IF + r: (r == req) for r in reqs}
        dead = []
        for lhs, rhs in ((SH + req, IF + req), (SH + 'endpoint_number', IF + 'endpoint_number'), (IF + 'done', SH + 'done')):
            ds = [a for a in ir.drivers(lhs, exact=True) if isinstance(a.rhs, E) and a.rhs.canon() == rhs]
            ctx.need(ds, 'multiplexer connection %s <= %s' % (lhs, rhs))
            if not [a for a in ds if holds(a.guard, asg) is True]:
                dead.append(ds[0])
        ctx.ob('C46.mux-forwards', 'SuperSpeedEndpointMultiplexer.handshakes_out@%s' % req, not dead, dead[0].loc if dead else None,
               'an endpoint raising only %s must reach the transaction packet generator with its endpoint number and get done back; '
               'not connected then: %s (connected only when %s)' % (
                   req, [a.lhs.canon().split('.')[-1] for a in dead], ' & '.join(l.canon() for l in dead[0].guard) if dead else ''))
