"""C56 -- the ILA captures exactly the samples following a trigger."""
from ..ir import E
from .. import q
from ..fsm import state_outcomes

TITLE = 'ILA capture window, completion and read-back wiring'
FLOOR = 30
DECIDES = ('On IntegratedLogicAnalyzer, roles found through the sample memory (its write port, the read port feeding '
           'captured_sample) and the only FSM (initial state = idle): '
           '(a) for each concrete sample_depth of a sweep (powers of two and not) the control skeleton -- FSM, the '
           'registers and combinational signals in the cone of write-port en/addr, complete and sampling, with the declared '
           'widths (truncation on assignment) and last-assignment-wins -- is explored exhaustively over every trigger '
           'sequence from reset: from every reachable quiescent state a trigger produces writes to addresses '
           '0,1,..,depth-1 in consecutive cycles, the first one in the cycle after the trigger, and nothing else; the '
           'observable trace (en, addr, complete, sampling) of a capture is the same for every trigger pattern during '
           'it; complete is low up to and including the last write cycle, high afterwards and never falls without a '
           'trigger; sampling is high in every write cycle and low when quiescent; without a trigger a quiescent ILA '
           'stays quiescent; the position counter / captured_sample_number ranges and the memory depth hold sample_depth; '
           '(b) symbolically in sample_depth: nothing that steers the capture inside a non-idle state reads trigger '
           '(through combinational definitions), the idle state leaves exactly on trigger, and every return to idle / '
           'raise of complete depends on both the write-address counter and sample_depth; '
           '(c) wiring: the write port of the sample memory and the read port that feeds captured_sample belong to one '
           'memory that is a registered submodule, the write port is clocked in the FSM domain, the read address is '
           'captured_sample_number and captured_sample is that read port\'s data, unconditionally; the write data is '
           'self.inputs delayed by exactly samples_pretrigger register stages (0, 1 and FFSynchronizer(stages=n)). ')
NOT_DECIDED = ('sample contents / memory width (len(Cat(*signals)) is symbolic), the read latency of the synchronous read '
               'port, the DomainRenamer wrapping, and the serial / stream front ends that drive captured_sample_number.')

CLS, MOD = 'IntegratedLogicAnalyzer', 'debug.ila'
TRIG = 'self.trigger'
QUICK_DEPTHS = (2, 5, 8)
THOROUGH_DEPTHS = tuple(range(1, 35)) + (63, 64, 65, 100, 128, 255, 256, 257)
MAX_FRONTIER = 64


# ------------------------------------------------------------------------------------------------ anchors (roles)
class Roles:
    """The sample memory, its ports and the FSM, found by what they are connected to."""

    def __init__(self, ctx, ir):
        self.ir = ir
        self.fsm = ctx.the_fsm(ir)
        self.idle = self.fsm.init
        ctx.need(self.idle is not None and len(self.fsm.states) >= 2, 'ILA FSM with an idle and a sampling state')
        mems = [m for m in ir.memories if any(p.port_kind == 'write_port' for p in getattr(m, 'ports', []))]
        ctx.need(len(mems) == 1, 'exactly one memory with a write port in %s (found %d)' % (CLS, len(mems)))
        self.mem = mems[0]
        wps = [p for p in self.mem.ports if p.port_kind == 'write_port']
        ctx.need(len(wps) == 1, 'exactly one write port on the sample memory (found %d)' % len(wps))
        self.wport = wps[0]
        self.en = self.wport.path + '.en'
        self.addr = self.wport.path + '.addr'
        self.data = self.wport.path + '.data'
        for n in (self.en, self.addr, self.data):
            ctx.need(ir.drivers(n, exact=True), 'driver of the write port signal %s' % n)
        # every read port of any memory, by the name of its data signal
        self.rports = {p.path + '.data': p for m in ir.memories for p in getattr(m, 'ports', [])
                       if p.port_kind == 'read_port'}

    def alias(self, e):
        """Follow unconditional combinational aliases of plain signals."""
        for _ in range(8):
            if isinstance(e, E) and e.op == 'sig':
                d = q.comb_def(self.ir, e.args[0].name)
                if d is not None and isinstance(d, E):
                    e = d
                    continue
            break
        return e

    def position(self, ctx):
        """The register that addresses the write port."""
        d = q.comb_def(self.ir, self.addr)
        ctx.need(d is not None, 'single unconditional combinational driver of the write address')
        e = self.alias(d)
        ctx.need(isinstance(e, E) and e.op == 'sig', 'write address is a plain counter register (found %s)' %
                 (e.canon() if isinstance(e, E) else e))
        return e.args[0].name


def control_cone(ctx, ir, fsm, roots):
    """Signals the capture control depends on: roots + FSM edge guards, closed under all drivers (rhs and guards)."""
    seen = set()
    work = list(roots)
    for e in fsm.edges:
        for l in e.guard:
            if isinstance(l.e, E):
                work += list(l.e.sigs())
    while work:
        s = work.pop()
        if s in seen:
            continue
        seen.add(s)
        for a in ir.drivers(s, exact=True):
            if isinstance(a.rhs, E):
                work += list(a.rhs.sigs())
            for l in a.guard:
                if isinstance(l.e, E):
                    work += list(l.e.sigs())
    return seen


# ------------------------------------------------------------------------------------------------ concrete model
class Model:
    """Cycle-accurate evaluation of the control skeleton of one concrete configuration."""

    def __init__(self, ctx, roles, depth):
        self.ctx, self.r, self.ir, self.fsm, self.depth = ctx, roles, roles.ir, roles.fsm, depth
        ir, fsm = self.ir, self.fsm
        self.obs_names = (roles.en, roles.addr, 'self.complete', 'self.sampling')
        for n in ('self.complete', 'self.sampling'):
            ctx.need(ir.drivers(n, exact=True), 'driver of %s' % n)
        self.cone = control_cone(ctx, ir, fsm, self.obs_names)
        self.regs, self.combs, self.inputs = [], [], []
        for s in sorted(self.cone):
            ds = ir.drivers(s, exact=True)
            if not ds:
                self.inputs.append(s)
                continue
            for a in ds:
                ctx.need(isinstance(a.lhs, E) and a.lhs.op == 'sig' and isinstance(a.rhs, E),
                         'whole-signal assignment in the capture control: %s' % q.fmt(a))
                ctx.need(not a.states or tuple(a.states) == (a.state,), 'no nested FSM in the capture control: %s' % q.fmt(a))
                ctx.need(a.state is None or a.state[0] == fsm.id, 'single FSM in the capture control: %s' % q.fmt(a))
            doms = {a.domain for a in ds}
            ctx.need(len(doms) == 1, 'signal %s driven from one domain (found %s)' % (s, sorted(doms)))
            dom = doms.pop()
            if dom == 'comb':
                self.combs.append(s)
            else:
                ctx.need(dom == fsm.domain, 'capture control register %s is clocked in the FSM domain %s (found %s)' % (
                    s, fsm.domain, dom))
                self.regs.append(s)
        extra = [s for s in self.inputs if s != TRIG]
        ctx.need(not extra, 'the capture control depends only on the trigger input; also reads %s' % extra)
        self.memo = {}

    # -- widths
    def w(self, name):
        si = self.ir.signals.get(name)
        if si is not None and si.w is not None:
            return si.w
        if name == self.r.en:
            return 1
        if name == self.r.addr:
            return max(self.depth - 1, 0).bit_length()
        self.ctx.need(False, 'width of %s' % name)

    def init(self, name):
        si = self.ir.signals.get(name)
        v = si.init if si is not None else None
        if v is None:
            return 0
        self.ctx.need(isinstance(v, int), 'integer reset value of %s' % name)
        return v

    def width_of(self, e):
        op = e.op
        if op == 'sig':
            return self.w(e.args[0].name)
        if op == 'const':
            return e.w if e.w is not None else max(int(e.val).bit_length(), 1)
        if op in ('==', '!=', '<', '<=', '>', '>=', 'ongoing'):
            return 1
        if op in ('~', '&', '|', '^', 'mux'):
            args = e.args[1:] if op == 'mux' else e.args
            return max(self.width_of(a) for a in args)
        if op == 'slice':
            return e.args[2] - e.args[1]
        if op == '+':
            return max(self.width_of(a) for a in e.args) + len(e.args) - 1
        if op == 'cat':
            return sum(self.width_of(a) for a in e.args)
        self.ctx.need(False, 'width of expression %s' % e.canon())

    # -- evaluation
    def ev(self, e, get, st):
        need = self.ctx.need
        need(isinstance(e, E), 'expression in the capture control: %r' % (e,))
        op = e.op
        if op == 'const':
            need(isinstance(e.val, int), 'integer constant %r' % (e.val,))
            return int(e.val)
        if op == 'sig':
            return get(e.args[0].name)
        if op == 'ongoing':
            need(e.args[0] == self.fsm.id and e.args[1] in self.fsm.states, 'fsm.ongoing of a known state: %s' % e.canon())
            return int(st == e.args[1])
        vals = None
        if op in ('&', '|', '^', '+', '*', '-', '==', '!=', '<', '<=', '>', '>=', '<<', '>>', 'neg', '~', 'mux'):
            vals = [self.ev(a, get, st) for a in e.args]
        if op == '~':
            return ~vals[0] & ((1 << self.width_of(e.args[0])) - 1)
        if op == 'neg':
            return -vals[0]
        if op in ('&', '|', '^', '+', '*'):
            acc = vals[0]
            for v in vals[1:]:
                acc = {'&': acc & v, '|': acc | v, '^': acc ^ v, '+': acc + v, '*': acc * v}[op]
            return acc
        if vals is not None and len(vals) == 2:
            a, b = vals
            if op == '-':
                return a - b
            if op == '<<':
                return a << b
            if op == '>>':
                return a >> b
            return int({'==': a == b, '!=': a != b, '<': a < b, '<=': a <= b, '>': a > b, '>=': a >= b}[op])
        if op == 'mux':
            return vals[1] if vals[0] else vals[2]
        if op == 'slice':
            inner, lo, hi = e.args
            need(isinstance(lo, int) and isinstance(hi, int), 'constant slice bounds: %s' % e.canon())
            return (self.ev(inner, get, st) >> lo) & ((1 << (hi - lo)) - 1)
        if op == 'cat':
            acc, sh = 0, 0
            for a in e.args:
                wa = self.width_of(a)
                acc |= (self.ev(a, get, st) & ((1 << wa) - 1)) << sh
                sh += wa
            return acc
        need(False, 'operator %s in the capture control: %s' % (op, e.canon()))

    def active(self, item, get, st):
        if item.state is not None and item.state[1] != st:
            return False
        for l in item.guard:
            self.ctx.need(l.kind != 'cfg', 'configuration condition folds in the capture control: %s' % l.canon())
            if bool(self.ev(l.e, get, st)) != l.pos:
                return False
        return True

    def step(self, state, trig):
        """(next state, observation) of one clock cycle; state = (fsm state, register values)."""
        key = (state, trig)
        if key in self.memo:
            return self.memo[key]
        st, regvals = state
        cur = dict(zip(self.regs, regvals))
        comb, busy = {}, set()

        def get(name):
            if name in cur:
                return cur[name]
            if name == TRIG:
                return trig
            if name in comb:
                return comb[name]
            self.ctx.need(name in self.combs, 'signal %s inside the control cone' % name)
            self.ctx.need(name not in busy, 'no combinational loop through %s' % name)
            busy.add(name)
            v = self.init(name)
            mask = (1 << self.w(name)) - 1
            for a in sorted(self.ir.drivers(name, exact=True), key=lambda a: a.order):
                if self.active(a, get, st):
                    v = self.ev(a.rhs, get, st) & mask
            busy.discard(name)
            comb[name] = v
            return v
        nxt = []
        for r in self.regs:
            v = cur[r]
            mask = (1 << self.w(r)) - 1
            for a in sorted(self.ir.drivers(r, exact=True), key=lambda a: a.order):
                if self.active(a, get, st):
                    v = self.ev(a.rhs, get, st) & mask
            nxt.append(v)
        nst = st
        for e in sorted(self.fsm.out_edges(st), key=lambda e: e.order):
            if self.active(e, get, st):
                self.ctx.need(isinstance(e.dst, str) and e.dst in self.fsm.states, 'constant m.next target: %s' % q.fmt(e))
                nst = e.dst
        obs = tuple(get(n) for n in self.obs_names)
        res = ((nst, tuple(nxt)), obs)
        self.memo[key] = res
        return res

    def reset_state(self):
        return (self.fsm.init, tuple(self.init(r) & ((1 << self.w(r)) - 1) for r in self.regs))

    def reachable(self):
        s0 = self.reset_state()
        seen, work = {s0}, [s0]
        while work:
            s = work.pop()
            for t in (0, 1):
                n = self.step(s, t)[0]
                if n not in seen:
                    seen.add(n)
                    work.append(n)
            self.ctx.need(len(seen) < 200000, 'small control state space')
        return seen

    def show(self, state):
        return '%s{%s}' % (state[0], ', '.join('%s=%d' % (n, v) for n, v in zip(self.regs, state[1])))


def check_depth(ctx, depth):
    tag = 'depth=%d' % depth
    ir = ctx.ir(CLS, MOD, sample_depth=depth)
    r = Roles(ctx, ir)
    m = Model(ctx, r, depth)
    fsm, idle = r.fsm, r.idle
    EN, ADDR, COMPLETE, SAMPLING = range(4)

    def obs(s, t):
        return m.step(s, t)[1]

    def quiescent(s):
        return s[0] == idle and obs(s, 0)[EN] == 0 and obs(s, 1)[EN] == 0

    states = m.reachable()
    starts = sorted(s for s in states if quiescent(s))
    ctx.need(starts, 'a quiescent state (idle, write enable low) is reachable from reset')
    fail = {k: None for k in ('idle', 'count', 'latency', 'immune', 'complete', 'sampling')}

    def flag(k, msg):
        if fail[k] is None:
            fail[k] = msg
    for s in starts:
        n0 = m.step(s, 0)[0]
        if not quiescent(n0):
            flag('idle', 'from %s the ILA becomes active without a trigger (-> %s)' % (m.show(s), m.show(n0)))
        if obs(s, 0)[COMPLETE] == 1 and obs(n0, 0)[COMPLETE] == 0:
            flag('idle', 'from %s complete falls without a trigger' % m.show(s))
        if obs(s, 0)[SAMPLING] != 0:
            flag('sampling', 'sampling is high in the quiescent state %s' % m.show(s))
        # one capture: the canonical run keeps trigger low after the triggering cycle; `frontier` holds the states reached by all
        # other trigger patterns and must stay observationally equal to it until the capture is over
        canon = m.step(s, 1)[0]
        frontier = {canon}
        trace = []          # per cycle k >= 1: observation of the canonical run
        ended = False
        for k in range(1, 3 * depth + 10):
            oc = obs(canon, 0)
            os_ = {obs(c, t) for c in frontier for t in (0, 1)}
            qs = {quiescent(c) for c in frontier}
            if os_ != {oc} or qs != {quiescent(canon)}:
                flag('immune', 'capture started from %s: in cycle %d after the trigger the outputs (en, addr, complete, '
                     'sampling) depend on trigger activity during the capture: %s in states %s' % (
                         m.show(s), k, sorted(os_), sorted(m.show(c) for c in frontier)[:4]))
                frontier = {canon}
            if quiescent(canon):
                ended = True
                break
            trace.append(oc)
            frontier = {m.step(c, t)[0] for c in frontier for t in (0, 1)}
            ctx.need(len(frontier) <= MAX_FRONTIER, 'small set of control states per capture cycle')
            canon = m.step(canon, 0)[0]
        if not ended:
            flag('count', 'capture started from %s does not end within %d cycles' % (m.show(s), 3 * depth + 9))
            continue
        writes = [(k + 1, o[ADDR]) for k, o in enumerate(trace) if o[EN]]
        addrs = [a for _, a in writes]
        cyc = [c for c, _ in writes]
        consecutive = bool(cyc) and cyc == list(range(cyc[0], cyc[0] + len(cyc)))
        if addrs != list(range(depth)) or not consecutive:
            flag('count', 'capture started from %s writes addresses %s in cycles %s after the trigger; expected '
                 'addresses 0..%d in consecutive cycles' % (m.show(s), _short(addrs), _short(cyc), depth - 1))
        if not cyc or cyc[0] != 1:
            flag('latency', 'capture started from %s: first write in cycle %s after the trigger, expected cycle 1 (the '
                 'sample presented in the cycle after the trigger strobe)' % (m.show(s), cyc[0] if cyc else 'none'))
        if cyc:
            early = [k + 1 for k, o in enumerate(trace) if k + 1 <= cyc[-1] and o[COMPLETE]]
            if early:
                flag('complete', 'capture started from %s: complete is high in cycle(s) %s, the last write is in cycle %d' % (
                    m.show(s), _short(early), cyc[-1]))
            nos = [k + 1 for k, o in enumerate(trace) if o[EN] and not o[SAMPLING]]
            if nos:
                flag('sampling', 'capture started from %s: sampling is low in write cycle(s) %s' % (m.show(s), _short(nos)))
        # after the capture: complete within two cycles, as long as no new trigger arrives
        ends = {canon}
        for _ in range(2):
            ends = {m.step(c, 0)[0] for c in ends}
        late = [c for c in ends if obs(c, 0)[COMPLETE] != 1]
        if late:
            flag('complete', 'capture started from %s: complete is not raised after the capture (%s)' % (
                m.show(s), m.show(late[0])))
    loc = fsm.loc
    ctx.ob('C56.no-activity-without-trigger', '%s.quiescent[%s]' % (CLS, tag), fail['idle'] is None, fsm.state_loc.get(idle, loc),
           fail['idle'] or 'a quiescent ILA stays quiescent and keeps complete while trigger is low')
    ctx.ob('C56.capture-count', '%s.writes[%s]' % (CLS, tag), fail['count'] is None, loc,
           fail['count'] or 'every capture writes addresses 0..%d once, in consecutive cycles' % (depth - 1))
    ctx.ob('C56.capture-latency', '%s.first-write[%s]' % (CLS, tag), fail['latency'] is None, loc,
           fail['latency'] or 'first write one cycle after the trigger')
    ctx.ob('C56.trigger-immunity', '%s.capture-ignores-trigger[%s]' % (CLS, tag), fail['immune'] is None, loc,
           fail['immune'] or 'no trigger during a capture changes the capture')
    ctx.ob('C56.complete', '%s.complete[%s]' % (CLS, tag), fail['complete'] is None, loc,
           fail['complete'] or 'complete low during the capture, high after it')
    ctx.ob('C56.sampling', '%s.sampling[%s]' % (CLS, tag), fail['sampling'] is None, loc,
           fail['sampling'] or 'sampling high in write cycles, low when quiescent')
    # ranges that must hold sample_depth
    pos = r.position(ctx)
    for role, name in (('position', pos), ('captured_sample_number', 'self.captured_sample_number')):
        si = ir.signals.get(name)
        ctx.need(si is not None, 'declaration of %s' % name)
        ok = si.w is not None and (1 << si.w) >= depth and (not isinstance(si.rng, tuple) or si.rng[0] == 'sym' or
                                                            (si.rng[0] <= 0 and si.rng[1] >= depth))
        ctx.ob('C56.range', '%s.%s.range[%s]' % (CLS, role, tag), ok, si.loc,
               '%s (width %s, range %s) must address %d samples' % (name, si.w, si.rng, depth))
    md = r.mem.depth
    ctx.ob('C56.range', '%s.buffer.depth[%s]' % (CLS, tag), isinstance(md, int) and md >= depth, r.mem.loc,
           'the sample memory (depth %r) must hold sample_depth = %d samples' % (md, depth))
    return len(states)


def _short(xs):
    xs = list(xs)
    return str(xs) if len(xs) <= 12 else '%s..%s (%d)' % (xs[:6], xs[-3:], len(xs))


# ------------------------------------------------------------------------------------------------ symbolic clauses
def check_symbolic(ctx):
    ir = ctx.ir(CLS, MOD)
    r = Roles(ctx, ir)
    fsm, idle = r.fsm, r.idle
    pos = r.position(ctx)
    cone = control_cone(ctx, ir, fsm, (r.en, r.addr, 'self.complete', 'self.sampling'))
    ctx.need(TRIG in cone, 'the capture control reads self.trigger')

    def reads(item):
        out = set()
        for l in item.guard:
            if isinstance(l.e, E):
                out |= q.support(ir, l.e)
        if item.kind == 'assign' and isinstance(item.rhs, E):
            out |= q.support(ir, item.rhs)
        return out
    steering = list(fsm.edges) + [a for a in ir.assigns if a.state and a.state[0] == fsm.id and
                                  any(t in cone for t in a.lhs_sigs())]
    bad = [i for i in steering if i.state[1] != idle and TRIG in reads(i)]
    ctx.ob('C56.trigger-scope', '%s.trigger.readers' % CLS, not bad, bad[0].loc if bad else fsm.loc,
           'self.trigger may steer the capture only in the idle state; read during sampling by: %s' % [q.fmt(b) for b in bad[:3]])
    # the idle state leaves exactly on trigger
    ctx.need(fsm.out_edges(idle), 'an edge out of the idle state')
    go = state_outcomes(fsm, idle, {TRIG: True})
    stay = state_outcomes(fsm, idle, {TRIG: False})
    ctx.ob('C56.start', '%s.idle.exit-on-trigger' % CLS, None not in go and idle not in go, fsm.state_loc.get(idle),
           'a trigger in the idle state must start sampling whatever else holds: outcomes %s' % sorted(map(str, go)))
    ctx.ob('C56.start', '%s.idle.hold-without-trigger' % CLS, set(stay) == {None}, fsm.state_loc.get(idle),
           'the idle state must hold while trigger is low: outcomes %s' % sorted(map(str, stay)))
    # the end of the capture is decided by the write counter and the configured depth
    back = [e for e in fsm.edges if e.dst == idle and e.src != idle]
    ctx.need(back, 'an edge back to the idle state')

    def by_depth(item):
        rd = reads(item)
        return pos in rd and 'self.sample_depth' in rd
    loose = [e for e in back if not by_depth(e)]
    ctx.ob('C56.stop', '%s.sampling-exit' % CLS, not loose, (loose or back)[0].loc,
           'returning to idle must be decided by the write position (%s) and sample_depth: %s' % (
               pos, [q.fmt(e) for e in loose[:3]]))
    rc = q.raises(ir, 'self.complete')
    ctx.need(rc, 'a site raising complete')
    loose = []
    for a in rc:
        st = a.state[1] if a.state is not None and a.state[0] == fsm.id else None
        entries = [e for e in fsm.in_edges(st) if e.src != st] if st is not None else []
        if not (st is not None and st != idle and (by_depth(a) or (entries and all(by_depth(e) for e in entries)))):
            loose.append(a)
    ctx.ob('C56.stop', '%s.complete.raise' % CLS, not loose, (loose or rc)[0].loc,
           'complete must be raised outside the idle state and only under (or after) a comparison of the write '
           'position (%s) with sample_depth: %s' % (pos, [q.fmt(a) for a in loose[:3]]))


# ------------------------------------------------------------------------------------------------ wiring
def check_wiring(ctx):
    ir = ctx.ir(CLS, MOD)
    r = Roles(ctx, ir)
    fsm = r.fsm
    # read side
    cs = q.comb_def(ir, 'self.captured_sample')
    src = r.alias(cs) if cs is not None else None
    rp = r.rports.get(src.canon()) if isinstance(src, E) and src.op == 'sig' else None
    cd = ir.drivers('self.captured_sample', exact=True)
    ctx.ob('C56.read-wiring', '%s.captured_sample' % CLS, rp is not None, cd[0].loc if cd else None,
           'captured_sample must be, unconditionally, the data of a memory read port: %s' % [q.fmt(a) for a in cd])
    ctx.need(rp is not None, 'the read port feeding captured_sample')
    ctx.ob('C56.read-wiring', '%s.read-port.same-memory' % CLS, rp.memory is r.mem, rp.loc,
           'the read port feeding captured_sample and the capture write port must belong to the same memory')
    ra = q.comb_def(ir, rp.path + '.addr')
    ra = r.alias(ra) if ra is not None else None
    rd = ir.drivers(rp.path + '.addr', exact=True)
    ctx.ob('C56.read-wiring', '%s.read-port.addr' % CLS, isinstance(ra, E) and ra.canon() == 'self.captured_sample_number',
           rd[0].loc if rd else rp.loc, 'the read address must be captured_sample_number, unconditionally: %s' % [q.fmt(a) for a in rd])
    ren = ir.drivers(rp.path + '.en', exact=True)
    ctx.ob('C56.read-wiring', '%s.read-port.en' % CLS, all(a.rhs.is_const(1) and not a.guard and a.state is None for a in ren),
           ren[0].loc if ren else rp.loc, 'the read port must stay enabled: %s' % [q.fmt(a) for a in ren])
    # memory registered, write port clocked with the FSM
    ctx.ob('C56.buffer', '%s.buffer.submodule' % CLS, any(s.obj is r.mem for s in ir.submodules), r.mem.loc,
           'the sample memory must be added to m.submodules')
    wd = r.wport.kwargs.get('domain', 'sync')
    ctx.ob('C56.buffer', '%s.write-port.domain' % CLS, wd == fsm.domain, r.wport.loc,
           'the write port (domain %r) must be clocked in the domain of the capture FSM (%r)' % (wd, fsm.domain))


def data_delay(ctx, pre):
    """Number of register stages between self.inputs and the write data."""
    ir = ctx.ir(CLS, MOD, samples_pretrigger=pre)
    r = Roles(ctx, ir)
    inputs = ir.self_obj.attrs.get('inputs') if ir.self_obj is not None else None
    ctx.need(isinstance(inputs, E), 'self.inputs (Cat of the observed signals)')
    want = inputs.canon()
    e = q.comb_def(ir, r.data)
    ctx.need(e is not None, 'single unconditional combinational driver of the write data')
    delay, why, loc = 0, None, ir.drivers(r.data, exact=True)[0].loc
    for _ in range(64):
        if e.canon() == want:
            break
        if e.op != 'sig':
            why = 'the write data is %s, not a delayed copy of self.inputs' % e.canon()
            break
        name = e.args[0].name
        ds = ir.drivers(name, exact=True)
        if len(ds) != 1 or ds[0].guard or ds[0].state is not None or ds[0].lhs.op != 'sig' or not isinstance(ds[0].rhs, E):
            why = '%s must have one unconditional whole-signal driver: %s' % (name, [q.fmt(a) for a in ds])
            break
        a = ds[0]
        loc = a.loc
        if a.domain == 'comb':
            e = a.rhs
        elif getattr(a, 'synchronizer', False):
            ffs = [s.obj for s in ir.submodules if getattr(s.obj, 'ext_class', None) == 'FFSynchronizer' and
                   s.obj.loc is not None and str(s.obj.loc) == str(a.loc)]
            if len(ffs) != 1 or a.rhs.op != 'call' or a.rhs.args[0] != 'ffsync' or a.domain != 'sync:' + r.fsm.domain:
                why = 'synchronizer driving %s must be a registered submodule in the capture domain: %s' % (name, q.fmt(a))
                break
            st = ffs[0].kwargs.get('stages', ffs[0].args[2] if len(ffs[0].args) > 2 else 2)
            if not isinstance(st, int):
                why = 'FFSynchronizer stages do not fold to a number: %r' % (st,)
                break
            delay += st
            e = a.rhs.args[1]
        elif a.domain == r.fsm.domain:
            delay += 1
            e = a.rhs
        else:
            why = '%s is registered in domain %s, the capture runs in %s' % (name, a.domain, r.fsm.domain)
            break
    else:
        why = 'delay chain too long'
    ctx.ob('C56.pretrigger-delay', '%s.write-data.delay[pre=%d]' % (CLS, pre), why is None and delay == pre, loc,
           why or 'the write data is self.inputs delayed by %d stage(s); samples_pretrigger is %d' % (delay, pre))


def check_front_end(ctx):
    """The stream front end reads the capture back while the core analyzer sits idle -- and an idle core accepts a trigger.
    A trigger passed through during the read-back restarts the capture and overwrites the buffer under the reader, so the
    core's trigger may be driven only in the front end's own idle state (the state it leaves on a trigger)."""
    C = 'StreamILA'
    ir = ctx.ir(C, MOD, allow_opaque=True)
    fsm = ctx.the_fsm(ir)
    core = [s.name for s in ir.submodules if getattr(getattr(s, 'obj', None), 'clsname', None) == CLS]
    # the core is created in the constructor and kept as an attribute: find its trigger port by the driver of <x>.trigger
    trg = [a for a in ir.assigns if a.lhs.canon().endswith('.trigger') and a.lhs.canon() != TRIG and a.rhs is not None and not q.is_zero(a.rhs)]
    ctx.need(trg, 'the statement that passes the trigger on to the core analyzer in %s' % C)
    leaves_on_trigger = {e.src for e in fsm.edges if q.has(e, TRIG)}
    def in_idle(a):
        if q.state_of(a) == fsm.init:
            return True
        # written outside the FSM but qualified with `fsm.ongoing(idle)`
        return any(p and x == 'ongoing(%s:%s)' % (fsm.id, fsm.init) for x, p in q.atoms(q.fold(ir, a)))
    bad = [a for a in trg if not in_idle(a) or fsm.init not in leaves_on_trigger]
    ctx.ob('C56.front-end-trigger', C + '.core-trigger', not bad, (bad[0] if bad else trg[0]).loc,
           'the core analyzer may be triggered only from the idle state of the stream front end (while a capture is read back the '
           'core is idle and would start over, overwriting the samples being read): %s' % [q.fmt(a) for a in bad])


def check_spi_front_end(ctx):
    """The SPI front end presents word 0 of a transaction while chip select is still low: the read pointer that addresses
    the sample memory must therefore sit at 0 whenever the bus is idle, whatever the previous transaction left behind."""
    C = 'SyncSerialILA'
    ir = ctx.ir(C, MOD, allow_opaque=True)
    ptr = [a for a in ir.assigns if a.lhs.canon().endswith('.captured_sample_number') and isinstance(a.rhs, E) and a.rhs.op == 'sig']
    ctx.need(len(ptr) == 1, 'the read pointer handed to the core analyzer in %s' % C)
    P = ptr[0].rhs.canon()
    CS = 'self.spi.cs'
    pd = ir.drivers(P, exact=True)
    ctx.need(pd, 'writers of the read pointer %s' % P)
    # truth table over the conditions of its writers with chip select low: the last firing assignment must be the constant 0
    from ..fsm import lit_atoms, assignments, holds
    ats = sorted({x for a in pd for l in a.guard for x in lit_atoms(l)} | {CS})
    bad = None
    for asg in assignments(ats, {CS: False}):
        fire = sorted([a for a in pd if holds(a.guard, asg)], key=lambda a: a.order)
        if not fire or not q.is_zero(fire[-1].rhs):
            bad = ({k: v for k, v in asg.items() if k != CS}, q.fmt(fire[-1]) if fire else 'no assignment (the pointer keeps its value)')
            break
    ctx.ob('C56.front-end-pointer', C + '.read-pointer@idle', bad is None, pd[0].loc,
           'while chip select is low the read pointer must return to sample 0 (word 0 of the next transaction is fetched before '
           'chip select rises): with %s it is decided by %s' % (bad and bad[0], bad and bad[1]))


def run(ctx):
    check_symbolic(ctx)
    check_front_end(ctx)
    check_spi_front_end(ctx)
    check_wiring(ctx)
    depths = QUICK_DEPTHS if ctx.tier != 'thorough' else tuple(sorted(set(QUICK_DEPTHS + THOROUGH_DEPTHS)))
    total = 0
    for d in depths:
        total += check_depth(ctx, d)
    ctx.note('control states explored over %d depths: %d' % (len(depths), total))
    for pre in ((0, 1, 2) if ctx.tier != 'thorough' else (0, 1, 2, 3, 4, 7)):
        data_delay(ctx, pre)
