"""C01 -- USB2 tokens are reported iff well-formed and addressed to the device."""
from ..ir import E
from .. import q
from ..fsm import must_exit, state_outcomes, reaches, find_path, reachable

TITLE = 'USB2 token detection'
FLOOR = 20
DECIDES = ('On USBTokenDetector: (a) packet-end discipline -- every non-initial state returns to the initial state on every '
           'path when rx_active is low; (b) must-pass-through -- every path from the initial state to the reporting state '
           'uses the edge guarded by the PID check-nibble test (rx_data[0:4] == ~rx_data[4:8]) with a token PID class '
           '(xx01 or PING 0100), then exactly two rx_valid byte edges, the second guarded by the CRC5 comparison of '
           'Cat(first byte, low 3 bits) against rx_data[3:8] (the CRC equations themselves: C30); (c) new_token is raised only '
           'at packet end (~rx_active) in the reporting state, for non-SOF PIDs, under address == token_data[0:7] when '
           'filtering; new_frame only at packet end for PID == SOF (0101) with no address condition; (d) a further byte in '
           'the reporting state (over-long token) leads to a state that cannot report before the next packet; (e) outputs: pid '
           '<- captured PID, Cat(address[7], endpoint[4]) <- token_data, frame <- token_data (11 bits), the captured fields '
           'come from rx_data in the right states; is_in/out/setup/ping decode 1001/0001/1101/0100; (f) strobes default to 0 '
           'every cycle. ')
NOT_DECIDED = 'timing of ready_for_response (C05); the CRC5 equations (C30).'
RXA, RXV = 'self.utmi.rx_active', 'self.utmi.rx_valid'
PIDCHK = 'self.utmi.rx_data[0:4] == ~self.utmi.rx_data[4:8]'


def run(ctx):
    for filt in ((True, False) if ctx.tier == 'thorough' else (True,)):
        check(ctx, filt)


def check(ctx, filt):
    tag = '' if filt else '[nofilter]'
    ir = ctx.ir('USBTokenDetector', 'usb2.packet', filter_by_address=filt)
    fsm = ctx.the_fsm(ir)
    init = fsm.init
    nt = q.raises(ir, 'self.interface.new_token')
    nf = q.raises(ir, 'self.interface.new_frame')
    ctx.need(len(nt) == 1 and len(nf) == 1, 'new_token / new_frame raise sites')
    R = q.state_of(nt[0])
    ctx.need(R is not None and q.state_of(nf[0]) == R, 'token and frame are reported in the same state')
    # (a)
    for s in fsm.states:
        if s == init:
            continue
        ok, cex = must_exit(fsm, s, {RXA: False}, targets={init})
        ctx.ob('C01.packet-end', 'USBTokenDetector.%s%s' % (_role(fsm, s, R), tag), ok, fsm.state_loc[s],
               'state %s must return to %s whenever rx_active is low: %s' % (s, init, cex))
    # a rejected or finished packet must be ignored until it ends: the initial state (which re-arms on rx_active)
    # may only be entered when rx_active is low
    for e in fsm.in_edges(init):
        ctx.ob('C01.idle-only-at-packet-end', 'USBTokenDetector.%s->init%s' % (_role(fsm, e.src, R), tag), (RXA, False) in q.atoms(e), e.loc,
               'returning to the initial state while the packet is still in progress lets its remaining bytes be parsed as a new token: %s' % q.fmt(e))
    # (b)
    first = {e.dst for e in fsm.out_edges(init)}
    ctx.need(len(first) == 1, 'the PID state (successor of the initial state)')
    pid_state = first.pop()
    pid_edges = [e for e in fsm.out_edges(pid_state) if e.dst != init and (e.dst == R or reaches(fsm, e.dst, R, avoid={init}))]
    ctx.need(len(pid_edges) == 1, 'the edge that accepts a token PID')
    pe = pid_edges[0]
    ctx.ob('C01.pid-check', 'USBTokenDetector.pid-edge.check-nibble' + tag, q.has(pe, PIDCHK), pe.loc,
           'a token PID is accepted only if its check nibble is the complement of the PID (%s): %s' % (PIDCHK, q.fmt(pe)))
    p = find_path(fsm, init, R, edge_ok=lambda e: e is not pe)
    ctx.ob('C01.pid-check-dominates', 'USBTokenDetector.init=>report' + tag, p is None, pe.loc,
           'a path reaches the reporting state without the PID check-nibble test: %s' % [(e.src, e.dst) for e in p or []])
    cls = [a for a, pos in q.atoms(pe) if pos and 'rx_data[0:2]' in a and 'rx_data[0:4]' in a]
    ok = cls == ['(1 == self.utmi.rx_data[0:2]) | (4 == self.utmi.rx_data[0:4])'] and q.has(pe, RXV) and q.has(pe, RXA)
    ctx.ob('C01.pid-class', 'USBTokenDetector.pid-edge' + tag, ok, pe.loc,
           'the PID edge accepts exactly token PIDs (low bits 01, or PING 0100) on a valid byte: %s' % q.fmt(pe))
    cp = [a for a in ir.assigns if a.state == pe.state and q.atoms(a) == q.atoms(pe)]
    ok = len(cp) == 1 and cp[0].rhs.canon() == 'self.utmi.rx_data' and (cp[0].lhs.w == 4)
    ctx.ob('C01.pid-capture', 'USBTokenDetector.current_pid' + tag, ok, cp[0].loc if cp else pe.loc,
           'the PID (low nibble) is captured on the PID edge: %s' % [q.fmt(a) for a in cp])
    pidreg = cp[0].lhs.canon() if cp else 'current_pid'
    into_r = fsm.in_edges(R)
    ctx.need(into_r, 'edges into the reporting state')

    def crc_lit(e):
        return [l for l in e.guard if l.pos and isinstance(l.e, E) and l.e.op == '==' and
                any(x.op == 'cat' and len(x.args) == 5 for x in l.e.args) and
                any(x.canon() == 'self.utmi.rx_data[3:8]' for x in l.e.args)]
    for e in into_r:
        ctx.ob('C01.crc-check', 'USBTokenDetector.%s->report%s' % (_role(fsm, e.src, R), tag), len(crc_lit(e)) == 1, e.loc,
               'the reporting state is entered only when the 5-bit CRC computed over the token equals rx_data[3:8]: %s' % q.fmt(e)[:300])
    ce = sorted(into_r, key=lambda e: -len(crc_lit(e)))[0]
    p = find_path(fsm, init, R, edge_ok=lambda e: e is not ce)
    ctx.ob('C01.crc-check-dominates', 'USBTokenDetector.init=>report.crc' + tag, p is None, ce.loc,
           'a path reaches the reporting state without the CRC5 comparison: %s' % [(e.src, e.dst) for e in p or []])
    # exactly two byte edges between the PID edge and the reporting state
    s1 = pe.dst
    e1 = [e for e in fsm.out_edges(s1) if e.dst not in (init,) and reaches(fsm, e.dst, R, avoid={init}) or e.dst == R]
    e1 = [e for e in fsm.out_edges(s1) if e.dst != init and (e.dst == R or reaches(fsm, e.dst, R, avoid={init}))]
    ok = len(e1) == 1 and len(into_r) == 1 and q.has(e1[0], RXV) and e1[0].dst == ce.src and ce.src != s1 and q.has(ce, RXV)
    ctx.ob('C01.three-bytes', 'USBTokenDetector.byte-chain' + tag, ok, fsm.state_loc[s1],
           'exactly two valid-byte edges lead from the PID state to the reporting state (PID + 2 bytes): %s' % [q.fmt(e) for e in e1])
    if ok:
        c1 = [a for a in ir.assigns if a.state == e1[0].state and q.atoms(a) == q.atoms(e1[0])]
        ok1 = len(c1) == 1 and c1[0].rhs.canon() == 'self.utmi.rx_data' and c1[0].lhs.op == 'sig' and c1[0].lhs.w == 11
        ctx.ob('C01.field-capture', 'USBTokenDetector.byte1' + tag, ok1, c1[0].loc if c1 else None,
               'first token byte captured into bits 0..7 of the 11-bit token register: %s' % [q.fmt(a) for a in c1])
        tok = c1[0].lhs.canon() if c1 else 'token_data'
        c2 = [a for a in ir.assigns if a.state == ce.state and q.atoms(a) == q.atoms(ce)]
        ok2 = len(c2) == 1 and c2[0].lhs.canon() == tok + '[8:11]' and \
            c2[0].rhs.canon() in ('self.utmi.rx_data', 'self.utmi.rx_data[0:3]')      # the 3-bit target keeps bits 0..2 either way
        ctx.ob('C01.field-capture', 'USBTokenDetector.byte2' + tag, ok2, c2[0].loc if c2 else None,
               'low three bits of the second byte captured into bits 8..10: %s' % [q.fmt(a) for a in c2])
    else:
        tok = 'token_data'
    # (c)
    SOF = '5 == ' + pidreg
    ADDR = 'self.address == %s[0:7]' % tok
    at = q.atoms(nt[0])
    ok = (RXA, False) in at and (SOF, False) in at and ((ADDR, True) in at) == filt and \
        not [a for a, p in at if a not in (RXA, SOF, ADDR)]
    ctx.ob('C01.token-guard', 'USBTokenDetector.new_token' + tag, ok, nt[0].loc,
           'new_token only at packet end, for non-SOF PIDs%s: %s' % (', for the device address' if filt else '', sorted(at)))
    af = q.atoms(nf[0])
    ok = af == {(RXA, False), (SOF, True)}
    ctx.ob('C01.frame-guard', 'USBTokenDetector.new_frame' + tag, ok, nf[0].loc,
           'new_frame only at packet end for PID == SOF, regardless of address: %s' % sorted(af))
    # idle gaps: between the bytes of a packet rx_valid may be low for any number of cycles (full speed: ~40); every
    # state on the way to the report must simply wait then
    for s_ in fsm.states:
        if s_ in (init, R) or not reaches(fsm, s_, R, avoid={init}):
            continue
        og = state_outcomes(fsm, s_, {RXA: True, RXV: False})
        ctx.ob('C01.byte-gap', 'USBTokenDetector.state#%d.gap%s' % (fsm.states.index(s_), tag), set(og) == {None}, fsm.state_loc[s_],
               'while the packet is in progress and no byte is presented (rx_active & ~rx_valid) state %s must hold: outcomes %s' % (
                   s_, sorted(map(str, og))))
    # (d)
    o = state_outcomes(fsm, R, {RXA: True, RXV: True})
    bad = [d for d in o if d is None or d == R or (d != init and reaches(fsm, d, R, avoid={init}))]
    ctx.ob('C01.overlong', 'USBTokenDetector.report-state.extra-byte' + tag, not bad, fsm.state_loc[R],
           'a fourth byte must abandon the token (lead to a state that cannot report before the next packet): %s' % sorted(map(str, o)))
    # (e)
    want = {'self.interface.pid': pidreg, 'self.interface.address': tok + '[0:7]', 'self.interface.endpoint': tok + '[7:11]'}
    for lhs, rhs in want.items():
        ds = [a for a in ir.assigns if a.lhs.canon() == lhs and not q.is_zero(a.rhs)]
        ok = len(ds) == 1 and ds[0].rhs.canon() == rhs and q.atoms(ds[0]) == at
        ctx.ob('C01.outputs', 'USBTokenDetector.%s%s' % (lhs.replace('self.interface.', ''), tag), ok, ds[0].loc if ds else None,
               '%s <= %s together with new_token: %s' % (lhs, rhs, [q.fmt(a) for a in ds]))
    ws = [getattr(ir.signals.get('self.interface.' + n), 'w', None) for n in ('address', 'endpoint', 'frame', 'pid')]
    ctx.ob('C01.outputs', 'TokenDetectorInterface.widths' + tag, ws == [7, 4, 11, 4], None, 'address/endpoint/frame/pid widths 7/4/11/4: %s' % ws)
    fr = ir.drivers('self.interface.frame', exact=True)
    ok = len(fr) == 1 and fr[0].rhs.canon() == tok and q.atoms(fr[0]) == af
    ctx.ob('C01.outputs', 'USBTokenDetector.frame' + tag, ok, fr[0].loc if fr else None, 'frame <= token_data with new_frame')
    for nm, v in (('is_in', 9), ('is_out', 1), ('is_setup', 13), ('is_ping', 4)):
        d = ir.drivers('self.interface.' + nm, exact=True)
        ok = len(d) == 1 and d[0].rhs.canon() == '%d == self.interface.pid' % v and not d[0].guard
        ctx.ob('C01.pid-decode', 'USBTokenDetector.%s%s' % (nm, tag), ok, d[0].loc if d else None, '%s decodes PID %s' % (nm, bin(v)))
    # (f)
    for s_, site in (('self.interface.new_token', nt[0]), ('self.interface.new_frame', nf[0])):
        dflt = [a for a in q.clears(ir, s_) if not a.guard and a.state is None and a.order < site.order]
        ctx.ob('C01.strobe-default', 'USBTokenDetector.%s.default%s' % (s_.split('.')[-1], tag), len(dflt) == 1, site.loc,
               '%s must default to 0 each cycle (single-cycle strobe)' % s_)
        others = [a for a in q.raises(ir, s_) if a is not site]
        ctx.ob('C01.strobe-default', 'USBTokenDetector.%s.single-site%s' % (s_.split('.')[-1], tag), not others, None, 'one raise site only')


def _role(fsm, s, R):
    return 'report-state' if s == R else 'state#%d' % fsm.states.index(s)
