"""C08 -- address and configuration change only when their request completes."""
from ..ir import E
from .. import q
from ..fsm import state_outcomes

TITLE = 'address / configuration commit'
FLOOR = 12
DECIDES = ('(a) USBDevice: the address and configuration registers have exactly two writers each -- load from new_address / '
           'new_config under the *_changed strobe, and clear to 0 under reset_sequencer.bus_reset, the clear later in program '
           'order (it wins); the token detector filters on that address register; (b) the request handler takes the new value '
           'from setup.value (address register 7 bits = low 7 bits of wValue, configuration 8 bits), the strobes pass the '
           'handler multiplexer and the control endpoint unmodified; (c) the SET_ADDRESS / SET_CONFIGURATION states answer the '
           'status stage with a ZLP only under status_requested and commit at most once (the commit edge returns to idle); '
           '(d) ACK attribution: a commit triggered by handshakes_in.ack (a strobe broadcast for every ACK on the bus) must '
           'also require that this request\'s own status-stage packet was sent; whatever condition makes a commit state STALL its '
           'status stage also keeps its commit strobe low. ')
NOT_DECIDED = 'the interleaved bus histories themselves.'
ACK = 'self.interface.handshakes_in.ack'


def run(ctx):
    dev = ctx.ir('USBDevice', 'usb2.device', allow_opaque=True)
    for reg, strobe, val, w in (('address', 'endpoint_mux.shared.address_changed', 'endpoint_mux.shared.new_address', 7),
                                ('configuration', 'endpoint_mux.shared.config_changed', 'endpoint_mux.shared.new_config', 8)):
        ds = dev.drivers(reg, exact=True)
        # next value of the register for every valuation of (bus reset, change strobe), last assignment wins -- a later
        # overriding clear and an explicit If(reset)/Elif(changed) are the same thing: reset -> 0, else changed -> new value,
        # else hold; nothing else may be mentioned
        from ..fsm import lit_atoms, assignments, holds
        RSTB = 'reset_sequencer.bus_reset'
        ats = sorted({x for a in ds for l in a.guard for x in lit_atoms(l)})
        ok = bool(ds) and set(ats) == {RSTB, strobe} and all(a.domain != 'comb' and a.state is None for a in ds)
        if ok:
            for asg in assignments(ats):
                fire = sorted([a for a in ds if holds(a.guard, asg)], key=lambda a: a.order)
                last = fire[-1] if fire else None
                if asg[RSTB]:
                    ok = ok and last is not None and q.is_zero(last.rhs)
                elif asg[strobe]:
                    ok = ok and last is not None and last.rhs.canon() == val
                else:
                    ok = ok and last is None
        ctx.ob('C08.register-writers', 'USBDevice.' + reg, ok, ds[0].loc if ds else None,
               '%s is loaded under its change strobe and cleared (with priority) by a bus reset, nothing else: %s' % (reg, [q.fmt(a) for a in ds]))
        si = dev.signals.get(reg)
        ctx.ob('C08.register-width', 'USBDevice.%s.width' % reg, si is not None and si.w == w and (si.init in (0, None)), si.loc if si else None,
               '%s is %d bits and starts at 0 (w=%s init=%s)' % (reg, w, getattr(si, 'w', None), getattr(si, 'init', None)))
    ta = dev.drivers('token_detector.address', exact=True)
    ctx.ob('C08.address-used', 'USBDevice.token_detector.address', len(ta) == 1 and ta[0].rhs.canon() == 'address' and not ta[0].guard, ta[0].loc if ta else None,
           'tokens are filtered with the address register')
    aa = dev.drivers('endpoint_mux.shared.active_address', exact=True)
    ctx.ob('C08.address-used', 'USBDevice.active_address', len(aa) == 1 and aa[0].rhs.canon() == 'address', None, 'endpoints see the current address')
    # (b)(c)(d) handler
    h = ctx.ir('StandardRequestHandler', 'request.standard')
    f = ctx.the_fsm(h)
    idle = f.init
    for strobe, val, w, req in (('self.interface.address_changed', 'self.interface.new_address', 7, 5),
                                ('self.interface.config_changed', 'self.interface.new_config', 8, 9)):
        st = q.raises(h, strobe)
        ctx.need(len(st) == 1 and st[0].state, 'commit site of ' + strobe)
        a = st[0]
        S = q.state_of(a)
        nm = strobe.split('.')[-1]
        ent = [e for e in f.in_edges(S)]
        ok = len(ent) == 1 and ent[0].src == idle and q.has(ent[0], '%d == self.interface.setup.request' % req) and q.has(ent[0], 'self.interface.setup.received')
        ctx.ob('C08.request-dispatch', 'StandardRequestHandler.%s.entry' % nm, ok, ent[0].loc if ent else None,
               'the commit state is entered only for request %d from idle: %s' % (req, [q.fmt(e) for e in ent]))
        v = [x for x in h.drivers(val, exact=True)]
        ok = len(v) == 1 and v[0].rhs.canon() == 'self.interface.setup.value' and q.atoms(v[0]) == q.atoms(a) and v[0].state == a.state
        ctx.ob('C08.value-source', 'StandardRequestHandler.' + val.split('.')[-1], ok, v[0].loc if v else None, 'the new value is wValue, presented with the strobe')
        ws = getattr(h.signals.get(val), 'w', None)
        ctx.ob('C08.value-source', 'StandardRequestHandler.%s.width' % val.split('.')[-1], ws == w, None, 'width %s (expected %d)' % (ws, w))
        o = state_outcomes(f, S, {x: p for x, p in q.atoms(a) if not x.startswith('0 == self.interface.setup.type')})
        ctx.ob('C08.commit-once', 'StandardRequestHandler.%s.leaves' % nm, set(o) == {idle}, a.loc, 'committing returns to idle (no second commit): %s' % sorted(map(str, o)))
        zl = [x for x in q.raises(h, 'self.interface.tx.valid') if q.state_of(x) == S]
        ok = len(zl) == 1 and ('self.interface.status_requested', True) in q.atoms(zl[0])
        ctx.ob('C08.status-zlp', 'StandardRequestHandler.%s.zlp' % nm, ok, zl[0].loc if zl else None, 'the status stage is answered with a ZLP only when it is requested')
        # a request that is STALLed must not take effect: whatever condition makes this state STALL its status stage must
        # keep the commit strobe low (the host never ACKs a STALLed request, the next ACK on the bus is someone else's)
        for sx in [x for x in q.raises(h, 'self.interface.handshakes_out.stall') if q.state_of(x) == S]:
            if ('0', True) in q.atoms(sx) or ('1', False) in q.atoms(sx):
                continue                       # stall_condition folds to constant false (the default): the site is dead
            cond = {(x, p) for x, p in q.atoms(sx) - q.atoms(a) if x != 'self.interface.status_requested'
                    and not x.startswith('0 == self.interface.setup.type')}
            excluded = any((x, not p) in q.atoms(a) for x, p in cond)
            ctx.ob('C08.no-commit-when-stalled', 'StandardRequestHandler.%s.stall-excludes-commit' % nm, not cond or excluded, a.loc,
                   'state %s STALLs its status stage under %s but %s is raised regardless: the rejected value is committed by the '
                   'next ACK seen on the bus' % (S, sorted(cond), nm))
        # (d)
        ga = {x for x, p in q.atoms(a) if p}
        own = [x for x in ga if x not in (ACK, '0 == self.interface.setup.type')]
        ok = ACK in ga and any(_is_own_status_flag(h, x, S) for x in own)
        ctx.ob('C08.ack-attribution', 'StandardRequestHandler.' + nm, ok, a.loc,
               '%s is raised on any handshakes_in.ack while in state %s (guard: %s): an ACK the host sends for another endpoint\'s IN '
               'transaction between the SETUP and the status stage commits the value before (or without) this request\'s status '
               'stage completing' % (nm, S, sorted(ga)))
    # strobes pass the multiplexers unmodified
    mux = ctx.ir('USBRequestHandlerMultiplexer', 'usb2.request')
    for s_ in ('address_changed', 'new_address', 'config_changed', 'new_config'):
        ds = mux.drivers('self.shared.' + s_, exact=True)
        ok = len(ds) == 2 and all(d.rhs.canon().endswith('.' + s_) for d in ds)
        ctx.ob('C08.passthrough', 'USBRequestHandlerMultiplexer.' + s_, ok, None, 'routed from the selected handler only')
    ce = ctx.ir('USBControlEndpoint', 'usb2.control')
    for s_ in ('address_changed', 'new_address', 'config_changed', 'new_config'):
        ds = ce.drivers('self.interface.' + s_, exact=True)
        ok = len(ds) == 1 and ds[0].rhs.canon() == 'request_mux.shared.' + s_ and not ds[0].guard
        ctx.ob('C08.passthrough', 'USBControlEndpoint.' + s_, ok, ds[0].loc if ds else None, 'forwarded unmodified')


def _is_own_status_flag(h, name, state):
    """A register that is set only when this state answered its status stage (under status_requested)."""
    sets = [a for a in h.drivers(name, exact=True) if q.is_one(a.rhs) and a.domain != 'comb']
    return bool(sets) and all(('self.interface.status_requested', True) in q.atoms(a) for a in sets)
