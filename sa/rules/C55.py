"""C55 -- strobe stretching holds the output for exactly the requested time."""
import ast

from ..ir import AnalysisError
from ..index import ModInfo
from ..interp import extract
from ..num import Stepper, NoEval

TITLE = 'strobe stretching window'
FLOOR = 12
DECIDES = ('stretch_strobe_signal is lifted (through a synthetic caller that exists only inside the checker) for every stretch '
           'length n of the tier and both allow_delay settings, with and without a caller-supplied output / domain. For each '
           'configuration the extracted one-cycle semantics is composed with a reference monitor that remembers the last n '
           'strobe values, and ALL reachable (register contents, monitor) states are explored from reset with both strobe '
           'values (an exhaustive fixpoint; no stimulus is chosen): in every reachable state and for both inputs the output '
           'equals "a strobe within the last n cycles" -- cycles 0..n-1 after the strobe, or 1..n when delay is allowed. Also: '
           'the memory register is clocked by the domain handed in (sync by default) and the returned signal is the output; '
           'the clock generator\'s wrapper forwards strobe, output and allow_delay unchanged. '
           'The memory of past strobes is reset with its domain, to 0 (the exploration starts from reset). ')
NOT_DECIDED = ('stretch lengths above the explored bound (the construction is uniform in n, but that is not proven); clock-domain '
               'crossing behaviour of the stretched pulse (metastability, frequency ratio actually configured).')

HARNESS = '''
from amaranth import Elaboratable, Module, Signal
from luna.gateware.utils.cdc import stretch_strobe_signal
class Harness(Elaboratable):
    def __init__(self, n, allow_delay):
        self.strobe = Signal()
        self.out = Signal()
        self.n = n
        self.allow_delay = allow_delay
    def elaborate(self, platform):
        m = Module()
        stretch_strobe_signal(m, self.strobe, to_cycles=self.n, output=self.out, allow_delay=self.allow_delay)
        return m
class HarnessReturned(Elaboratable):
    def __init__(self, n, allow_delay):
        self.strobe = Signal()
        self.out = Signal()
        self.n = n
        self.allow_delay = allow_delay
    def elaborate(self, platform):
        m = Module()
        stretched = stretch_strobe_signal(m, self.strobe, to_cycles=self.n, allow_delay=self.allow_delay)
        m.d.comb += self.out.eq(stretched)
        return m
class HarnessDomain(Elaboratable):
    def __init__(self, n, allow_delay):
        self.strobe = Signal()
        self.out = Signal()
        self.n = n
        self.allow_delay = allow_delay
    def elaborate(self, platform):
        m = Module()
        stretch_strobe_signal(m, self.strobe, to_cycles=self.n, output=self.out, domain=m.d.usb, allow_delay=self.allow_delay)
        return m
'''


def explore(ir, n, delay):
    """Exhaustive product exploration.  Returns (n_states, counterexample or None)."""
    st = Stepper(ir)
    if ir.fsms:
        raise AnalysisError('unexpected FSM inside stretch_strobe_signal')
    free = sorted({s for a in ir.assigns for s in (a.rhs.sigs() if hasattr(a.rhs, 'sigs') else ())
                  if s not in st.regs and s not in st.comb_sigs})
    if free != ['self.strobe']:
        raise AnalysisError('stretcher reads signals other than the strobe: %s' % free)
    if sum((st.widths.get(r) or 99) for r in st.regs) > 16:
        raise AnalysisError('stretcher state too large to enumerate: %s' % st.regs)
    init = (tuple(st.inits.get(r, 0) for r in st.regs), 0)
    seen = {init: None}
    work = [init]
    hist_mask = (1 << n) - 1
    while work:
        s = work.pop()
        regs, hist = s
        for strobe in (0, 1):
            env = dict(zip(st.regs, regs))
            env['self.strobe'] = strobe
            try:
                cur, nxt = st.step(env)
            except NoEval as ex:
                raise AnalysisError('stretcher expression not understood: %s' % ex)
            h_now = ((hist << 1) | strobe)                     # bit d = strobe d cycles ago (bit 0 = now)
            want = int(((h_now >> 1) if delay else h_now) & hist_mask != 0)
            got = cur.get('self.out', 0)
            if got != want:
                path = []
                t = s
                while seen[t] is not None:
                    t, b = seen[t]
                    path.append(b)
                return len(seen), {'strobe history (oldest first)': list(reversed(path)) + [strobe], 'output': got,
                                   'required': want}
            ns = (tuple(nxt[r] for r in st.regs), h_now & hist_mask)
            if ns not in seen:
                seen[ns] = (s, strobe)
                work.append(ns)
    return len(seen), None


def run(ctx):
    fn = None
    cdc = ctx.index.module('luna.gateware.utils.cdc')
    ctx.need(cdc is not None, 'module luna.gateware.utils.cdc')
    for node in cdc.tree.body:
        if isinstance(node, ast.FunctionDef) and node.name == 'stretch_strobe_signal':
            fn = node
    ctx.need(fn is not None, 'function stretch_strobe_signal')
    ctx.files.add(cdc.relpath)
    kwonly = {a.arg for a in fn.args.kwonlyargs} | {a.arg for a in fn.args.args}
    ctx.need({'to_cycles', 'output', 'domain', 'allow_delay'} <= kwonly, 'parameters of stretch_strobe_signal')

    mi = ModInfo('verif_harness_c55', '<checker harness>', '<checker harness>', ast.parse(HARNESS), HARNESS, False)
    ctx.index.modules['verif_harness_c55'] = mi
    lengths = range(1, 7) if ctx.tier != 'thorough' else range(1, 11)
    total = 0
    for n in lengths:
        for delay in (False, True):
            for hname in ('Harness', 'HarnessReturned', 'HarnessDomain'):
                if hname != 'Harness' and n not in (1, 2, 3):
                    continue
                cls = ctx.index.find_class(hname, 'verif_harness_c55')
                ir = extract(ctx.index, cls, {'n': n, 'allow_delay': delay})
                ctx.classes.add('stretch_strobe_signal')
                ctx.assign_sites += len(ir.assigns)
                ctx.helpers += ir.helpers_inlined
                if ir.opaque:
                    src, loc, why = ir.opaque[0]
                    raise AnalysisError('construct not understood inside stretch_strobe_signal (%s): %s -- %s' % (loc, why, src))
                tag = {'Harness': '', 'HarnessReturned': ',returned-output', 'HarnessDomain': ',domain=usb'}[hname]
                nstates, cex = explore(ir, n, delay)
                total += nstates
                loc = next((a.loc for a in ir.assigns if 'self.out' in a.lhs_sigs()), None)
                ctx.ob('C55.window', 'stretch_strobe_signal.to_cycles=%d,allow_delay=%d%s' % (n, delay, tag), cex is None, loc,
                       'output must be high exactly in cycles %s after a strobe (%d product states explored); counterexample: %s'
                       % ('1..%d' % n if delay else '0..%d' % (n - 1), nstates, cex))
                if hname == 'Harness':
                    # the exploration starts from the reset state: it speaks for the time after a domain reset only if the
                    # memory of past strobes is actually reset with its domain, to "no strobe seen"
                    regs = sorted({x for a in ir.assigns if a.domain != 'comb' for x in a.lhs_sigs()})
                    stale = ['%s (reset_less=%s, init=%s)' % (r, ir.signals[r].reset_less, ir.signals[r].init) for r in regs
                             if r in ir.signals and (ir.signals[r].reset_less or (ir.signals[r].init or 0) != 0)]
                    ctx.ob('C55.reset', 'stretch_strobe_signal.to_cycles=%d,allow_delay=%d.memory-reset' % (n, delay), not stale,
                           next((a.loc for a in ir.assigns if a.domain != 'comb'), loc),
                           'the memory of past strobes must be cleared by a reset of its domain (a strobe seen before the reset '
                           'would keep the output high after it): %s' % stale)
                if hname == 'HarnessDomain':
                    doms = {a.domain for a in ir.assigns if a.domain != 'comb'}
                    ctx.ob('C55.domain', 'stretch_strobe_signal.to_cycles=%d,allow_delay=%d.register-domain' % (n, delay),
                           doms <= {'usb'}, loc, 'the memory of past strobes must be clocked by the domain handed in, found %s'
                           % sorted(doms))
                elif hname == 'Harness':
                    doms = {a.domain for a in ir.assigns if a.domain != 'comb'}
                    ctx.ob('C55.domain', 'stretch_strobe_signal.to_cycles=%d,allow_delay=%d.default-domain' % (n, delay),
                           doms <= {'sync'}, loc, 'without a domain argument the memory must be clocked by sync, found %s'
                           % sorted(doms))
    ctx.note('product states explored: %d' % total)

    # the only caller in the tree: the clock generator's wrapper forwards its arguments unchanged
    callers = []
    for mod in ctx.index.modules.values():
        if not mod.name.startswith('luna.'):
            continue
        for node in ast.walk(mod.tree):
            if isinstance(node, ast.Call) and isinstance(node.func, ast.Name) and node.func.id == 'stretch_strobe_signal':
                callers.append((mod, node))
    for mod, call in callers:
        ctx.files.add(mod.relpath)
        fdef = None
        for node in ast.walk(mod.tree):
            if isinstance(node, ast.FunctionDef) and any(c is call for c in ast.walk(node)):
                fdef = node
        params = {a.arg for a in fdef.args.args + fdef.args.kwonlyargs} if fdef else set()
        kw = {k.arg: k.value for k in call.keywords}
        for p in ('allow_delay', 'output'):
            if p in params:
                v = kw.get(p)
                ok = isinstance(v, ast.Name) and v.id == p
                ctx.ob('C55.forwarding', '%s.%s' % (fdef.name, p), ok, '%s:%d' % (mod.relpath, call.lineno),
                       'the wrapper takes `%s` and must hand it to stretch_strobe_signal unchanged' % p)
        if fdef and 'strobe' in params:
            ok = len(call.args) >= 2 and isinstance(call.args[1], ast.Name) and call.args[1].id == 'strobe'
            ctx.ob('C55.forwarding', '%s.strobe' % fdef.name, ok, '%s:%d' % (mod.relpath, call.lineno),
                   'the wrapper must stretch the strobe it was given')
