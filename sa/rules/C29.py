"""C29 -- the multi-byte IN endpoint serialises each accepted word little-endian, once, with first/last framing."""
import itertools

from ..ir import E, AnalysisError
from .. import q, gf2

TITLE = 'multi-byte IN endpoint word serialisation'
FLOOR = 24
DECIDES = ('For USBMultibyteStreamInEndpoint with byte_width 1, 2, 3 and 4 (1..8 and 16 in the thorough tier), on the cone of '
           'influence of the inner byte stream (valid/payload/first/last of the USBStreamInEndpoint submodule) and of '
           'stream.ready: the extracted guards, drivers and FSM edges are evaluated exactly (last assignment / last m.next '
           'wins, combinational defaults 0) over every reachable control state (FSM state x control registers) and all 16 '
           'combinations of stream.valid/first/last and byte-stream ready, with the word data carried symbolically as '
           'GF(2)-affine bit wiring, against the reference "one pending word, next byte index k": (a) the payload width '
           'is 8*byte_width; (b) the k-th byte handed over is word[8k:8k+8] for every word value (load, shift distance and '
           'direction, byte tap, register width); (c) first accompanies exactly byte 0 of a word accepted with first, '
           'last exactly byte byte_width-1 of a word accepted with last, both taken from the values at acceptance and '
           'not from the live inputs; (d) no byte is handed over unless an accepted word still has bytes left (no '
           'duplicate, no byte without a word, exactly byte_width bytes per word); (e) stream.ready is raised with '
           'stream.valid only when no byte of the previous word remains after this cycle (idle, or the final byte is being '
           'taken now); (f) while bytes remain, a byte is offered or the control state advances, for every ready '
           'pattern; (g) a whole word can actually be accepted and completed (the check is not vacuous). ')
NOT_DECIDED = ('the inner USBStreamInEndpoint / transfer manager (packetisation, ZLPs), the sharing of the '
               'EndpointInterface with it, the values of first/last/payload in cycles without a byte hand-over (they are '
               'only driven while the byte stream is ready), and byte widths other than those enumerated.')

CLS = 'USBMultibyteStreamInEndpoint'
MOD = 'usb2.endpoints.stream'
W = 'self.stream'
MAX_STATES = 20000

_CMP = {'==': lambda a, b: a == b, '!=': lambda a, b: a != b, '<': lambda a, b: a < b, '<=': lambda a, b: a <= b,
        '>': lambda a, b: a > b, '>=': lambda a, b: a >= b}


def _bits(v, w):
    return [(v >> i) & 1 for i in range(w)]


class _Model:
    """Exact one-cycle evaluator of the cone of influence of the observed outputs."""

    def __init__(self, ctx, ir, n):
        self.ir, self.n = ir, n
        subs = [s for s in ir.submodules if s.obj.clsname == 'USBStreamInEndpoint']
        ctx.need(len(subs) == 1, 'the inner byte-wide USBStreamInEndpoint submodule of %s' % CLS)
        B = self.B = subs[0].obj.path + '.stream'
        self.outs = [B + '.valid', B + '.payload', B + '.first', B + '.last', W + '.ready']
        for s in (B + '.valid', B + '.payload', W + '.ready'):
            ctx.need(ir.drivers(s, exact=True), 'a driver of %s' % s)
        self.fsms = {f.id: f for f in ir.fsms}
        # ---- cone of influence
        coi, seen_sig, fs = {}, set(), set()
        work = list(self.outs)

        def reads(e):
            out = set()
            if isinstance(e, E):
                out |= e.sigs()
                for x in e.walk():
                    if x.op == 'ongoing':
                        add_fsm(x.args[0])
            return out

        def add_fsm(fid):
            if fid in fs:
                return
            ctx.need(fid in self.fsms, 'FSM %s' % fid)
            fs.add(fid)
            for e in self.fsms[fid].edges:
                for l in tuple(e.guard) + tuple(getattr(e, 'outer_guard', ())):
                    work.extend(reads(l.e))
                for fid2, _ in (e.states or ()):
                    add_fsm(fid2)

        while work:
            s = work.pop()
            if s in seen_sig:
                continue
            seen_sig.add(s)
            for a in ir.drivers(s, exact=False):
                if id(a) in coi:
                    continue
                coi[id(a)] = a
                ctx.need(isinstance(a.lhs, E) and a.lhs.op == 'sig' and isinstance(a.rhs, E),
                         'plain signal assignment in the cone of the byte stream: %s' % q.fmt(a))
                work.extend(reads(a.rhs))
                for l in a.guard:
                    work.extend(reads(l.e))
                for fid, _ in self._states(a):
                    add_fsm(fid)
        self.fs = sorted(fs)
        self.comb = sorted((a for a in coi.values() if a.domain == 'comb'), key=lambda a: a.order)
        self.sync = sorted((a for a in coi.values() if a.domain != 'comb'), key=lambda a: a.order)
        doms = {a.domain for a in self.sync} | {self.fsms[f].domain for f in fs}
        ctx.need(len(doms) <= 1, 'a single clock domain in the cone of the byte stream (found %s)' % sorted(map(str, doms)))
        self.regs = sorted({a.lhs.canon() for a in self.sync})
        self.combs = sorted({a.lhs.canon() for a in self.comb})
        ctx.need(not set(self.regs) & set(self.combs), 'signals driven from one domain only')
        self.inputs = [W + '.valid', W + '.first', W + '.last', B + '.ready']
        allowed = set(self.inputs) | {W + '.payload'}
        extra = sorted(seen_sig - set(self.regs) - set(self.combs) - allowed)
        ctx.need(not extra, 'the byte stream depends only on the word stream and byte-stream ready (also reads %s)' % extra)
        # ---- which signals carry word data (symbolic)
        taint = {W + '.payload'}
        changed = True
        while changed:
            changed = False
            for a in coi.values():
                if a.lhs.canon() not in taint and a.rhs.sigs() & taint:
                    taint.add(a.lhs.canon())
                    changed = True
        self.taint = taint
        self.width = {}
        for s in self.regs + self.combs + [W + '.payload']:
            si = ir.signals.get(s)
            ctx.need(si is not None and si.w is not None, 'declared width of %s' % s)
            self.width[s] = si.w
        self.vs = gf2.Vars()
        pw = self.width[W + '.payload']
        self.IN, self.CUR, self.OLD = (self.vs.vec(k, pw) for k in ('in', 'cur', 'old'))
        self.map_accept = {('in', i): self.CUR[i] for i in range(pw)}
        self.map_accept.update({('cur', i): self.OLD[i] for i in range(pw)})
        self.map_idle = {('in', i): self.OLD[i] for i in range(pw)}

    @staticmethod
    def _states(item):
        sts = tuple(getattr(item, 'states', ()) or ())
        if not sts and item.state:
            sts = (item.state,)
        return sts

    # ---- expression evaluation -------------------------------------------------------------------
    def cev(self, e, env, cur):
        """Concrete value of a control expression."""
        if not isinstance(e, E):
            raise AnalysisError('cannot evaluate %r' % (e,))
        op = e.op
        if op == 'const':
            if not isinstance(e.val, int):
                raise AnalysisError('non-integer constant %r' % (e.val,))
            return int(e.val)
        if op == 'sig':
            nm = e.args[0].name
            if nm not in env:
                raise AnalysisError('control of %s reads %s, which has no value in the model' % (CLS, nm))
            v = env[nm]
            if isinstance(v, tuple):
                raise AnalysisError('a control decision of %s reads word data (%s)' % (CLS, nm))
            return v
        if op == 'ongoing':
            return int(cur.get(e.args[0]) == e.args[1])
        if op in _CMP and len(e.args) == 2:
            return int(_CMP[op](self.cev(e.args[0], env, cur), self.cev(e.args[1], env, cur)))
        if op in ('&', '|', '^', '+', '*'):
            vals = [self.cev(a, env, cur) for a in e.args]
            acc = vals[0]
            for v in vals[1:]:
                acc = acc & v if op == '&' else acc | v if op == '|' else acc ^ v if op == '^' else acc + v if op == '+' else acc * v
            return acc
        if op == '-' and len(e.args) == 2:
            return self.cev(e.args[0], env, cur) - self.cev(e.args[1], env, cur)
        if op == 'neg':
            return -self.cev(e.args[0], env, cur)
        if op == '~':
            x = self.cev(e.args[0], env, cur)
            w = e.w if e.w is not None else getattr(e.args[0], 'w', None)
            if w is None:
                if x in (0, 1):
                    return 1 - x
                raise AnalysisError('width of %s unknown' % e.canon())
            return ~x & ((1 << w) - 1)
        if op in ('<<', '>>') and len(e.args) == 2:
            a, b = self.cev(e.args[0], env, cur), self.cev(e.args[1], env, cur)
            return a << b if op == '<<' else a >> b
        if op == 'slice' and isinstance(e.args[1], int) and isinstance(e.args[2], int):
            x = self.cev(e.args[0], env, cur)
            return (x >> e.args[1]) & ((1 << max(e.args[2] - e.args[1], 0)) - 1)
        if op == 'cat':
            acc, sh = 0, 0
            for a in e.args:
                if a.w is None:
                    raise AnalysisError('width of %s unknown' % a.canon())
                acc |= (self.cev(a, env, cur) & ((1 << a.w) - 1)) << sh
                sh += a.w
            return acc
        if op == 'mux' and len(e.args) == 3:
            return self.cev(e.args[1] if self.cev(e.args[0], env, cur) else e.args[2], env, cur)
        if op == 'call' and e.args and e.args[0] in ('bool', 'any') and len(e.args) == 2:
            return int(self.cev(e.args[1], env, cur) != 0)
        if op == 'call' and e.args and e.args[0] == 'all' and len(e.args) == 2 and e.args[1].w is not None:
            return int(self.cev(e.args[1], env, cur) == (1 << e.args[1].w) - 1)
        if op == 'call' and e.args and e.args[0] == 'matches' and all(isinstance(a, E) and a.op == 'const' for a in e.args[2:]):
            x = self.cev(e.args[1], env, cur)
            return int(any(x == a.val for a in e.args[2:]))
        raise AnalysisError('cannot evaluate control expression %s' % e.canon()[:120])

    def sev(self, e, env, cur):
        """Affine forms (LSB first) of a data expression."""
        if not isinstance(e, E):
            raise gf2.NotAffine('not an expression: %r' % (e,))
        if not any(isinstance(env.get(s), tuple) for s in e.sigs()):
            v = self.cev(e, env, cur)
            w = e.w if e.w is not None else max(v.bit_length(), 1)
            if v < 0:
                raise gf2.NotAffine('negative value in data path: %s' % e.canon())
            return _bits(v, w)
        op = e.op
        if op == 'sig':
            return list(env[e.args[0].name])
        if op == 'slice':
            f = self.sev(e.args[0], env, cur)
            lo, hi = e.args[1], e.args[2]
            if not isinstance(lo, int) or not isinstance(hi, int) or hi > len(f):
                raise gf2.NotAffine('slice not resolved: %s' % e.canon())
            return f[lo:hi]
        if op == 'cat':
            out = []
            for a in e.args:
                out += self.sev(a, env, cur)
            return out
        if op == 'rev':
            return list(reversed(self.sev(e.args[0], env, cur)))
        if op == '~':
            return [f ^ 1 for f in self.sev(e.args[0], env, cur)]
        if op == '^':
            parts = [self.sev(a, env, cur) for a in e.args]
            out = [0] * max(len(p) for p in parts)
            for p in parts:
                for i, f in enumerate(p):
                    out[i] ^= f
            return out
        if op in ('>>', '<<') and len(e.args) == 2:
            k = self.cev(e.args[1], env, cur)
            f = self.sev(e.args[0], env, cur)
            return f[k:] if op == '>>' else [0] * k + f
        if op == 'mux' and len(e.args) == 3:
            return self.sev(e.args[1] if self.cev(e.args[0], env, cur) else e.args[2], env, cur)
        raise gf2.NotAffine('word data goes through %s, which is not bit wiring: %s' % (op, e.canon()[:100]))

    def fires(self, item, env, cur):
        for fid, st in self._states(item):
            if cur.get(fid) != st:
                return False
        for l in tuple(item.guard) + tuple(getattr(item, 'outer_guard', ()) if item.kind == 'edge' else ()):
            if l.kind == 'cfg':
                raise AnalysisError('configuration-dependent guard not folded: %s' % l.canon())
            if bool(self.cev(l.e, env, cur)) != l.pos:
                return False
        return True

    def value(self, a, env, cur):
        nm = a.lhs.canon()
        w = self.width[nm]
        if nm in self.taint:
            f = self.sev(a.rhs, env, cur)
            return tuple((f + [0] * w)[:w])
        return self.cev(a.rhs, env, cur) & ((1 << w) - 1)

    # ---- one clock cycle ---------------------------------------------------------------------------
    def reset(self):
        cur = tuple((f, self.fsms[f].init) for f in self.fs)
        regs = []
        for r in self.regs:
            init = self.ir.signals[r].init
            init = init if isinstance(init, int) else 0
            regs.append((r, tuple(_bits(init, self.width[r])) if r in self.taint else init))
        return cur, tuple(regs)

    def step(self, state, inp):
        cur = dict(state[0])
        env = dict(state[1])
        env.update(inp)
        env[W + '.payload'] = tuple(self.IN)
        zero = {c: (tuple([0] * self.width[c]) if c in self.taint else 0) for c in self.combs}
        comb, win = dict(zero), {}
        for _ in range(8):
            env.update(comb)
            new, win = dict(zero), {}
            for a in self.comb:
                if self.fires(a, env, cur):
                    new[a.lhs.canon()] = self.value(a, env, cur)
                    win[a.lhs.canon()] = a
            if new == comb:
                break
            comb = new
        else:
            raise AnalysisError('combinational signals of %s do not settle' % CLS)
        env.update(comb)
        regs = dict(state[1])
        fired = []
        for a in self.sync:
            if self.fires(a, env, cur):
                regs[a.lhs.canon()] = self.value(a, env, cur)
                fired.append(a)
        nxt = dict(cur)
        for fid in self.fs:
            for e in sorted(self.fsms[fid].out_edges(cur[fid]), key=lambda e: e.order):
                if self.fires(e, env, cur):
                    if e.dst not in self.fsms[fid].states:
                        raise AnalysisError('m.next target %s is not a state' % (e.dst,))
                    nxt[fid] = e.dst
                    fired.append(e)
        return comb, win, (tuple(sorted(nxt.items())), tuple(sorted(regs.items()))), fired

    def rename(self, state, mapping):
        regs = tuple((r, tuple(gf2.substitute(list(v), self.vs, mapping)) if isinstance(v, tuple) else v)
                     for r, v in state[1])
        return state[0], regs


def _explore(m):
    """Product of the design with the reference monitor; returns ({category: (message, loc)}, stats)."""
    n, B, vs = m.n, m.B, m.vs
    viol, stats = {}, {'states': 0, 'cycles': 0, 'bytes': 0, 'words': 0}
    start = (m.reset(), None)
    parent = {start: None}
    work = [start]

    def show_state(st):
        return '%s %s' % ('/'.join(s for _, s in st[0]) or '-',
                          ','.join('%s=%s' % (q.base(r).split('.')[-1], v) for r, v in st[1] if not isinstance(v, tuple)))

    def trace(node, inp):
        steps = []
        while parent[node] is not None:
            node, i = parent[node][:2]
            steps.append('[%s | %s]' % (show_state(node[0]), _show_inp(m, i)))
        steps.reverse()
        return ' '.join(steps[-6:])

    def report(cat, node, inp, text, driver, sig):
        if cat in viol:
            return
        ds = m.ir.drivers(sig, exact=True)
        drv = ('driver %s' % q.fmt(driver)) if driver is not None else \
            ('no driver of %s fires (drivers: %s)' % (sig, [q.fmt(a) for a in ds][:4]))
        pend = node[1]
        before = parent[node][2] if parent[node] is not None else ()
        viol[cat] = ('%s; in state {%s}, %s, with %s; %s; the preceding cycle executed %s; reached by %s' % (
            text, show_state(node[0]), 'pending byte %d of a word accepted with first=%d last=%d' % pend if pend else
            'no word pending', _show_inp(m, inp), drv, [_short(x) for x in before] or 'nothing',
            trace(node, inp) or 'reset'),
            driver.loc if driver is not None else (ds[0].loc if ds else None))

    while work:
        node = work.pop(0)
        state, pend = node
        stats['states'] += 1
        if stats['states'] > MAX_STATES:
            raise AnalysisError('control state space of %s larger than %d states' % (CLS, MAX_STATES))
        for bits in itertools.product((0, 1), repeat=4):
            inp = dict(zip(m.inputs, bits))
            comb, win, nstate, fired = m.step(state, inp)
            stats['cycles'] += 1
            bv, wr = comb[B + '.valid'], comb[W + '.ready']
            bf, bl = comb.get(B + '.first', 0), comb.get(B + '.last', 0)
            xfer = bool(bv) and bool(inp[B + '.ready'])
            acc = bool(wr) and bool(inp[W + '.valid'])
            bad = False
            np_ = pend
            if xfer:
                if pend is None:
                    report('exactly-once', node, inp, 'a byte is handed to the byte endpoint although no accepted word has '
                           'bytes left (duplicate or spurious byte)', win.get(B + '.valid'), B + '.valid')
                    bad = True
                else:
                    k, f, l = pend
                    pay = list(comb[B + '.payload'])
                    want = m.CUR[8 * k:8 * k + 8]
                    if pay != want:
                        report('little-endian', node, inp, 'byte %d of %d carries [%s], expected word[%d:%d]' % (
                            k, n, ', '.join(_bit(vs, x) for x in pay[:8]) + (' ...' if len(pay) > 8 else ''), 8 * k, 8 * k + 8),
                            win.get(B + '.payload'), B + '.payload')
                        bad = True
                    if bool(bf) != bool(f and k == 0):
                        report('first-flag', node, inp, 'byte %d of %d has first=%d, expected %d' % (k, n, bf, int(f and k == 0)),
                               win.get(B + '.first'), B + '.first')
                        bad = True
                    if bool(bl) != bool(l and k == n - 1):
                        report('last-flag', node, inp, 'byte %d of %d has last=%d, expected %d' % (k, n, bl, int(l and k == n - 1)),
                               win.get(B + '.last'), B + '.last')
                        bad = True
                    stats['bytes'] += 1
                    if k == n - 1 and not bad:
                        stats['words'] += 1
                    np_ = (k + 1, f, l) if k + 1 < n else None
            if acc:
                if np_ is not None:
                    report('accept-rate', node, inp, 'a word is accepted (stream.ready & stream.valid) while byte %d of the '
                           'previous word has not been taken' % np_[0], win.get(W + '.ready'), W + '.ready')
                    bad = True
                np_ = (0, inp[W + '.first'], inp[W + '.last'])
                nstate = m.rename(nstate, m.map_accept)
            else:
                nstate = m.rename(nstate, m.map_idle)
            if pend is not None and not bv and (nstate, np_) == node:
                report('progress', node, inp, 'bytes of an accepted word remain but no byte is offered and nothing advances',
                       win.get(B + '.valid'), B + '.valid')
                bad = True
            if bad:
                continue
            nn = (nstate, np_)
            if nn not in parent:
                parent[nn] = (node, inp, tuple(fired))
                work.append(nn)
    return viol, stats


def _show_inp(m, inp):
    return ' '.join('%s=%d' % (k.replace(m.B, 'byte_stream').replace(W, 'stream'), v) for k, v in inp.items())


def _short(item):
    if item.kind == 'edge':
        return 'm.next=%s @%s line %s' % (item.dst, item.src, item.loc.line)
    return '%s <= %s (line %s)' % (item.lhs.canon(), item.rhs.canon()[:60], item.loc.line)


def _bit(vs, form):
    s = vs.describe(form)
    return s.replace('cur[', 'word[').replace('in[', 'live-payload[').replace('old[', 'stale[')


CLAUSES = (
    ('little-endian', 'byte_stream.payload', 'byte k handed to the byte endpoint is word[8k:8k+8] for every word value'),
    ('first-flag', 'byte_stream.first', 'first accompanies exactly byte 0 of a word accepted with first'),
    ('last-flag', 'byte_stream.last', 'last accompanies exactly the final byte of a word accepted with last'),
    ('exactly-once', 'byte_stream.valid', 'no byte is handed over unless an accepted word still has bytes left'),
    ('accept-rate', 'stream.ready', 'a word is accepted only when no byte of the previous word remains after this cycle'),
    ('progress', 'byte_stream.progress', 'while bytes remain a byte is offered or the control state advances'),
)


def check(ctx, n):
    tag = 'bw%d' % n
    ir = ctx.ir(CLS, MOD, byte_width=n)
    m = _Model(ctx, ir, n)
    pw = m.width[W + '.payload']
    si = ir.signals[W + '.payload']
    ctx.ob('C29.word-width', '%s.stream.payload.width[%s]' % (CLS, tag), pw == 8 * n, si.loc,
           'the word stream payload is %d bits wide, byte_width=%d needs %d' % (pw, n, 8 * n))
    if pw < 8 * n:
        # the clauses below are about n-byte words; with a narrower word stream none of them can be evaluated or hold
        for cat, role, text in CLAUSES + (('word-completes', 'word-cycle', 'a whole word can be accepted and completed'),):
            ctx.ob('C29.' + cat, '%s.%s[%s]' % (CLS, role, tag), False, si.loc,
                   '%s: cannot hold, the word stream carries only %d of the %d bits of a %d-byte word' % (text, pw, 8 * n, n))
        return
    viol, stats = _explore(m)
    cov = '%d control states x 16 input combinations, %d byte hand-overs checked' % (stats['states'], stats['bytes'])
    for cat, role, text in CLAUSES:
        msg, loc = viol.get(cat, (None, None))
        if loc is None:
            sig = (W + '.ready') if role == 'stream.ready' else m.B + '.' + (role.split('.')[1] if not role.endswith('progress') else 'valid')
            ds = ir.drivers(sig, exact=True)
            loc = ds[0].loc if ds else None
        ctx.ob('C29.' + cat, '%s.%s[%s]' % (CLS, role, tag), msg is None, loc,
               '%s: %s' % (text, msg) if msg else '%s (%s)' % (text, cov))
    ctx.ob('C29.word-completes', '%s.word-cycle[%s]' % (CLS, tag), stats['words'] > 0, ir.fsms[0].loc if ir.fsms else None,
           'a word can be accepted and all %d of its bytes handed over correctly (%s)' % (n, cov) if stats['words'] else
           'no reachable sequence accepts a word and hands over all %d of its bytes correctly (%s): the other clauses would '
           'hold vacuously' % (n, cov))


def run(ctx):
    widths = (1, 2, 3, 4)         # 3: a width that is not a power of two (counters that rely on natural wrap-around)
    if ctx.tier == 'thorough':
        widths = (1, 2, 3, 4, 5, 6, 7, 8, 16)
    for n in widths:
        check(ctx, n)
