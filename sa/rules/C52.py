"""C52 -- the I2C initiator follows the I2C bus protocol (typestate analysis over the FSM)."""
from ..ir import E
from .. import q
from ..fsm import guard_atoms, state_outcomes, reachable

TITLE = 'I2C initiator protocol'
FLOOR = 30
TECHNIQUE = ('static analysis: typestate dataflow to a fixpoint over the extracted FSM (abstract store: driven SCL level, '
             'operation in progress) plus guard/driver rules')
DECIDES = ('Forward typestate analysis over the FSM of I2CInitiator (helper closures scl_l / scl_h / stb_x inlined), abstract '
           'store = {level of the driven SCL: L/H} x {level of the driven SDA: 0/1/data} x {operation chosen when leaving idle: start/stop/write/read}, transfer '
           'functions taken from the extracted assignments, edge guards `scl_o == 1` refine the level: (a) every assignment to '
           'the driven SDA happens with SCL = L, except a constant 0 during a START operation and a constant 1 during a STOP operation; the shortcut edges '
           'from idle straight to the edge-making state require SDA at the opposite level (STOP: ~sda_o, START: sda high); (b) every operation returns to idle with SCL = H and idle is entered with SCL = H only; (c) a write '
           'drives sda from bit 7 of the shift register, shifts left by one per bit and runs eight bitno steps before the '
           'acknowledge cycle; a read shifts sda_i in at bit 0 (MSB first) the same way; ack_o, the read bits and data_o are '
           'captured on the exit of an SCL-high state, which (with clock stretching) requires scl_i == 1; (d) busy is '
           'cleared only in idle when no strobe is pending, and strobes are consulted only in idle; w_shreg / r_ack are '
           'latched with their strobe. Both clk_stretch settings. ')
NOT_DECIDED = 'bus timing in absolute units (period_cyc / 4 per phase) and multi-master arbitration.'
SCL, SDA = 'self.bus.scl_o', 'self.bus.sda_o'
OPS = {'self.start': 'start', 'self.stop': 'stop', 'self.write': 'write', 'self.read': 'read'}


def _level(atoms, sig):
    """What a guard says about the 1-bit signal `sig`: True (high), False (low), None.  The extractor writes `sig == 1`
    of a 1-bit signal as the literal `sig` (and `sig == 0` as its negation); the comparison spellings are accepted too."""
    for key, high in ((sig, True), ('1 == ' + sig, True), ('0 == ' + sig, False)):
        v = atoms.get(key)
        if v is not None:
            return v == high
    return None


def typestate(ctx, ir, fsm):
    """Returns {state: set((op, scl_level, sda_level))} -- levels of the driven SCL / SDA on entry / while in the state.
    sda_level is '0', '1' or '?' (data dependent)."""
    idle = fsm.init
    init_level = 'H' if getattr(ir.signals.get(SCL), 'init', None) == 1 else 'L'
    init_sda = '1' if getattr(ir.signals.get(SDA), 'init', None) == 1 else '0'
    val = {s: set() for s in fsm.states}
    val[idle].add((None, init_level, init_sda))
    scl_assigns, sda_assigns = {}, {}
    for a in ir.drivers(SCL, exact=True):
        if a.state and a.rhs.op == 'const' and a.domain != 'comb':
            scl_assigns.setdefault(a.state[1], []).append(a)
        else:
            ctx.need(False, 'every driver of scl_o is a constant assignment inside an FSM state: %s' % q.fmt(a))
    for a in ir.drivers(SDA, exact=True):
        ctx.need(a.state is not None and a.domain != 'comb', 'sda_o is only written inside FSM states: %s' % q.fmt(a))
        sda_assigns.setdefault(a.state[1], []).append(a)

    def levels_in(s, entry):
        """levels the driven SCL can have while the FSM sits in s (entry values + in-state updates)."""
        out = {l for _, l, _ in entry}
        for a in scl_assigns.get(s, []):
            out.add('H' if a.rhs.val else 'L')
        return out

    def sda_val(a):
        return str(a.rhs.val) if a.rhs.op == 'const' else '?'
    changed = True
    n = 0
    while changed:
        changed = False
        n += 1
        ctx.need(n < 300, 'typestate fixpoint')
        for s in fsm.states:
            if not val[s]:
                continue
            for e in fsm.out_edges(s):
                ea = dict(guard_atoms(e.guard))
                for (o, l0, d0) in list(val[s]):
                    lv_e = levels_in(s, {(o, l0, d0)})
                    if _level(ea, SCL) is True:
                        lv_e &= {'H'}
                    if _level(ea, SCL) is False:
                        lv_e &= {'L'}
                    for a in scl_assigns.get(s, []):
                        if q.atoms(a) <= q.atoms(e):
                            lv_e = {'H' if a.rhs.val else 'L'}
                    # driven SDA: refined by the guard (the bus is wired-AND: sda_i high implies we do not pull it low)
                    d = d0
                    if ea.get(SDA) is True or ea.get('self.bus.sda_i') is True:
                        d = '1'
                    if ea.get(SDA) is False:
                        d = '0'
                    if (d0 == '0' and d == '1') or (d0 == '1' and d == '0'):
                        continue                       # infeasible for this abstract value
                    for a in sda_assigns.get(s, []):
                        if q.atoms(a) <= q.atoms(e):
                            d = sda_val(a)
                    no = o
                    if s == idle:
                        tag = [OPS[x] for x, p in ea.items() if p and x in OPS]
                        ctx.need(len(tag) == 1, 'operation selected by an edge out of idle: %s' % q.fmt(e))
                        no = tag[0]
                    for l in lv_e:
                        if (no, l, d) not in val[e.dst]:
                            val[e.dst].add((no, l, d))
                            changed = True
    return val, levels_in


def check(ctx, stretch):
    tag = 'stretch' if stretch else 'nostretch'
    ir = ctx.ir('I2CInitiator', 'interface.i2c', period_cyc=8, clk_stretch=stretch)
    fsm = ctx.the_fsm(ir)
    idle = fsm.init
    val, levels_in = typestate(ctx, ir, fsm)
    # (a) SDA discipline
    n = 0
    for a in ir.drivers(SDA, exact=True):
        ctx.need(a.state is not None and a.domain != 'comb', 'sda_o is only written inside FSM states: %s' % q.fmt(a))
        s = a.state[1]
        n += 1
        lv = levels_in(s, val[s])
        ga = dict(q.atoms(a))
        if _level(ga, SCL) is True:
            lv &= {'H'}
        ops = {o for o, _, _ in val[s]}
        prior = {d for _, _, d in val[s]}
        if lv <= {'L'}:
            ok, why = True, 'SCL low'
        elif a.rhs.op == 'const' and a.rhs.val == 0 and ops == {'start'}:
            ok, why = True, 'START condition'
        elif a.rhs.op == 'const' and a.rhs.val == 1 and ops == {'stop'}:
            ok, why = True, 'STOP condition'
        else:
            ok, why = False, 'SCL may be %s during %s' % (sorted(lv), sorted(map(str, ops)))
        ctx.ob('C52.sda-while-scl-low', 'I2CInitiator.sda<=%s@%s[%s]' % (a.rhs.canon(), s, tag), ok, a.loc,
               'SDA is changed (%s) in state %s where %s; SDA may change while SCL is high only as the constant 0 of a START '
               'or the constant 1 of a STOP' % (q.fmt(a), s, why))
    ctx.need(n >= 8, 'sda_o assignment sites (found %d)' % n)
    # shortcut edges: going from idle straight to the state that makes the START / STOP edge (SCL stays high) only produces
    # that edge if the driven SDA is at the opposite level: for STOP the initiator itself must be holding SDA low, for START
    # SDA must be released (bus SDA high implies that, the bus being wired-AND)
    for e in fsm.out_edges(idle):
        acts = [a for a in ir.drivers(SDA, exact=True) if a.state == (fsm.id, e.dst) and a.rhs.op == 'const']
        if not acts or not (levels_in(e.dst, {x for x in val[e.dst]}) <= {'H'}):
            continue
        ea = dict(guard_atoms(e.guard))
        for a in acts:
            if a.rhs.val == 1:
                ok = ea.get(SDA) is False
                msg = 'the STOP shortcut releases SDA while SCL is high; that is a STOP only if the initiator itself holds SDA low (~sda_o): %s' % q.fmt(e)
            else:
                ok = ea.get(SDA) is True or ea.get('self.bus.sda_i') is True
                msg = 'the START shortcut pulls SDA low while SCL is high; that is a START only if SDA is released/high before: %s' % q.fmt(e)
            ctx.ob('C52.condition-shortcut', 'I2CInitiator.idle->%s[%s]' % (e.dst, tag), ok, e.loc, msg)
    # (b) idle entered with SCL high
    lv_idle = {l for _, l, _ in val[idle]}
    ctx.ob('C52.idle-scl-high', 'I2CInitiator.idle[%s]' % tag, lv_idle == {'H'}, fsm.state_loc[idle],
           'idle must always be entered with SCL released (high): %s' % sorted(val[idle], key=str))
    for s in fsm.states:
        ctx.ob('C52.returns-to-idle', 'I2CInitiator.%s[%s]' % (s, tag), idle in reachable(fsm, s) and bool(val[s]),
               fsm.state_loc[s], 'state %s must be reachable and lead back to idle' % s)
    # (c) bit order and count
    wr = [a for a in ir.drivers(SDA, exact=True) if 'w_shreg' in a.rhs.canon()]
    ctx.ob('C52.msb-first', 'I2CInitiator.write-bit[%s]' % tag, len(wr) == 1 and wr[0].rhs.canon() == 'w_shreg[7:8]', wr[0].loc if wr else None,
           'a write drives SDA from bit 7 of the shift register')
    sh = [a for a in ir.drivers('w_shreg', exact=True) if q.state_of(a) != idle]
    ctx.ob('C52.msb-first', 'I2CInitiator.write-shift[%s]' % tag, len(sh) == 1 and sh[0].rhs.canon() == 'Cat(0, w_shreg[0:7])', sh[0].loc if sh else None,
           'the write shift register shifts left by one per bit')
    rd = [a for a in ir.drivers('r_shreg', exact=True)]
    ctx.ob('C52.msb-first', 'I2CInitiator.read-shift[%s]' % tag, len(rd) == 1 and rd[0].rhs.canon() == 'Cat(self.bus.sda_i, r_shreg[0:7])', rd[0].loc if rd else None,
           'a read shifts sda_i in at bit 0 (first bit ends up as the MSB)')
    for kind in ('write', 'read'):
        inc = [a for a in ir.drivers('bitno', exact=True) if any(o == kind for o, _, _ in val[q.state_of(a)])]
        ctx.need(len(inc) == 1 and inc[0].rhs.canon() == '1 + bitno', 'bit counter increment of the %s loop' % kind)
        s = q.state_of(inc[0])
        # the bit-time tick: whatever every leaving edge of the loop state requires besides the bit number (a strobe
        # signal, or the timer comparison written in place)
        outs_ = [e for e in fsm.out_edges(s)]
        tick = None
        for e in outs_:
            pa = {(x, p) for x, p in q.atoms(e) if 'bitno' not in x}
            tick = pa if tick is None else (tick & pa)
        tick = dict(tick or {('stb', True)})
        o7 = state_outcomes(fsm, s, dict(tick, **{'7 == bitno': True}))
        on = state_outcomes(fsm, s, dict(tick, **{'7 == bitno': False}))
        w = getattr(ir.signals.get('bitno'), 'w', None)
        ok = len(o7) == 1 and len(on) == 1 and set(o7) != set(on) and w == 3
        # after bit 7 the next state must lead to the ack cycle (not back into the data loop)
        loop_head = list(on)[0] if on else None
        ack_head = list(o7)[0] if o7 else None
        ctx.ob('C52.eight-bits', 'I2CInitiator.%s-loop[%s]' % (kind, tag), bool(ok), inc[0].loc,
               'the %s loop must run eight bitno steps: after bit 7 -> %s, otherwise -> %s (bitno width %s)' % (kind, ack_head, loop_head, w))
    # sampling on exit of SCL-high states
    for sig in ('self.ack_o', 'r_shreg', 'self.data_o'):
        for a in ir.drivers(sig, exact=True):
            ga = dict(q.atoms(a))
            need = _level(ga, SCL) is True and (not stretch or _level(ga, 'self.bus.scl_i') is True)
            ctx.ob('C52.sample-scl-high', 'I2CInitiator.%s[%s]' % (sig, tag), need, a.loc,
                   '%s must be captured while SCL is high (and, with clock stretching, actually high on the bus): %s' % (sig, q.fmt(a)))
    ack = [a for a in ir.drivers('self.ack_o', exact=True)]
    ctx.ob('C52.ack', 'I2CInitiator.ack_o[%s]' % tag, len(ack) == 1 and ack[0].rhs.canon() == '~self.bus.sda_i', ack[0].loc if ack else None,
           'ack_o reports the target\'s acknowledge (SDA low)')
    rack = [a for a in ir.drivers(SDA, exact=True) if 'r_ack' in a.rhs.canon()]
    ctx.ob('C52.ack', 'I2CInitiator.read-ack[%s]' % tag, len(rack) == 1 and rack[0].rhs.canon() == '~r_ack', rack[0].loc if rack else None,
           'after a read the requested acknowledge is driven (low = ACK)')
    # (d) busy / strobes
    bz = q.clears(ir, 'self.busy')
    ok = len(bz) == 1 and q.state_of(bz[0]) == idle and all(not p for a_, p in q.atoms(bz[0])) and \
        {a_ for a_, p in q.atoms(bz[0])} == set(OPS)
    ctx.ob('C52.busy', 'I2CInitiator.busy-clear[%s]' % tag, ok, bz[0].loc if bz else None,
           'busy is cleared only in idle when no strobe is pending: %s' % [q.fmt(a) for a in bz])
    used = [x for x in list(fsm.edges) + ir.assigns if x.state and x.state[1] != idle and (set(OPS) & {a_ for a_, _ in q.atoms(x)})]
    ctx.ob('C52.busy', 'I2CInitiator.strobes-only-in-idle[%s]' % tag, not used, used[0].loc if used else None,
           'start/stop/read/write strobes are consulted only in idle')
    for reg, src, strobe in (('w_shreg', 'self.data_i', 'self.write'), ('r_ack', 'self.ack_i', 'self.read')):
        l = [a for a in ir.drivers(reg, exact=True) if a.rhs.canon() == src]
        ok = len(l) == 1 and q.state_of(l[0]) == idle and q.has(l[0], strobe)
        ctx.ob('C52.latch', 'I2CInitiator.%s[%s]' % (reg, tag), ok, l[0].loc if l else None, '%s is latched from %s with %s in idle' % (reg, src, strobe))
    # timer: with stretching, time only advances while the bus follows
    if stretch:
        t = [a for a in ir.drivers('timer', exact=True) if a.rhs.canon() == 'timer - 1']
        ok = len(t) == 1 and q.has(t[0], 'self.bus.scl_i == self.bus.scl_o')
        ctx.ob('C52.stretch', 'I2CInitiator.timer[%s]' % tag, ok, t[0].loc if t else None,
               'the phase timer counts only while scl_i follows scl_o (clock stretching): %s' % [q.fmt(a) for a in t])


def run(ctx):
    check(ctx, True)
    check(ctx, False)
