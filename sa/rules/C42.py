"""C42 -- LFPS patterns are detected exactly within their timing windows; the generator emits the typical pattern."""
import bisect
import math

from ..ir import E, AnalysisError
from .. import q
from ..values import pval

TITLE = 'LFPS detector windows / two-in-a-row rule and generator timing'
FLOOR = 100
DECIDES = ('Roles are found through the public ports of LFPSTransceiver (the submodule whose port drives '
           'polling_detected / ping_detected / reset_detected, the submodule that drives send_signaling and '
           'drive_electrical_idle); each such submodule is re-extracted with exactly the constructor arguments the '
           'transceiver passes (pattern object, forwarded clock frequency) for every clock frequency of a sweep. '
           '(a) the pattern objects wired to each role carry the USB 3.2 Table 6-30 numbers (Polling 0.6/1.0/1.4 us '
           'every 6/10/14 us, Ping 40 ns..160|200 ns every 160/200/240 ms, tReset 80/100/120 ms without repeat) and the '
           'transceiver forwards its clock frequency and wires signaling_received / send_polling to them '
           'unconditionally; (b) the extracted detector IR (FSM, registers with their declared widths, '
           'last-assignment-wins, state-scoped statements, one-cycle model of the synchronizer) is executed cycle by '
           'cycle on received envelopes -- stretches in which only free-running counters change are skipped exactly, '
           'using the constants the counters are compared with as region boundaries -- and the detect output is '
           'compared with the reference of the property: bursts of ceil(f*t_min) and floor(f*t_max) cycles are '
           'accepted, bursts one cycle shorter than f*t_min, at least one cycle longer than f*t_max, glitches, '
           'over-long bursts and continuous signalling are never reported; the same for the repeat period, which is '
           'measured from burst start to burst start (long burst + minimal period accepted, long burst + over-long '
           'period rejected, ...); a periodic pattern is reported only when two complete in-window iterations directly '
           'follow each other (single iteration, and a good iteration separated from the next by a short / long burst '
           'or a short / long period, never report; reporting resumes after two good ones); a non-repeating pattern is '
           'reported once per in-window burst; (c) every constant a counter is compared with fits the declared counter '
           'width; (d) the extracted generator IR executed the same way: while generate is high it emits bursts of '
           'f*t_typ cycles (less than one cycle of rounding) every f*T_typ cycles (at most two cycles of turnaround), '
           'holds drive_electrical_idle for the whole cycle, starts within a few cycles, sends nothing when not '
           'enabled and stops after the running cycle. ')
NOT_DECIDED = ('metastability / latency of the FFSynchronizer (modelled as one register), behaviour for burst lengths and '
               'periods within one cycle of a window edge on the outside (sampling quantisation; treated as do-not-care), '
               'envelopes whose next burst starts in the very cycle the detector gives up on an over-long period, the '
               'LFPS square wave itself (delegated to the PHY), cycles_sent counting, and the Ping.LFPS t_burst maximum '
               '(160 ns and 200 ns are both accepted as spec values).')

TOP = 'LFPSTransceiver'
EPS = 1e-6
BUDGET = 60000          # executed (not skipped) cycles per envelope
CMP = ('==', '!=', '<', '<=', '>', '>=')

# USB 3.2 r1.0 Table 6-30 (LFPS transmitter timing), seconds.  Each entry: tuple of acceptable values.
SPEC = {
    'polling': {'burst': {'t_min': (0.6e-6,), 't_typ': (1.0e-6,), 't_max': (1.4e-6,)},
                'repeat': {'t_min': (6.0e-6,), 't_typ': (10.0e-6,), 't_max': (14.0e-6,)}},
    'ping': {'burst': {'t_min': (40.0e-9,), 't_typ': None, 't_max': (200.0e-9, 160.0e-9)},
             'repeat': {'t_min': (160.0e-3,), 't_typ': (200.0e-3,), 't_max': (240.0e-3,)}},
    'reset': {'burst': {'t_min': (80.0e-3,), 't_typ': (100.0e-3,), 't_max': (120.0e-3,)},
              'repeat': None},
}
DETECT_PORTS = (('polling', 'self.polling_detected'), ('ping', 'self.ping_detected'), ('reset', 'self.reset_detected'))
RX_IN = 'self.signaling_received'
TX_REQ = 'self.send_polling'
TX_SIG = 'self.send_signaling'
TX_IDLE = 'self.drive_electrical_idle'
GEN_ROLE = 'polling'

QUICK_FREQS = (125e6, 62.5e6)
THOROUGH_FREQS = (125e6, 250e6, 62.5e6, 133.33e6, 156.25e6)
FWD_FREQ = 250e6


def _close(a, b):
    return isinstance(a, (int, float)) and not isinstance(a, bool) and math.isclose(a, b, rel_tol=1e-9, abs_tol=0.0)


def _mhz(f):
    return ('%g' % (f / 1e6)) + 'MHz'


# ------------------------------------------------------------------------------------------------ IR execution
def _width(e):
    if not isinstance(e, E):
        return None
    if e.op in CMP:
        return 1
    if e.w:
        return e.w
    if e.op == 'sig':
        return e.args[0].w
    if e.op in ('&', '|', '^'):
        ws = [_width(a) for a in e.args]
        return None if any(w is None for w in ws) else max(ws)
    if e.op == '~':
        return _width(e.args[0])
    if e.op == 'const' and isinstance(e.val, int) and e.val >= 0:
        return max(1, e.val.bit_length())
    return None


class Sim:
    """Cycle-accurate execution of one extracted ModuleIR (single clock domain)."""

    def __init__(self, ctx, ir, label):
        self.ctx, self.ir, self.label = ctx, ir, label
        self.assigns = sorted(ir.assigns, key=lambda a: a.order)
        for a in self.assigns:
            ctx.need(isinstance(a.lhs, E) and a.lhs.op == 'sig', 'whole-signal assignment targets in %s (%s)' % (label, q.fmt(a)))
        self.comb = [a for a in self.assigns if a.domain == 'comb']
        self.sync = [a for a in self.assigns if a.domain != 'comb']
        doms = {a.domain.split(':')[-1] for a in self.sync} | {f.domain for f in ir.fsms}
        ctx.need(len(doms) <= 1, 'one clock domain in %s (found %s)' % (label, sorted(doms)))
        self.si = {}
        for a in self.assigns:
            self.si[a.lhs.args[0].name] = a.lhs.args[0]
        self.comb_names = {a.lhs.args[0].name for a in self.comb}
        self.reg_names = {a.lhs.args[0].name for a in self.sync}
        ctx.need(not (self.comb_names & self.reg_names), 'signals driven from one domain only in %s' % label)
        read = set()
        for item in list(self.assigns) + [e for f in ir.fsms for e in f.edges]:
            for l in item.guard:
                ctx.need(l.kind != 'cfg' and isinstance(l.e, E), 'concrete configuration in %s (guard %s)' % (label, l.canon()))
                read |= l.e.sigs()
            if getattr(item, 'kind', '') == 'assign':
                ctx.need(isinstance(item.rhs, (E, int, bool)), 'evaluable right-hand side in %s (%s)' % (label, q.fmt(item)))
                if isinstance(item.rhs, E):
                    read |= item.rhs.sigs()
        self.inputs = sorted(read - self.comb_names - self.reg_names)
        self.fsms = list(ir.fsms)
        self.edges = {}
        for f in self.fsms:
            ctx.need(f.init is not None, 'initial state of the FSM of %s' % label)
            for e in f.edges:
                ctx.need(isinstance(e.dst, str) and e.dst in f.states, 'constant m.next targets in %s (%s)' % (label, e))
            for s in f.states:
                self.edges[(f.id, s)] = sorted(f.out_edges(s), key=lambda e: e.order)
        self._find_counters()

    # -- expression evaluation -----------------------------------------------------------------------------------
    def ev(self, e, env):
        if isinstance(e, bool):
            return int(e)
        if isinstance(e, int):
            return e
        if not isinstance(e, E):
            raise AnalysisError('cannot evaluate %r in %s' % (e, self.label))
        op = e.op
        if op == 'const':
            if isinstance(e.val, bool):
                return int(e.val)
            if not isinstance(e.val, int):
                raise AnalysisError('non-integer constant %s in %s' % (e.canon(), self.label))
            return e.val
        if op == 'sig':
            n = e.args[0].name
            if n not in env:
                raise AnalysisError('free signal %s in %s' % (n, self.label))
            return env[n]
        if op == 'slice':
            v = self.ev(e.args[0], env)
            lo, hi = e.args[1], e.args[2]
            if not isinstance(lo, int) or not isinstance(hi, int):
                raise AnalysisError('symbolic slice %s in %s' % (e.canon(), self.label))
            return (v >> lo) & ((1 << (hi - lo)) - 1)
        if op == '~':
            w = _width(e.args[0])
            if not w:
                raise AnalysisError('~ of unknown width: %s in %s' % (e.canon(), self.label))
            return ~self.ev(e.args[0], env) & ((1 << w) - 1)
        if op == 'mux':
            return self.ev(e.args[1], env) if self.ev(e.args[0], env) else self.ev(e.args[2], env)
        if op in ('+', '-', '&', '|', '^', '*') or op in CMP:
            vals = [self.ev(a, env) for a in e.args]
            if op == '+':
                return sum(vals)
            if op == '*':
                r = 1
                for v in vals:
                    r *= v
                return r
            if op in ('&', '|', '^'):
                r = vals[0]
                for v in vals[1:]:
                    r = (r & v) if op == '&' else (r | v) if op == '|' else (r ^ v)
                return r
            if len(vals) == 2:
                a, b = vals
                if op == '-':
                    return a - b
                return int({'==': a == b, '!=': a != b, '<': a < b, '<=': a <= b, '>': a > b, '>=': a >= b}[op])
        raise AnalysisError('cannot evaluate %s (%s) in %s' % (e.canon(), op, self.label))

    def holds(self, guard, env):
        for l in guard:
            if bool(self.ev(l.e, env)) != l.pos:
                return False
        return True

    @staticmethod
    def _scopes(item):
        sts = getattr(item, 'states', None) or ()
        if sts:
            return sts
        return (item.state,) if item.state else ()

    def active(self, item, st):
        return all(st.get(fid) == s for fid, s in self._scopes(item))

    def _mask(self, name, v):
        w = self.si[name].w
        return v & ((1 << w) - 1) if w else v

    def _reset(self, name):
        v = pval(self.si[name].init) if self.si[name].init is not None else 0
        return v if isinstance(v, int) else 0

    # -- counters that may be skipped over --------------------------------------------------------------------------
    def _find_counters(self):
        cands = set()
        for a in self.sync:
            n = a.lhs.args[0].name
            if isinstance(a.rhs, E) and a.rhs.canon() == '1 + ' + n:
                cands.add(n)
        thr = {n: set() for n in cands}
        bad = set()

        def linear(x):
            if isinstance(x, E) and x.op == 'sig' and x.args[0].name in cands:
                return x.args[0].name, 0
            if isinstance(x, E) and x.op in ('+', '-') and len(x.args) == 2:
                a, b = x.args
                if isinstance(a, E) and a.op == 'sig' and a.args[0].name in cands and isinstance(b, E) and \
                        b.op == 'const' and isinstance(b.val, int):
                    return a.args[0].name, (b.val if x.op == '+' else -b.val)
                if x.op == '+' and isinstance(b, E) and b.op == 'sig' and b.args[0].name in cands and \
                        isinstance(a, E) and a.op == 'const' and isinstance(a.val, int):
                    return b.args[0].name, a.val
            return None

        def scan(e):
            if not isinstance(e, E):
                return
            if e.op in CMP and len(e.args) == 2:
                for x, k in ((e.args[0], e.args[1]), (e.args[1], e.args[0])):
                    if isinstance(k, E) and k.op == 'const' and isinstance(k.val, int) and not isinstance(k.val, bool):
                        lin = linear(x)
                        if lin:
                            thr[lin[0]].add(k.val - lin[1])
                            return
            if e.op == 'sig':
                if e.args[0].name in cands:
                    bad.add(e.args[0].name)
                return
            for a in e.args:
                scan(a)

        for item in list(self.assigns) + [e for f in self.fsms for e in f.edges]:
            for l in item.guard:
                scan(l.e)
            if getattr(item, 'kind', '') == 'assign' and isinstance(item.rhs, E):
                n = item.lhs.args[0].name
                if n in cands and item.rhs.canon() == '1 + ' + n:
                    continue
                scan(item.rhs)
        self.thresholds = {n: sorted(t) for n, t in thr.items()}
        self.jumpable = cands - bad
        self.breaks = {}
        for n in self.jumpable:
            b = set()
            for t in thr[n]:
                b.update((t, t + 1))
            w = self.si[n].w
            if w:
                b.update(((1 << w) - 1, 1 << w))
            self.breaks[n] = sorted(x for x in b if x >= 0)

    # -- one clock cycle -----------------------------------------------------------------------------------------------
    def step(self, st, regs, inp):
        env = dict(regs)
        env.update(inp)
        comb = {n: self._reset(n) for n in self.comb_names}
        for _ in range(8):
            env.update(comb)
            new = {n: self._reset(n) for n in self.comb_names}
            for a in self.comb:
                if self.active(a, st) and self.holds(a.guard, env):
                    new[a.lhs.args[0].name] = self._mask(a.lhs.args[0].name, self.ev(a.rhs, env))
            if new == comb:
                break
            comb = new
        else:
            raise AnalysisError('combinational loop in %s' % self.label)
        env.update(comb)
        nxt = dict(regs)
        for a in self.sync:
            if not (self.active(a, st) and self.holds(a.guard, env)):
                continue
            n = a.lhs.args[0].name
            rhs = a.rhs
            if isinstance(rhs, E) and rhs.op == 'call':
                if rhs.args[0] != 'ffsync' or len(rhs.args) != 2:
                    raise AnalysisError('cannot evaluate %s in %s' % (rhs.canon(), self.label))
                rhs = rhs.args[1]          # synchronizer: a fixed delay; one register is enough for the envelope
            nxt[n] = self._mask(n, self.ev(rhs, env))
        st2 = dict(st)
        for f in self.fsms:
            for e in self.edges[(f.id, st[f.id])]:
                if self.active(e, st) and self.holds(e.guard, env):
                    st2[f.id] = e.dst
        return env, st2, nxt

    def run(self, segments, watch):
        """segments: [(inputs dict, cycles)] from reset.  Returns the run-length encoded trace [(t0, n, values)]."""
        for w in watch:
            self.ctx.need(w in self.comb_names or w in self.reg_names, 'output %s of %s' % (w, self.label))
        st = {f.id: f.init for f in self.fsms}
        regs = {n: self._reset(n) for n in self.reg_names}
        t, steps, trace = 0, 0, []

        def emit(t0, n, obs):
            if trace and trace[-1][2] == obs:
                trace[-1] = (trace[-1][0], trace[-1][1] + n, obs)
            else:
                trace.append((t0, n, obs))

        for inp, dur in segments:
            remaining = dur
            seen = {}
            while remaining > 0:
                # a wrapped free-running counter with everything else unchanged: the machine is periodic while the
                # inputs are constant -- replay whole periods instead of executing them
                if any(regs.get(r) == 0 for r in self.jumpable):
                    key = (tuple(sorted(st.items())), tuple(sorted(regs.items())))
                    t_prev = seen.get(key)
                    if t_prev is not None and t - t_prev <= remaining:
                        period = t - t_prev
                        k = remaining // period
                        chunk = []
                        for t0, n, obs in trace:
                            a, b = max(t0, t_prev), min(t0 + n, t)
                            if a < b:
                                chunk.append((b - a, obs))
                        if len({o for _, o in chunk}) == 1:
                            emit(t, k * period, chunk[0][1])
                        else:
                            tt = t
                            for _ in range(k):
                                for n, obs in chunk:
                                    emit(tt, n, obs)
                                    tt += n
                        t += k * period
                        remaining -= k * period
                        seen = {}
                        if remaining == 0:
                            break
                    seen[key] = t
                steps += 1
                if steps > BUDGET:
                    raise AnalysisError('%s: envelope needs more than %d executed cycles (a free-running counter is read '
                                        'outside comparisons with constants, cannot skip)' % (self.label, BUDGET))
                env, st2, regs2 = self.step(st, regs, inp)
                obs = tuple(env[w] for w in watch)
                n = 1
                if st2 == st and remaining > 1:
                    inc, quiet = [], True
                    for r in regs:
                        if regs2[r] == regs[r]:
                            continue
                        if r in self.jumpable and regs2[r] == regs[r] + 1:
                            inc.append(r)
                        else:
                            quiet = False
                            break
                    if quiet:
                        skip = remaining - 1
                        for r in inc:
                            bp = self.breaks[r]
                            i = bisect.bisect_right(bp, regs[r])
                            if i < len(bp):
                                skip = min(skip, bp[i] - 1 - regs[r])
                        if skip > 0:
                            for r in inc:
                                regs2[r] += skip
                            n += skip
                emit(t, n, obs)
                t += n
                remaining -= n
                st, regs = st2, regs2
        return trace


# ------------------------------------------------------------------------------------------------ role resolution
def _port_source(ctx, tir, out):
    """(Obj of the submodule, port leaf name, assignment) behind a transceiver output that mirrors a submodule port."""
    ds = tir.drivers(out, exact=True)
    ctx.need(len(ds) == 1 and ds[0].domain == 'comb' and isinstance(ds[0].rhs, E) and ds[0].rhs.op == 'sig',
             '%s.%s mirrors one submodule port (drivers: %s)' % (TOP, out, [q.fmt(a) for a in ds]))
    si = ds[0].rhs.args[0]
    obj = si.parent
    ctx.need(obj is not None and any(s.obj is obj for s in tir.submodules),
             '%s is driven from a port of a registered submodule (found %s)' % (out, si.name))
    return obj, si.leaf, ds[0]


def _ctor_kwargs(ctx, obj):
    """The constructor call of a submodule object as keyword arguments."""
    cls, fn = ctx.func(obj.clsname, '__init__')
    names = [a.arg for a in fn.args.args][1:]
    args = list(getattr(obj, 'args', []) or [])
    ctx.need(len(args) <= len(names), 'constructor arguments of %s' % obj.clsname)
    kw = dict(zip(names, args))
    kw.update(obj.kwargs or {})
    return kw


def _conc(v):
    c = pval(v)
    return c if isinstance(c, (int, float)) and not isinstance(c, bool) else None


def _ctor_values(obj):
    out = []
    for v in list(getattr(obj, 'args', []) or []) + list((obj.kwargs or {}).values()):
        out.append(_conc(v))
    return out


def _timing(ctx, pattern, section, field):
    sec = pattern.attrs.get(section) if hasattr(pattern, 'attrs') else None
    ctx.need(sec is not None and hasattr(sec, 'attrs') and field in sec.attrs,
             'attribute %s.%s of the LFPS pattern object' % (section, field))
    return pval(sec.attrs[field])


def _pattern_of(ctx, obj):
    pats = [v for v in list(getattr(obj, 'args', []) or []) + list((obj.kwargs or {}).values())
            if hasattr(v, 'attrs') and 'burst' in getattr(v, 'attrs', {})]
    ctx.need(len(pats) == 1, 'LFPS pattern object among the constructor arguments of %s' % obj.clsname)
    return pats[0]


def check_spec(ctx, role, pattern, user, loc):
    """(a) the pattern wired to this role carries the spec numbers.  Returns the effective times for the reference."""
    spec = SPEC[role]
    eff = {}
    for section in ('burst', 'repeat'):
        if spec[section] is None:
            ctx.need(hasattr(pattern, 'attrs') and section in pattern.attrs, 'attribute %s of the LFPS pattern object' % section)
            got = pattern.attrs[section]
            ctx.ob('C42.spec-constants', 'LFPS[%s->%s].%s' % (role, user, section), got is None, loc,
                   '%s LFPS is a non-repeating pattern: its %s must be None, found %r' % (role, section, got))
            eff[section] = None
            continue
        ctx.need(hasattr(pattern, 'attrs') and pattern.attrs.get(section) is not None,
                 '%s timing of the %s LFPS pattern wired to %s' % (section, role, user))
        eff[section] = {}
        for field in ('t_min', 't_typ', 't_max'):
            want = spec[section][field]
            if want is None:
                eff[section][field] = None
                continue
            got = _timing(ctx, pattern, section, field)
            ok = any(_close(got, w) for w in want)
            ctx.ob('C42.spec-constants', 'LFPS[%s->%s].%s.%s' % (role, user, section, field), ok, loc,
                   'the pattern wired to the %s %s has %s.%s = %r, USB 3.2 Table 6-30 says %s s' % (
                       role, user, section, field, got, ' or '.join('%g' % w for w in want)))
            eff[section][field] = got if ok else want[0]
    return eff


# ------------------------------------------------------------------------------------------------ reference model
def lo_int(x):
    """smallest cycle count that is >= x"""
    return int(math.ceil(x - EPS))


def hi_int(x):
    """largest cycle count that is <= x"""
    return int(math.floor(x + EPS))


def over_int(x):
    """smallest cycle count that is at least one full cycle above x"""
    return int(math.ceil(x + 1 - EPS))


def burst_class(L, b):
    if b[0] - EPS <= L <= b[1] + EPS:
        return True
    if L < b[0] - EPS or L >= b[1] + 1 - EPS:
        return False
    return None


def envelope(bursts, lead, tail):
    """bursts: [(L, R)] -- L cycles of signalling, next burst R cycles after this one started."""
    segs = [(0, lead)]
    starts = []
    t = lead
    for i, (L, R) in enumerate(bursts):
        starts.append(t)
        segs.append((1, L))
        if i + 1 < len(bursts):
            segs.append((0, R - L))
            t += R
        else:
            segs.append((0, tail))
            t += L + tail
    return segs, starts, t


def run_envelope(sim, rx, det, bursts, tail):
    segs, starts, end = envelope(bursts, 7, tail)
    trace = sim.run([({rx: v}, n) for v, n in segs if n > 0], (det,))
    hits = {}
    for t0, n, (v,) in trace:
        if not v:
            continue
        for k in range(len(starts)):
            w0 = starts[k]
            w1 = starts[k + 1] if k + 1 < len(starts) else end
            if t0 < w1 and t0 + n > w0:
                hits.setdefault(k, t0)
        if t0 < starts[0]:
            hits.setdefault(-1, t0)
    return hits, starts


def judge(ctx, rule, key, sim, rx, det, bursts, must, tail, loc, why):
    for L, R in bursts[:-1]:
        ctx.need(1 <= L and L + 4 <= R, 'well-formed test envelope for %s (%s)' % (key, bursts))
    hits, starts = run_envelope(sim, rx, det, bursts, tail)
    wrong = []
    for k in range(-1, len(bursts)):
        if k in must and k not in hits:
            wrong.append('no report after burst %d although it was required' % k)
        if k not in must and k in hits:
            wrong.append('reported at cycle %d (in the interval that follows the start of burst %d)' % (hits[k], k))
    shown = bursts if len(bursts) <= 5 else bursts[:5] + ['...']
    ctx.ob(rule, key, not wrong, loc,
           '%s: %s.  Envelope (burst cycles, start-to-start cycles) = %s: %s' % (sim.label, why, shown, '; '.join(wrong)))


# ------------------------------------------------------------------------------------------------ detectors
def check_detector(ctx, role, f, obj, port, eff, sweep):
    tag = '%s@%s' % (role, _mhz(f))
    kw = _ctor_kwargs(ctx, obj)
    ir = ctx.ir(obj.clsname, **kw)
    label = '%s[%s]' % (obj.clsname, tag)
    sim = Sim(ctx, ir, label)
    det = 'self.' + port
    ctx.need(det in sim.comb_names or det in sim.reg_names, 'output %s of %s' % (det, obj.clsname))
    ctx.need(len(sim.inputs) == 1, 'exactly one input of %s (found %s)' % (obj.clsname, sim.inputs))
    rx = sim.inputs[0]
    raise_sites = q.raises(ir, det)
    ctx.need(raise_sites, 'a site raising %s' % det)
    loc = raise_sites[0].loc
    K = '%s[%s]' % (obj.clsname, tag)

    # (c) counters hold every constant they are compared with
    ctx.need(sim.jumpable, 'a free-running cycle counter compared with constants in %s' % obj.clsname)
    for c in sorted(sim.jumpable):
        w = sim.si[c].w
        ths = sim.thresholds[c]
        ctx.need(ths, 'constants compared with counter %s' % c)
        ok = w is None or all(0 <= t < (1 << w) for t in ths)
        ctx.ob('C42.counter-range', '%s.counter' % K, ok, sim.si[c].loc,
               '%s: counter %s is %s bits wide but is compared with %s' % (label, c, w, ths))

    b = (f * eff['burst']['t_min'], f * eff['burst']['t_max'])
    b_typ = eff['burst']['t_typ']
    lo_b, hi_b, ov_b = lo_int(b[0]), hi_int(b[1]), over_int(b[1])
    ctx.need(1 <= lo_b <= hi_b, 'clock frequency %g resolves the %s burst window' % (f, role))
    Lg = int(round(f * b_typ)) if b_typ else (lo_b + hi_b) // 2
    us = lambda n: '%d cycles = %.4g us' % (n, n / f * 1e6)
    wb = 'burst window %.4g..%.4g cycles' % b

    if eff['repeat'] is None:
        gap = 50
        one = lambda L: [(L, L + gap)]
        J = lambda rule, k, bursts, must, why: judge(ctx, rule, '%s.%s' % (K, k), sim, rx, det, bursts, must, gap, loc, why)
        J('C42.detect-nominal', 'nominal', [(Lg, Lg + gap), (Lg, Lg + gap)], {0, 1},
          'each typical burst (%s) must be reported once it has ended' % us(Lg))
        J('C42.burst-window', 'burst-min.accept', one(lo_b), {0}, 'a burst of %s is inside the %s' % (us(lo_b), wb))
        if lo_b - 1 >= 1:
            J('C42.burst-window', 'burst-min.reject', one(lo_b - 1), set(),
              'a burst of %s is shorter than the %s and must never be reported' % (us(lo_b - 1), wb))
        if lo_b // 2 >= 1 and lo_b // 2 != lo_b - 1:
            J('C42.burst-window', 'burst-half.reject', one(lo_b // 2), set(),
              'a burst of %s is shorter than the %s and must never be reported' % (us(lo_b // 2), wb))
        if lo_b - 1 > 1:
            J('C42.burst-window', 'burst-glitch.reject', one(1) + one(2), set(), 'a one or two cycle glitch is not a burst')
        J('C42.burst-window', 'burst-max.accept', one(hi_b), {0}, 'a burst of %s is inside the %s' % (us(hi_b), wb))
        J('C42.burst-window', 'burst-max.reject', one(ov_b), set(),
          'a burst of %s is longer than the %s and must never be reported' % (us(ov_b), wb))
        J('C42.burst-window', 'burst-overlong.reject', one(3 * hi_b), set(),
          'a burst of %s is far longer than the %s and must never be reported (neither during nor after it)' % (us(3 * hi_b), wb))
        if sweep:
            vals = set()
            for c in sim.jumpable:
                for p in sim.breaks[c]:
                    vals.update((p - 1, p, p + 1))
            vals.update(int(hi_b * k / 8) for k in range(1, 17))
            for L in sorted(v for v in vals if 1 <= v <= 4 * hi_b):
                cl = burst_class(L, b)
                if cl is None:
                    continue
                J('C42.burst-window', 'sweep.burst=%d' % L, one(L), {0} if cl else set(),
                  'a burst of %s is %s the %s' % (us(L), 'inside' if cl else 'outside', wb))
        return

    r = (f * eff['repeat']['t_min'], f * eff['repeat']['t_max'])
    lo_r, hi_r, ov_r = lo_int(r[0]), hi_int(r[1]), over_int(r[1])
    Rg = int(round(f * eff['repeat']['t_typ']))
    ctx.need(3 * hi_b + 8 < lo_r <= Rg <= hi_r, 'clock frequency %g resolves the %s repeat window' % (f, role))
    wr = 'repeat window %.6g..%.6g cycles' % r
    G = (Lg, Rg)
    half = max(Lg + 6, lo_r // 2)
    T = lambda bursts: bursts[-1][0] + 12

    def J(rule, k, bursts, must, why, tail=None):
        judge(ctx, rule, '%s.%s' % (K, k), sim, rx, det, bursts, must, tail if tail is not None else T(bursts), loc, why)

    def four(L, R):
        return [(L, R)] * 4

    acc = {2, 3}
    J('C42.detect-nominal', 'nominal', four(*G), acc,
      'typical bursts (%s every %s) must be reported from the end of the second complete iteration on, not earlier' % (us(Lg), us(Rg)))
    # burst window
    J('C42.burst-window', 'burst-min.accept', four(lo_b, Rg), acc, 'bursts of %s are inside the %s' % (us(lo_b), wb))
    if lo_b - 1 >= 1:
        J('C42.burst-window', 'burst-min.reject', four(lo_b - 1, Rg), set(),
          'bursts of %s are shorter than the %s and must never be reported' % (us(lo_b - 1), wb))
    if lo_b - 1 > 1:
        J('C42.burst-window', 'burst-glitch.reject', four(1, Rg), set(), 'one-cycle glitches are not bursts')
    J('C42.burst-window', 'burst-max.accept', four(hi_b, Rg), acc, 'bursts of %s are inside the %s' % (us(hi_b), wb))
    J('C42.burst-window', 'burst-max.reject', four(ov_b, Rg), set(),
      'bursts of %s are longer than the %s and must never be reported' % (us(ov_b), wb))
    J('C42.burst-window', 'burst-overlong.reject', four(3 * hi_b, Rg), set(),
      'bursts of %s are far longer than the %s and must never be reported' % (us(3 * hi_b), wb))
    J('C42.burst-window', 'continuous.reject', [(3 * hi_r, 3 * hi_r + 40)] * 2, set(),
      'continuous signalling (%s) is not a periodic pattern' % us(3 * hi_r))
    # repeat window
    J('C42.repeat-window', 'repeat-min.accept', four(Lg, lo_r), acc, 'a period of %s is inside the %s' % (us(lo_r), wr))
    J('C42.repeat-window', 'repeat-min.reject', four(Lg, lo_r - 1), set(),
      'a period of %s is shorter than the %s and must never be reported' % (us(lo_r - 1), wr))
    J('C42.repeat-window', 'repeat-half.reject', four(Lg, half), set(),
      'a period of %s is shorter than the %s and must never be reported' % (us(half), wr))
    J('C42.repeat-window', 'repeat-max.accept', four(Lg, hi_r), acc, 'a period of %s is inside the %s' % (us(hi_r), wr))
    J('C42.repeat-window', 'repeat-max.reject', four(Lg, ov_r), set(),
      'a period of %s is longer than the %s and must never be reported' % (us(ov_r), wr))
    J('C42.repeat-window', 'repeat-double.reject', four(Lg, 2 * hi_r), set(),
      'a period of %s is longer than the %s and must never be reported' % (us(2 * hi_r), wr))
    # the period runs from burst start to burst start
    J('C42.repeat-from-burst-start', 'long-burst.min-period.accept', four(hi_b, lo_r), acc,
      'the repeat period is measured from burst start: %s bursts every %s are inside both windows' % (us(hi_b), us(lo_r)))
    J('C42.repeat-from-burst-start', 'long-burst.over-period.reject', four(hi_b, ov_r), set(),
      'the repeat period is measured from burst start: %s bursts every %s exceed the %s' % (us(hi_b), us(ov_r), wr))
    J('C42.repeat-from-burst-start', 'short-burst.max-period.accept', four(lo_b, hi_r), acc,
      'the repeat period is measured from burst start: %s bursts every %s are inside both windows' % (us(lo_b), us(hi_r)))
    J('C42.repeat-from-burst-start', 'short-burst.under-period.reject', four(lo_b, lo_r - 1), set(),
      'the repeat period is measured from burst start: %s bursts every %s fall short of the %s' % (us(lo_b), us(lo_r - 1), wr))
    # two complete in-window iterations in a row
    J('C42.two-in-a-row', 'single-iteration', [G, G], set(),
      'one complete iteration followed by silence must not be reported', tail=3 * hi_r)
    bad = [('after-long-burst', (3 * hi_b, Rg), 'an over-long burst'),
           ('after-short-period', (Lg, half), 'a too short period'),
           ('after-long-period', (Lg, 2 * hi_r), 'a too long period')]
    if lo_b - 1 >= 1:
        bad.insert(0, ('after-short-burst', (lo_b - 1, Rg), 'a too short burst'))
    for k, B, txt in bad:
        J('C42.two-in-a-row', k, [G, B, G, G, G], {4},
          'a good iteration, then %s, then good iterations: the iteration before the bad one must not count '
          '(first report only after two new good iterations)' % txt)
    if sweep:
        vals = set()
        for c in sim.jumpable:
            for p in sim.breaks[c]:
                vals.update((p - 1, p, p + 1))
        ls = sorted(v for v in vals | {int(hi_b * k / 6) for k in range(1, 13)} if 1 <= v <= 3 * hi_b)
        for L in ls:
            cl = burst_class(L, b)
            if cl is None:
                continue
            J('C42.burst-window', 'sweep.burst=%d' % L, four(L, Rg), acc if cl else set(),
              'bursts of %s are %s the %s' % (us(L), 'inside' if cl else 'outside', wb))
        rs = sorted(v for v in vals | {int(hi_r * k / 6) for k in range(1, 13)} if Lg + 6 <= v <= 3 * hi_r)
        for R in rs:
            cl = burst_class(R, r)
            if cl is None:
                continue
            J('C42.repeat-window', 'sweep.period=%d' % R, four(Lg, R), acc if cl else set(),
              'a period of %s is %s the %s' % (us(R), 'inside' if cl else 'outside', wr))


# ------------------------------------------------------------------------------------------------ generator
def check_generator(ctx, f, obj, sig_port, idle_port, eff):
    tag = '%s@%s' % (GEN_ROLE, _mhz(f))
    kw = _ctor_kwargs(ctx, obj)
    ir = ctx.ir(obj.clsname, **kw)
    label = '%s[%s]' % (obj.clsname, tag)
    K = label
    sim = Sim(ctx, ir, label)
    sig, idle = 'self.' + sig_port, 'self.' + idle_port
    ctx.need(len(sim.inputs) == 1, 'exactly one input of %s (found %s)' % (obj.clsname, sim.inputs))
    req = sim.inputs[0]
    loc = (q.raises(ir, sig) or [None])[0]
    loc = loc.loc if loc is not None else None
    ctx.need(eff['repeat'] is not None and eff['burst']['t_typ'] and eff['repeat']['t_typ'], 'typical timings of the generated pattern')
    xb, xr = f * eff['burst']['t_typ'], f * eff['repeat']['t_typ']
    P = int(round(xr))
    for c in sorted(sim.jumpable):
        w = sim.si[c].w
        ths = sim.thresholds[c]
        ok = w is None or all(0 <= t < (1 << w) for t in ths)
        ctx.ob('C42.counter-range', '%s.counter' % K, ok, sim.si[c].loc,
               '%s: counter %s is %s bits wide but has to reach %s' % (label, c, w, ths))
    lead, on, off = 5, 3 * P + P // 2, 2 * P + 20
    trace = sim.run([({req: 0}, lead), ({req: 1}, on), ({req: 0}, off)], (sig, idle))
    t_on, t_off = lead, lead + on
    bursts = [(t0, n) for t0, n, (s, i) in trace if s]
    # nothing while not enabled
    early = [t0 for t0, n, (s, i) in trace if (s or i) and t0 < t_on]
    ctx.ob('C42.generator-idle', '%s.quiet-before-enable' % K, not early, loc,
           '%s: send_signaling / drive_electrical_idle asserted at cycle %s although generate was never high' % (label, early[:1]))
    ctx.ob('C42.generator-start', '%s.starts-when-enabled' % K, bool(bursts) and t_on <= bursts[0][0] <= t_on + 4, loc,
           '%s: the first burst must start within 4 cycles of generate going high (burst starts: %s, generate high at %d)' % (
               label, [b_[0] for b_ in bursts[:3]], t_on))
    full = [(t0, n) for t0, n in bursts if t0 + n < t_off]
    ok = len(full) >= 3 and all(abs(n - xb) < 1 + EPS for t0, n in full)
    ctx.ob('C42.generator-burst', '%s.burst-length' % K, ok, loc,
           '%s: bursts must last the typical %.6g cycles (t_typ of the burst, rounded up by less than a cycle); measured %s '
           'while generate was high for %d cycles' % (label, xb, [n for t0, n in full], on))
    periods = [full[i + 1][0] - full[i][0] for i in range(len(full) - 1)]
    ok = len(periods) >= 2 and all(abs(p - xr) <= 2 + EPS for p in periods)
    ctx.ob('C42.generator-period', '%s.repeat-period' % K, ok, loc,
           '%s: bursts must start every typical %.6g cycles (t_typ of the repeat, at most two cycles of rounding / turnaround); '
           'measured start-to-start %s' % (label, xr, periods))
    # electrical idle held for the whole cycle; signalling only together with it
    first = bursts[0][0] if bursts else t_on
    low = [t0 for t0, n, (s, i) in trace if not i and t0 + n > first and t0 < t_off]
    ctx.ob('C42.generator-idle', '%s.idle-held-between-bursts' % K, bool(bursts) and not low, loc,
           '%s: drive_electrical_idle must stay high from the first burst until generate falls; it is low at cycle %s' % (
               label, [max(t, first) for t in low[:1]]))
    alone = [t0 for t0, n, (s, i) in trace if s and not i]
    ctx.ob('C42.generator-idle', '%s.signalling-implies-idle-drive' % K, not alone, loc,
           '%s: send_signaling without drive_electrical_idle at cycle %s' % (label, alone[:1]))
    late = [t0 + n - 1 for t0, n, (s, i) in trace if (s or i) and t0 + n - 1 > t_off + P + 4]
    ctx.ob('C42.generator-stop', '%s.stops-after-running-cycle' % K, not late, loc,
           '%s: still transmitting at cycle %s, more than one period after generate fell at %d' % (label, late[:1], t_off))


# ------------------------------------------------------------------------------------------------ entry
def resolve(ctx, f):
    """Roles of the transceiver's submodules at clock frequency f."""
    tir = ctx.ir(TOP, ss_clk_freq=f) if f is not None else ctx.ir(TOP)
    dets = {}
    for role, out in DETECT_PORTS:
        ctx.sig(tir, out)
        dets[role] = _port_source(ctx, tir, out)
    ctx.sig(tir, TX_SIG)
    ctx.sig(tir, TX_IDLE)
    gsig = _port_source(ctx, tir, TX_SIG)
    gidle = _port_source(ctx, tir, TX_IDLE)
    return tir, dets, gsig, gidle


def _sub_input(ctx, obj):
    """The only input port of a submodule class (undriven signal its elaborate reads)."""
    ir = ctx.ir(obj.clsname, **_ctor_kwargs(ctx, obj))
    driven = {t for a in ir.assigns for t in a.lhs_sigs()}
    read = set()
    for item in list(ir.assigns) + [e for fsm in ir.fsms for e in fsm.edges]:
        for l in item.guard:
            if isinstance(l.e, E):
                read |= l.e.sigs()
        if getattr(item, 'kind', '') == 'assign' and isinstance(item.rhs, E):
            read |= item.rhs.sigs()
    ins = sorted(s for s in read - driven if s.startswith('self.'))
    ctx.need(len(ins) == 1, 'exactly one input port of %s (found %s)' % (obj.clsname, ins))
    return ins[0][len('self.'):]


def check_wiring(ctx, tir, dets, gsig, gidle):
    for role, (obj, port, a) in sorted(dets.items()):
        ctx.ob('C42.wiring', '%s.%s_detected' % (TOP, role), not a.guard and a.state is None, a.loc,
               '%s_detected must mirror the detector output unconditionally: %s' % (role, q.fmt(a)))
        inp = _sub_input(ctx, obj)
        ds = tir.drivers(obj.path + '.' + inp, exact=True)
        ok = len(ds) == 1 and ds[0].domain == 'comb' and not ds[0].guard and isinstance(ds[0].rhs, E) and ds[0].rhs.canon() == RX_IN
        ctx.ob('C42.wiring', '%s.%s-detector.input' % (TOP, role), ok, ds[0].loc if ds else a.loc,
               'the %s detector input %s must be %s, unconditionally: %s' % (role, inp, RX_IN, [q.fmt(d) for d in ds]))
    others = [o for o in dets.values()]
    ctx.ob('C42.wiring', '%s.detectors-distinct' % TOP, len({id(o[0]) for o in others}) == len(others), None,
           'each of polling/ping/reset_detected needs its own detector instance')
    ctx.ob('C42.wiring', '%s.generator-ports' % TOP, gsig[0] is gidle[0] and gsig[1] != gidle[1] and
           not gsig[2].guard and not gidle[2].guard, gsig[2].loc,
           'send_signaling and drive_electrical_idle must mirror two ports of the same generator: %s / %s' % (
               q.fmt(gsig[2]), q.fmt(gidle[2])))
    inp = _sub_input(ctx, gsig[0])
    ds = tir.drivers(gsig[0].path + '.' + inp, exact=True)
    ok = len(ds) == 1 and ds[0].domain == 'comb' and not ds[0].guard and isinstance(ds[0].rhs, E) and ds[0].rhs.canon() == TX_REQ
    ctx.ob('C42.wiring', '%s.generator.request' % TOP, ok, ds[0].loc if ds else gsig[2].loc,
           'the generator request %s must be %s, unconditionally: %s' % (inp, TX_REQ, [q.fmt(d) for d in ds]))


def run(ctx):
    freqs = THOROUGH_FREQS if ctx.tier == 'thorough' else QUICK_FREQS
    # default construction (what the PHY layer instantiates): wiring + spec constants
    tir, dets, gsig, gidle = resolve(ctx, None)
    check_wiring(ctx, tir, dets, gsig, gidle)
    for role, (obj, port, a) in sorted(dets.items()):
        check_spec(ctx, role, _pattern_of(ctx, obj), 'detector', a.loc)
    check_spec(ctx, GEN_ROLE, _pattern_of(ctx, gsig[0]), 'generator', gsig[2].loc)
    # the clock frequency reaches every submodule
    tir2, dets2, gsig2, gidle2 = resolve(ctx, FWD_FREQ)
    for name, obj, loc in [(r, d[0], d[2].loc) for r, d in sorted(dets2.items())] + [('generator', gsig2[0], gsig2[2].loc)]:
        vals = _ctor_values(obj)
        ctx.ob('C42.clock-forwarded', '%s.%s.clock' % (TOP, name), any(v is not None and _close(v, FWD_FREQ) for v in vals), loc,
               '%s(ss_clk_freq=%g) must construct its %s with that clock frequency; constructor numbers: %s' % (
                   TOP, FWD_FREQ, name, [v for v in vals if v is not None]))
    # behaviour at each frequency
    for i, f in enumerate(freqs):
        tir_f, dets_f, gsig_f, gidle_f = resolve(ctx, f)
        sweep = ctx.tier == 'thorough' and i == 0
        for role, (obj, port, a) in sorted(dets_f.items()):
            pat = _pattern_of(ctx, obj)
            eff = _effective(ctx, role, pat)
            check_detector(ctx, role, f, obj, port, eff, sweep)
        ctx.need(gsig_f[0] is gidle_f[0], 'one generator drives send_signaling and drive_electrical_idle')
        eff = _effective(ctx, GEN_ROLE, _pattern_of(ctx, gsig_f[0]))
        check_generator(ctx, f, gsig_f[0], gsig_f[1], gidle_f[1], eff)


def _effective(ctx, role, pattern):
    """Reference times: the spec value (the pattern's own value where the spec allows several and it is one of them)."""
    spec = SPEC[role]
    eff = {}
    for section in ('burst', 'repeat'):
        if spec[section] is None:
            eff[section] = None
            continue
        eff[section] = {}
        for field in ('t_min', 't_typ', 't_max'):
            want = spec[section][field]
            if want is None:
                eff[section][field] = None
                continue
            got = None
            sec = pattern.attrs.get(section) if hasattr(pattern, 'attrs') else None
            if sec is not None and hasattr(sec, 'attrs'):
                got = pval(sec.attrs.get(field))
            eff[section][field] = got if any(_close(got, w) for w in want) else want[0]
    return eff
