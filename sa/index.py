"""Repository index: parse every module of the analysed tree with `ast`, build the module / class /
function tables and resolve imports by name.  Nothing is imported or executed."""
from __future__ import annotations
import ast
import glob
import hashlib
import os
import sys

from .ir import AnalysisError
from . import alpha


class ClassInfo:
    def __init__(self, name, node, mod):
        self.name = name
        self.node = node
        self.mod = mod
        self.base_exprs = node.bases
        self.methods = {}
        self.class_assigns = {}     # name -> ast expr
        self.decorators = {}
        for st in node.body:
            if isinstance(st, (ast.FunctionDef,)):
                self.methods[st.name] = st
                self.decorators[st.name] = [ast.unparse(d) for d in st.decorator_list]
            elif isinstance(st, ast.Assign):
                for t in st.targets:
                    if isinstance(t, ast.Name):
                        self.class_assigns[t.id] = st.value
            elif isinstance(st, ast.AnnAssign) and isinstance(st.target, ast.Name):
                self.class_assigns[st.target.id] = st.value if st.value is not None else st.annotation
        self._mro = None

    def __repr__(self):
        return 'Class<%s.%s>' % (self.mod.name, self.name)


class ModInfo:
    def __init__(self, name, path, relpath, tree, src, is_pkg):
        self.name = name
        self.path = path
        self.relpath = relpath
        self.tree = tree
        self.src = src
        self.is_pkg = is_pkg
        self.classes = {}
        self.funcs = {}
        self.assigns = {}           # name -> ast expr (last module-level assignment)
        self.imports = {}           # local name -> (module name, original name or None)
        self.star_imports = []
        self._scan(tree.body)

    def _scan(self, body):
        for st in body:
            if isinstance(st, ast.ClassDef):
                self.classes[st.name] = ClassInfo(st.name, st, self)
            elif isinstance(st, ast.FunctionDef):
                self.funcs[st.name] = st
            elif isinstance(st, ast.Assign):
                for t in st.targets:
                    if isinstance(t, ast.Name):
                        self.assigns[t.id] = st.value
                    elif isinstance(t, ast.Tuple) and isinstance(st.value, ast.Tuple) \
                            and len(t.elts) == len(st.value.elts):
                        for tt, vv in zip(t.elts, st.value.elts):
                            if isinstance(tt, ast.Name):
                                self.assigns[tt.id] = vv
                    elif isinstance(t, ast.Tuple) and all(isinstance(tt, ast.Name) for tt in t.elts):
                        # `a, b = f(...)`: each name is the corresponding element of the value
                        for k_, tt in enumerate(t.elts):
                            sub = ast.Subscript(value=st.value, slice=ast.Constant(value=k_), ctx=ast.Load())
                            ast.copy_location(sub, st.value)
                            ast.fix_missing_locations(sub)
                            self.assigns[tt.id] = sub
            elif isinstance(st, ast.AnnAssign) and isinstance(st.target, ast.Name) and st.value is not None:
                self.assigns[st.target.id] = st.value
            elif isinstance(st, ast.ImportFrom):
                base = self._resolve_from(st)
                for al in st.names:
                    if al.name == '*':
                        self.star_imports.append(base)
                    else:
                        self.imports[al.asname or al.name] = (base, al.name)
            elif isinstance(st, ast.Import):
                for al in st.names:
                    if al.asname:
                        self.imports[al.asname] = (al.name, None)
                    else:
                        self.imports[al.name.split('.')[0]] = (al.name.split('.')[0], None)
            elif isinstance(st, (ast.If, ast.Try)):
                # conditional imports / definitions at module level: scan all arms
                for sub in ('body', 'orelse', 'finalbody'):
                    self._scan(getattr(st, sub, []) or [])
                for h in getattr(st, 'handlers', []) or []:
                    self._scan(h.body)

    def _resolve_from(self, st):
        if st.level == 0:
            return st.module
        parts = self.name.split('.')
        if not self.is_pkg:
            parts = parts[:-1]
        up = st.level - 1
        if up:
            parts = parts[:-up]
        if st.module:
            parts = parts + st.module.split('.')
        return '.'.join(parts)


class RepoIndex:
    """Index of /repo/luna plus (read-only) the enum modules of usb_protocol."""

    def __init__(self, repo='/repo', packages=('luna',), extra_roots=None):
        self.repo = repo
        self.modules = {}
        self.parse_errors = []
        self.alpha_renames = []     # [(relpath, function, {local name in the tree: reference name})]
        self.files_consulted = set()
        self.n_units = self.n_classes = self.n_funcs = 0
        for pkg in packages:
            self._load_tree(os.path.join(repo, pkg), pkg, repo)
        # third-party enum/constant modules (never executed, only parsed)
        for root in (extra_roots or self._site_roots()):
            d = os.path.join(root, 'usb_protocol')
            if os.path.isdir(d) and 'usb_protocol' not in self.modules:
                self._load_tree(d, 'usb_protocol', root, count=False)

    @staticmethod
    def _site_roots():
        roots = []
        for p in glob.glob('/venv/lib/python3*/site-packages'):
            roots.append(p)
        for p in sys.path:
            if p.endswith('site-packages'):
                roots.append(p)
        return roots

    def _load_tree(self, root, pkg, base, count=True):
        for dirpath, dirnames, filenames in os.walk(root):
            dirnames[:] = sorted(d for d in dirnames if d != '__pycache__')
            for fn in sorted(filenames):
                if not fn.endswith('.py'):
                    continue
                path = os.path.join(dirpath, fn)
                rel = os.path.relpath(path, base)
                parts = rel[:-3].split(os.sep)
                is_pkg = parts[-1] == '__init__'
                if is_pkg:
                    parts = parts[:-1]
                name = '.'.join(parts)
                try:
                    src = open(path, encoding='utf-8').read()
                    tree = ast.parse(src, filename=path)
                except (SyntaxError, UnicodeDecodeError, OSError) as ex:
                    self.parse_errors.append((path, str(ex)))
                    continue
                if count:
                    # local names renamed w.r.t. the reference tree are renamed back (alpha-conversion, see sa/alpha.py)
                    for qual, ren in alpha.normalise_module(tree, rel):
                        self.alpha_renames.append((rel, qual, ren))
                mi = ModInfo(name, path, rel, tree, src, is_pkg)
                self.modules[name] = mi
                if count:
                    self.n_units += 1
                    self.n_classes += len(mi.classes)
                    self.n_funcs += sum(1 for n in ast.walk(tree) if isinstance(n, ast.FunctionDef))

    # ---- lookup -----------------------------------------------------------------------
    def module(self, name):
        return self.modules.get(name)

    def find_class(self, clsname, modname=None):
        """Find a class by name, optionally restricted to a module (suffix match on the module name)."""
        hits = []
        for mn, mi in self.modules.items():
            if modname and not (mn == modname or mn.endswith('.' + modname) or mn.endswith(modname)):
                continue
            if clsname in mi.classes:
                hits.append(mi.classes[clsname])
        if not hits:
            raise AnalysisError('anchor vanished: class %s%s not found' % (clsname, ' in ' + modname if modname else ''))
        if len(hits) > 1:
            # prefer non-test, shortest module name
            hits.sort(key=lambda c: (('test' in c.mod.name), len(c.mod.name)))
        return hits[0]

    def resolve_name(self, mod, name, _depth=0):
        """Resolve a global name in module `mod` to ('class', ClassInfo) | ('func', node, mod) |
        ('expr', ast, mod) | ('module', ModInfo) | ('external', dotted) | None."""
        if _depth > 12 or mod is None:
            return None
        if name in mod.classes:
            return ('class', mod.classes[name])
        if name in mod.funcs:
            return ('func', mod.funcs[name], mod)
        if name in mod.assigns:
            return ('expr', mod.assigns[name], mod)
        if name in mod.imports:
            base, orig = mod.imports[name]
            if orig is None:
                m = self.modules.get(base)
                return ('module', m) if m else ('external', base)
            target = self.modules.get(base)
            if target is None:
                return ('external', base + '.' + orig)
            sub = self.modules.get(base + '.' + orig)
            r = self.resolve_name(target, orig, _depth + 1)
            if r is None and sub is not None:
                return ('module', sub)
            if r is None:
                return ('external', base + '.' + orig)
            return r
        for base in mod.star_imports:
            target = self.modules.get(base)
            if target is not None:
                r = self.resolve_name(target, name, _depth + 1)
                if r is not None and r[0] != 'external':
                    return r
        return None

    def mro(self, cls):
        """Linearised base-class list by name resolution (luna classes only; externals are kept as names)."""
        if cls._mro is not None:
            return cls._mro
        out = [cls]
        ext = []
        for b in cls.base_exprs:
            r = None
            if isinstance(b, ast.Name):
                r = self.resolve_name(cls.mod, b.id)
                bname = b.id
            elif isinstance(b, ast.Attribute):
                bname = b.attr
                if isinstance(b.value, ast.Name):
                    rm = self.resolve_name(cls.mod, b.value.id)
                    if rm and rm[0] == 'module' and rm[1] is not None:
                        r = self.resolve_name(rm[1], b.attr)
            else:
                bname = ast.unparse(b)
            if r and r[0] == 'class':
                for c in self.mro(r[1]):
                    if c not in out:
                        out.append(c)
            else:
                ext.append(bname)
        cls._mro = out
        cls.external_bases = ext
        for c in out[1:]:
            for e in getattr(c, 'external_bases', []):
                if e not in ext:
                    ext.append(e)
        return out

    def external_bases(self, cls):
        self.mro(cls)
        return cls.external_bases

    def find_method(self, cls, name, after=None):
        """(ClassInfo, FunctionDef) of the first class in the MRO (after `after`, for super()) defining name."""
        mro = self.mro(cls)
        start = 0
        if after is not None and after in mro:
            start = mro.index(after) + 1
        for c in mro[start:]:
            if name in c.methods:
                return c, c.methods[name]
        return None

    def find_class_attr(self, cls, name):
        for c in self.mro(cls):
            if name in c.class_assigns:
                return c, c.class_assigns[name]
        return None

    def digest(self, relpaths=None):
        h = hashlib.sha256()
        for mn in sorted(self.modules):
            mi = self.modules[mn]
            if relpaths is not None and mi.relpath not in relpaths:
                continue
            h.update(mi.relpath.encode())
            h.update(mi.src.encode())
        return h.hexdigest()

    def elaboratables(self):
        out = []
        for mn, mi in sorted(self.modules.items()):
            if not mn.startswith('luna'):
                continue
            for cn, ci in mi.classes.items():
                if 'elaborate' in ci.methods:
                    out.append(ci)
        return out
