"""C39 -- header transmission respects credits and retransmits unacknowledged headers."""
import itertools

from ..ir import E, AnalysisError
from .. import q

TITLE = 'header transmission: credits, numbering, retirement, retry'
FLOOR = 50
DECIDES = ('On PacketTransmitter (buffer_count 4; 2 and 8 in the thorough tier), by evaluating the extracted guarded '
           'assignments and FSM edges concretely (last assignment wins) over all values of the small control registers and '
           'strobes they read -- formulation independent, signals found by role (public names, or their position in the '
           'credit / pointer / counter update network), not by local name: '
           '(a) queue.ready implies bringup_complete and a non-zero credit count; the header capture, the sequence-number '
           'override (which must come after the capture so that it wins and must be fed by the transmit sequence register), '
           'the write pointer step, the sequence register step, the credit-consumed and the enqueue strobes all fire '
           'exactly when queue.valid & queue.ready; the credit counter moves +1 / -1 / holds exactly by credit-received '
           'vs. credit-consumed and a credit is received only on a new LCRD (command 1) link command; '
           '(b) the transmit sequence and expected-ack registers (3 bits, the width of the header field) are loaded with '
           'subtype+1 by the LGOOD received before bringup_complete, which also sets bringup_complete; bringup_complete is '
           'set by nothing else and never dropped while enabled; (c) retire is raised only by a new LGOOD (command 0) after '
           'bringup whose subtype equals the expected-ack register, which advances by one exactly then; the ack pointer '
           'advances exactly on retire; (d) retry_required is raised only by a new LBAD (command 3); in the LBAD cycle, in '
           'every FSM state and for every value of the other inputs, the read pointer is loaded with the ack pointer, the '
           'to-send count with the unacknowledged count, and the retry-pending flag is set (must win against its clear); '
           'the dispatch state stays without bringup / with nothing to send, never hands a header to the normal send state '
           'while a retry is pending (and then starts the retry state), never sends a new header through the retry state, '
           'and may not start a normal (non-delayed) send in the very cycle the LBAD arrives; the retry state forces '
           'header.delayed after (= overriding) the buffer read, generates, dequeues on done, leaves and clears the pending '
           'flag exactly on done with one header left; the normal send state leaves exactly on done and dequeues exactly '
           'on done & ~retry-pending; the to-send / unacknowledged counters and read pointer step exactly by '
           'enqueue/dequeue/retire; the transmitter reads the same buffer array that the capture writes, indexed by the '
           'read pointer, and the pointers wrap at the buffer count; (e) ~enable clears bringup_complete, the credit '
           'count, the expected credit, both counters, the three pointers and the retry-pending flag against every other '
           'writer; the credit, to-send and unacknowledged counters can hold the number of buffers. ')
NOT_DECIDED = ('the counting invariants over whole histories (credits never exceeding the partner buffers, buffer slots never '
               'overwritten before retirement); an enqueue in the very cycle of an LBAD (the to-send count is loaded without '
               'the new header -- a liveness defect, see the report); ordering of the retransmission relative to the LRTY '
               'sent by the receiver half; non-power-of-two buffer counts; the RawPacketTransmitter framing.')

# USB 3.2 tables 7-4/7-5: link command word bits 10:9 class, 8:7 type; LGOOD_n 00/00, LCRD_x 00/01, LRTY 00/10, LBAD 00/11
LGOOD, LCRD, LBAD = 0, 1, 3
NC, CMD, SUB = 'lc_detector.new_command', 'lc_detector.command', 'lc_detector.subtype'
EN, BR, RR = 'self.enable', 'self.bringup_complete', 'self.retry_required'
QV, QR = 'self.queue.valid', 'self.queue.ready'
DONE, GEN, LRTYP = 'packet_tx.done', 'packet_tx.generate', 'self.lrty_pending'
SEQ_FIELD_WIDTH = 3                 # USB 3.2 fig. 7-5: header sequence number is DW3 bits 18:16


class NoEval(Exception):
    pass


def ev(e, env):
    """Value of an expression under env {signal name: int} (Amaranth arithmetic widens: plain ints)."""
    if not isinstance(e, E):
        if isinstance(e, (int, bool)):
            return int(e)
        raise NoEval(repr(e))
    op = e.op
    if op == 'const':
        if not isinstance(e.val, int):
            raise NoEval(e.canon())
        return e.val
    if op == 'sig':
        n = e.args[0].name
        if n not in env:
            raise NoEval('free signal ' + n)
        return env[n]
    if op == 'slice':
        lo, hi = e.args[1], e.args[2]
        if not isinstance(lo, int) or not isinstance(hi, int):
            raise NoEval(e.canon())
        return (ev(e.args[0], env) >> lo) & ((1 << (hi - lo)) - 1)
    if op == '~':
        a = e.args[0]
        w = a.w if isinstance(a, E) else None
        if w is None and isinstance(a, E) and a.op in ('==', '!=', '<', '<=', '>', '>='):
            w = 1
        if w is None:
            raise NoEval('~ of unknown width: ' + e.canon())
        return ~ev(a, env) & ((1 << w) - 1)
    if op == 'call' and e.args and e.args[0] == 'matches' and len(e.args) >= 2:      # Case(K1, K2, ...)
        v = ev(e.args[1], env)
        pats = [p.val if isinstance(p, E) and p.op == 'const' else p for p in e.args[2:]]
        if not all(isinstance(p, int) and not isinstance(p, bool) for p in pats):
            raise NoEval(e.canon())
        return int(v in pats)
    vals = [ev(a, env) for a in e.args]
    if op == '+':
        return sum(vals)
    if op in ('&', '|', '^'):
        r = vals[0]
        for v in vals[1:]:
            r = r & v if op == '&' else r | v if op == '|' else r ^ v
        return r
    if len(vals) == 2:
        a, b = vals
        if op == '-':
            return a - b
        if op in ('==', '!=', '<', '<=', '>', '>='):
            return int({'==': a == b, '!=': a != b, '<': a < b, '<=': a <= b, '>': a > b, '>=': a >= b}[op])
    if op == 'mux' and len(vals) == 3:
        return vals[1] if vals[0] else vals[2]
    raise NoEval(e.canon())


class Model:
    """Concrete one-cycle semantics of the extracted IR of one module."""

    def __init__(self, ctx, ir, fsm):
        self.ctx, self.ir, self.fsm = ctx, ir, fsm
        self._drv, self._mask = {}, {}

    def info(self, name):
        s = self.ir.signals.get(name)
        self.ctx.need(s is not None and s.w is not None, 'declared width of signal %s' % name)
        return s

    def dom(self, name):
        s = self.info(name)
        if s.rng and s.rng[0] == 0:
            return range(0, s.rng[1])
        self.ctx.need(s.w <= 4, 'signal %s (width %d) is small enough to enumerate' % (name, s.w))
        return range(1 << s.w)

    @staticmethod
    def greads(items):
        out = set()
        for it in items:
            for l in it.guard:
                if isinstance(l.e, E):
                    out |= l.e.sigs()
        return out

    def reads(self, items):
        out = self.greads(items)
        for it in items:
            if getattr(it, 'kind', '') == 'assign' and isinstance(it.rhs, E):
                out |= it.rhs.sigs()
                if it.domain != 'comb' and it.lhs.op == 'sig':
                    out.add(it.lhs.args[0].name)          # a register holds: its next value depends on itself
        return out

    def active(self, it, env, st):
        if it.state is not None:
            if it.state[0] != self.fsm.id or getattr(it, 'states', ()) and len(it.states) > 1:
                raise AnalysisError('assignment in an unexpected (nested / second) FSM: %r' % (it,))
            if st is None:
                raise AnalysisError('state-bound construct evaluated without an FSM state: %r' % (it,))
            if it.state[1] != st:
                return False
        for l in it.guard:
            if l.kind == 'cfg':
                raise AnalysisError('configuration-dependent guard not folded: %r' % (it,))
            try:
                if bool(ev(l.e, env)) != l.pos:
                    return False
            except NoEval as ex:
                raise AnalysisError('cannot evaluate guard of %r: %s' % (it, ex))
        return True

    def drivers(self, name, comb):
        if (name, comb) not in self._drv:
            self._drv[name, comb] = self._drivers(name, comb)
        return self._drv[name, comb]

    def _drivers(self, name, comb):
        ds = [a for a in self.ir.drivers(name, exact=True) if (a.domain == 'comb') == comb]
        other = [a for a in self.ir.drivers(name, exact=True) if (a.domain == 'comb') != comb]
        self.ctx.need(ds and not other, '%s drivers of %s' % ('combinational' if comb else 'registered', name))
        self.ctx.need(all(a.lhs.op == 'sig' for a in ds), 'whole-signal drivers of %s' % name)
        return sorted(ds, key=lambda a: a.order)

    def value(self, name, env, st, comb):
        """Last active assignment wins; a register holds, a combinational signal falls back to 0."""
        v = 0 if comb else env[name]
        if name not in self._mask:
            self._mask[name] = (1 << self.info(name).w) - 1
        mask = self._mask[name]
        for a in self.drivers(name, comb):
            if self.active(a, env, st):
                try:
                    v = ev(a.rhs, env) & mask
                except NoEval as ex:
                    raise AnalysisError('cannot evaluate %r: %s' % (a, ex))
        return v

    def nxt(self, name, env, st=None):
        return self.value(name, env, st, False)

    def comb(self, name, env, st=None):
        return self.value(name, env, st, True)

    def goto(self, env, st):
        dst = st
        for e in sorted(self.fsm.out_edges(st), key=lambda e: e.order):
            if self.active(e, env, st):
                dst = e.dst
        return dst

    def bound(self, items):
        return any(it.state is not None for it in items)

    def forall(self, names, pred, fixed=None, derive=(), states=(None,), extra=()):
        """First (env, state) violating pred over all values of `names` (+ what the derived combinational signals read)."""
        names = set(names) | set(extra)
        for d in derive:
            names |= self.reads(self.drivers(d, True))
        names -= set(derive)
        fixed = dict(fixed or {})
        free = sorted(n for n in names if n not in fixed)
        doms = [self.dom(n) for n in free]
        n = 0
        for st in states:
            for vals in itertools.product(*doms):
                env = dict(fixed)
                env.update(zip(free, vals))
                for d in derive:
                    env[d] = self.comb(d, env, st)
                n += 1
                if not pred(env, st):
                    return (env, st)
        self.ctx.need(n > 0, 'non-empty enumeration')
        return None


def show(cex):
    if cex is None:
        return 'none'
    env, st = cex
    s = ', '.join('%s=%d' % (k.replace('self.', '').replace('lc_detector.', 'lc.'), v) for k, v in sorted(env.items()))
    return ('state %s: ' % st if st else '') + s


def only_sig(ctx, e, what):
    ctx.need(isinstance(e, E) and e.op == 'sig', what)
    return e.args[0].name


def check(ctx, tag='', **kw):
    C = 'PacketTransmitter.'
    T = ('[%s]' % tag) if tag else ''
    ir = ctx.ir('PacketTransmitter', 'usb3.link.transmitter', **kw)
    fsm = ctx.the_fsm(ir)
    M = Model(ctx, ir, fsm)

    def ob(rule, key, res, loc, msg):
        """res: None / True = holds; False = fails; (env, state) = fails with that counterexample."""
        ok = res is None or res is True
        return ctx.ob('C39.' + rule, C + key + T, ok, loc,
                      msg + (' -- counterexample: ' + show(res) if isinstance(res, tuple) else ''))

    def one(cands, what):
        cands = sorted(set(cands))
        ctx.need(len(cands) == 1, '%s (found %s)' % (what, cands))
        return cands[0]

    def regs(name):
        return M.drivers(name, False)

    def combs(name):
        return M.drivers(name, True)

    # ------------------------------------------------------------------ roles
    credits = only_sig(ctx, q.comb_def(ir, 'self.credits_available'), 'credit counter behind self.credits_available')
    to_send = only_sig(ctx, q.comb_def(ir, 'self.packets_to_send'), 'to-send counter behind self.packets_to_send')
    caps = [a for a in ir.assigns if a.domain != 'comb' and a.lhs.op == 'arr' and isinstance(a.rhs, E) and
            a.rhs.canon() == 'self.queue.header']
    ctx.need(len(caps) == 1, 'the capture of queue.header into the buffer array (found %d)' % len(caps))
    cap = caps[0]
    wptr = only_sig(ctx, cap.lhs.args[0], 'write pointer indexing the capture')
    bufs = [x.canon() for x in cap.lhs.args[1:]]
    seqw = [a for a in ir.assigns if a.domain != 'comb' and a.lhs.op == 'arr' and
            [x.canon() for x in a.lhs.args[1:]] == [b + '.sequence_number' for b in bufs]]
    hdr = [a for a in ir.drivers('packet_tx.header', exact=True) if a.lhs.canon() == 'packet_tx.header']
    ctx.need(len(hdr) == 1 and hdr[0].domain == 'comb' and not hdr[0].guard and hdr[0].state is None,
             'single unconditional driver of packet_tx.header')
    hdr = hdr[0]
    reg_names = sorted({x.lhs.args[0].name for x in ir.assigns if x.domain != 'comb' and x.lhs.op == 'sig'})
    selfref = lambda r: any(isinstance(x.rhs, E) and r in x.rhs.sigs() for x in regs(r))       # a counter / pointer
    # the pointer rewound by retry_required (the to-send count is the other register retry_required reloads)
    rptr = one([r for r in reg_names if r != to_send and RR in M.greads(regs(r)) and selfref(r)], 'read pointer (rewound on retry_required)')
    pw = M.info(rptr).w
    # strobes of the accept site: combinational 1-bit signals driven under queue.valid and read by the counters
    accept_strobes = {x.lhs.args[0].name for x in ir.assigns if x.domain == 'comb' and x.lhs.op == 'sig' and QV in M.greads([x])
                      and M.info(x.lhs.args[0].name).w == 1}
    cons = one(accept_strobes & M.reads(regs(credits)), 'credit-consumed strobe')
    enq = one(accept_strobes & M.reads(regs(to_send)), 'enqueue strobe')
    recv = one(M.reads(regs(credits)) - {cons, credits, EN}, 'credit-received strobe')
    # the other counter stepped by the enqueue strobe; the strobe that steps it down; the pointer stepped by that strobe
    awaiting = one([r for r in reg_names if r != to_send and enq in M.greads(regs(r)) and selfref(r)], 'unacknowledged-header counter')
    retire = one(M.reads(regs(awaiting)) - {enq, awaiting, EN}, 'retire strobe')
    aptr = one([r for r in reg_names if r not in (awaiting, rptr, wptr) and retire in M.greads(regs(r)) and selfref(r)
                and M.info(r).w == pw], 'ack pointer (stepped by the retire strobe)')
    deq = one(M.reads(regs(rptr)) - {rptr, aptr, RR, EN}, 'dequeue strobe')
    pend = one([r for r in reg_names if M.info(r).w == 1 and not selfref(r) and
                any(q.is_one(x.rhs) and M.greads([x]) == {RR} for x in regs(r))], 'retry-pending flag (set under retry_required)')
    # the register stepped on the accept site besides the write pointer; the other register loaded from the LGOOD subtype;
    # the pointer-like register stepped by link commands
    tsn = one([r for r in reg_names if r != wptr and selfref(r) and any(QV in M.greads([x]) and r in x.rhs.sigs() for x in regs(r))],
              'transmit sequence register')
    exp_ack = one([r for r in reg_names if r != tsn and any(isinstance(x.rhs, E) and SUB in x.rhs.sigs() for x in regs(r))],
                  'expected-ack register (loaded from the advertised sequence number)')
    exp_credit = one([r for r in reg_names if r not in (tsn, exp_ack, aptr, rptr, wptr, awaiting, to_send, credits) and selfref(r)
                      and CMD in M.greads(regs(r)) and M.info(r).w <= 4], 'expected-credit register')
    # states by role
    init = fsm.init
    bound_clear = {q.state_of(a) for a in regs(pend) if a.state is not None}
    dly = [a for a in ir.drivers('packet_tx.header.delayed', exact=True)]
    dly_states = {q.state_of(a) for a in dly if a.state is not None and not q.is_zero(a.rhs)}
    retry_st = one(bound_clear if len(bound_clear) == 1 else dly_states, 'the retry state (clears the retry-pending flag / forces DL)')
    send_st = one({q.state_of(a) for a in q.raises(ir, GEN) if a.state is not None} - {retry_st, init},
                  'the normal send state (raises packet_tx.generate)')
    ctx.need(retry_st != init and send_st != init, 'dispatch state is the initial state')
    nb = len(bufs)
    inc = lambda name, v: (v + 1) & ((1 << M.info(name).w) - 1)

    # ------------------------------------------------------------------ (a) credits and the accept site
    rd = combs(QR)
    st_rd = fsm.states if M.bound(rd) else (None,)
    ob('ready-needs-credit', 'queue.ready.credit',
       M.forall(M.reads(rd), lambda e, s: not (M.comb(QR, e, s) and e[credits] == 0), extra=[credits, BR], states=st_rd),
       rd[0].loc, 'queue.ready must imply a non-zero credit count (a header may only be accepted against an unused credit)')
    ob('ready-needs-credit', 'queue.ready.bringup',
       M.forall(M.reads(rd), lambda e, s: not (M.comb(QR, e, s) and e[BR] == 0), extra=[credits, BR], states=st_rd),
       rd[0].loc, 'queue.ready must imply bringup_complete (sequence numbers are only known after the advertisement)')

    def accept(e):
        return bool(e[QV] and e[QR])

    ctx.need(not M.bound(rd), 'queue.ready is not state dependent')
    sites = [('capture', [cap], 'header capture into the buffer')]
    sites.append(('sequence-override', seqw, 'sequence-number override of the captured header'))
    sites.append(('credit-consumed', combs(cons), 'credit-consumed strobe'))
    sites.append(('enqueue', combs(enq), 'enqueue strobe'))
    for role, items, what in sites:
        if not items:
            ob('accept-site', 'accept.' + role, False, cap.loc, 'missing: ' + what)
            continue
        ctx.need(not M.bound(items), '%s is outside the FSM' % what)
        if role in ('credit-consumed', 'enqueue'):
            sig = items[0].lhs.args[0].name
            cex = M.forall(M.reads(items), lambda e, s: bool(M.comb(sig, e)) == accept(e), derive=[QR], extra=[QV])
        else:
            cex = M.forall(M.greads(items), lambda e, s: any(M.active(a, e, s) for a in items) == accept(e), derive=[QR], extra=[QV])
        ob('accept-site', 'accept.' + role, cex, items[0].loc,
           'the %s must fire exactly when queue.valid & queue.ready (credit consumed, header stored, numbered and '
           'scheduled on the same accept)' % what)
    cex = M.forall(M.reads(regs(wptr)), lambda e, s: M.nxt(wptr, e) == (inc(wptr, e[wptr]) if accept(e) else e[wptr]),
                   fixed={EN: 1}, derive=[QR], extra=[QV])
    ob('accept-site', 'accept.write-pointer', cex, regs(wptr)[0].loc, 'the write pointer steps by one exactly on an accept')
    # sequence override: fed by the sequence register, ordered after the whole-header capture
    ok = bool(seqw) and all(a.rhs.op == 'sig' and a.rhs.args[0].name == tsn and
                            only_sig(ctx, a.lhs.args[0], 'index of the override') == wptr for a in seqw)
    ob('sequence-source', 'buffers.sequence_number.source', ok, seqw[0].loc if seqw else cap.loc,
       'the stored header must get its sequence number from the transmit sequence register at the write pointer: %s' % [q.fmt(a) for a in seqw])
    ok = bool(seqw) and all(a.order > cap.order for a in seqw)
    ob('sequence-source', 'buffers.sequence_number.wins', ok, seqw[0].loc if seqw else cap.loc,
       'the sequence-number override must come after the capture of queue.header (a later assignment wins), otherwise the '
       'protocol layer\'s value is stored')
    # credit counter
    dr = regs(credits)
    nm = M.reads(dr)
    top = M.dom(credits)[-1]
    ob('credit-counter', 'credits.consume',
       M.forall(nm, lambda e, s: not (e[cons] and not e[recv] and e[credits] > 0) or M.nxt(credits, e) == e[credits] - 1, fixed={EN: 1}),
       dr[0].loc, 'a consumed credit (without a received one) must decrement the credit count')
    ob('credit-counter', 'credits.grant',
       M.forall(nm, lambda e, s: not (e[recv] and not e[cons] and e[credits] < top) or M.nxt(credits, e) == e[credits] + 1, fixed={EN: 1}),
       dr[0].loc, 'a received credit (without a consumed one) must increment the credit count')
    ob('credit-counter', 'credits.hold',
       M.forall(nm, lambda e, s: e[recv] != e[cons] or M.nxt(credits, e) == e[credits], fixed={EN: 1}),
       dr[0].loc, 'the credit count must hold when nothing or both a grant and a consumption happen')
    dr = combs(recv)
    ctx.need(not M.bound(dr), 'credit reception is outside the FSM')
    ob('credit-source', 'credit-received.only-lcrd',
       M.forall(M.reads(dr), lambda e, s: not M.comb(recv, e) or (e[NC] and e[CMD] == LCRD), extra=[NC, CMD]),
       dr[0].loc, 'a credit may only be counted for a new LCRD link command (command %d)' % LCRD)

    # ------------------------------------------------------------------ (b) numbering
    def advert(e):
        return bool(e[NC] and e[CMD] == LGOOD and not e[BR])

    dr = regs(tsn)
    ctx.need(not M.bound(dr), 'sequence register is written outside the FSM')
    base = M.reads(dr) | {NC, CMD, SUB, BR, QV}
    ob('sequence-register', 'tx-sequence.step',
       M.forall(base, lambda e, s: advert(e) or not accept(e) or M.nxt(tsn, e) == inc(tsn, e[tsn]), derive=[QR]),
       dr[0].loc, 'the transmit sequence number must advance by one per accepted header')
    ob('sequence-register', 'tx-sequence.hold',
       M.forall(base, lambda e, s: advert(e) or accept(e) or M.nxt(tsn, e) == e[tsn], derive=[QR]),
       dr[0].loc, 'the transmit sequence number may only change on an accept or on the sequence advertisement')
    ob('sequence-advertisement', 'tx-sequence.advertised',
       M.forall(base, lambda e, s: not advert(e) or M.nxt(tsn, e) == (e[SUB] + 1) & 7, derive=[QR]),
       dr[0].loc, 'the LGOOD received before bringup_complete must load the transmit sequence number with subtype+1')
    dr = regs(exp_ack)
    ctx.need(not M.bound(dr), 'expected-ack register is written outside the FSM')
    base = M.reads(dr) | {NC, CMD, SUB, BR}
    ob('sequence-advertisement', 'expected-ack.advertised',
       M.forall(base, lambda e, s: not advert(e) or M.nxt(exp_ack, e) == (e[SUB] + 1) & 7, derive=[retire]),
       dr[0].loc, 'the LGOOD received before bringup_complete must load the expected-ack number with subtype+1')
    ob('retire', 'expected-ack.step',
       M.forall(base, lambda e, s: advert(e) or M.nxt(exp_ack, e) == (inc(exp_ack, e[exp_ack]) if e[retire] else e[exp_ack]),
                derive=[retire]),
       dr[0].loc, 'the expected-ack number must advance by one exactly when a header is retired')
    ws = {n: M.info(n).w for n in (tsn, exp_ack)}
    fw = {ir.signals[b + '.sequence_number'].w if (b + '.sequence_number') in ir.signals else None for b in bufs}
    ob('sequence-register', 'sequence.width', set(ws.values()) == {SEQ_FIELD_WIDTH} and fw == {SEQ_FIELD_WIDTH}, M.info(tsn).loc,
       'sequence registers and the header field must be %d bits (numbers wrap at 8): %s, field %s' % (SEQ_FIELD_WIDTH, ws, sorted(map(str, fw))))
    dr = regs(BR)
    ctx.need(not M.bound(dr), 'bringup_complete is written outside the FSM')
    base = M.reads(dr) | {NC, CMD, BR}
    ob('sequence-advertisement', 'bringup_complete.set',
       M.forall(base, lambda e, s: not advert(e) or M.nxt(BR, e) == 1, fixed={EN: 1}), dr[0].loc,
       'the sequence advertisement (first LGOOD) must complete bringup')
    ob('sequence-advertisement', 'bringup_complete.only-advert',
       M.forall(base, lambda e, s: advert(e) or M.nxt(BR, e) == e[BR], fixed={EN: 1}), dr[0].loc,
       'bringup_complete may only be set by the sequence advertisement and never dropped while enabled (a second '
       'advertisement would renumber)')

    # ------------------------------------------------------------------ (c) retirement
    dr = combs(retire)
    ctx.need(not M.bound(dr), 'retirement is decided outside the FSM')
    nm = M.reads(dr) | {NC, CMD, SUB, BR, exp_ack}
    ob('retire', 'retire.only-lgood',
       M.forall(nm, lambda e, s: not M.comb(retire, e) or (e[NC] and e[CMD] == LGOOD)), dr[0].loc,
       'a header may only be retired by a new LGOOD link command (command %d)' % LGOOD)
    ob('retire', 'retire.sequence-match',
       M.forall(nm, lambda e, s: not M.comb(retire, e) or (e[SUB] & 7) == e[exp_ack]), dr[0].loc,
       'a header may only be retired by the LGOOD carrying the expected sequence number')
    ob('retire', 'retire.after-bringup',
       M.forall(nm, lambda e, s: not M.comb(retire, e) or e[BR]), dr[0].loc,
       'the sequence advertisement itself must not retire a header')
    dr = regs(aptr)
    ctx.need(not M.bound(dr), 'ack pointer is written outside the FSM')
    ob('retire', 'ack-pointer.step',
       M.forall(M.reads(dr), lambda e, s: M.nxt(aptr, e) == (inc(aptr, e[aptr]) if e[retire] else e[aptr]), fixed={EN: 1},
                extra=[retire]),
       dr[0].loc, 'the ack pointer must advance by one exactly when a header is retired')
    dr = regs(awaiting)
    ctx.need(not M.bound(dr), 'unacknowledged count is written outside the FSM')

    def want_awaiting(e):
        v = e[awaiting]
        if e[enq] and not e[retire]:
            return v + 1 if v < M.dom(awaiting)[-1] else None
        if e[retire] and not e[enq]:
            return max(v - 1, 0)
        return v
    ob('counters', 'unacknowledged-count.update',
       M.forall(M.reads(dr), lambda e, s: want_awaiting(e) in (None, M.nxt(awaiting, e)), fixed={EN: 1}), dr[0].loc,
       'the unacknowledged count must be +1 on enqueue without retire, -1 on retire without enqueue, else hold')

    # ------------------------------------------------------------------ (d) retry
    dr = combs(RR)
    ctx.need(not M.bound(dr), 'retry_required is decided outside the FSM')
    ob('lbad', 'retry_required.only-lbad',
       M.forall(M.reads(dr), lambda e, s: not M.comb(RR, e) or (e[NC] and e[CMD] == LBAD), extra=[NC, CMD]), dr[0].loc,
       'retry_required may only be raised by a new LBAD link command (command %d)' % LBAD)
    states = tuple(fsm.states)
    dr = regs(rptr)
    ob('lbad-rewind', 'read-pointer.rewind',
       M.forall(M.reads(dr), lambda e, s: M.nxt(rptr, e, s) == e[aptr], fixed={EN: 1, RR: 1}, extra=[aptr],
                states=states if M.bound(dr) else (None,)),
       dr[0].loc, 'in the LBAD cycle the read pointer must be loaded with the ack pointer, whatever else happens (dequeue)')
    ob('counters', 'read-pointer.step',
       M.forall(M.reads(dr), lambda e, s: M.nxt(rptr, e, s) == (inc(rptr, e[rptr]) if e[deq] else e[rptr]), fixed={EN: 1, RR: 0},
                states=states if M.bound(dr) else (None,)),
       dr[0].loc, 'the read pointer must advance by one exactly on a dequeue')
    dr = regs(to_send)
    ob('lbad-rewind', 'to-send-count.rewind',
       M.forall(M.reads(dr), lambda e, s: M.nxt(to_send, e, s) == e[awaiting], fixed={EN: 1, RR: 1, enq: 0}, extra=[awaiting],
                states=states if M.bound(dr) else (None,)),
       dr[0].loc, 'in the LBAD cycle the to-send count must be loaded with the unacknowledged count, whatever else happens')

    def want_to_send(e):
        v = e[to_send]
        if e[enq] and not e[deq]:
            return v + 1 if v < M.dom(to_send)[-1] else None
        if e[deq] and not e[enq]:
            return v - 1 if v > 0 else None
        return v
    ob('counters', 'to-send-count.update',
       M.forall(M.reads(dr), lambda e, s: want_to_send(e) in (None, M.nxt(to_send, e, s)), fixed={EN: 1, RR: 0},
                states=states if M.bound(dr) else (None,)),
       dr[0].loc, 'the to-send count must be +1 on enqueue without dequeue, -1 on dequeue without enqueue, else hold')
    dr = regs(pend)
    sets = [a for a in dr if q.is_one(a.rhs)]
    cex = M.forall(M.reads(dr), lambda e, s: M.nxt(pend, e, s) == 1, fixed={EN: 1, RR: 1}, states=states)
    ob('lbad-rewind', 'retry-pending.set-wins', cex, sets[0].loc if sets else dr[0].loc,
       'in the LBAD cycle the retry-pending flag must end up set in every state and for every other input; otherwise the '
       'rewound headers are re-sent by the normal path, without the delayed flag (set at %s, cleared at %s -- a later '
       'assignment wins)' % (sets[0].loc if sets else '?', [str(a.loc) for a in dr if q.is_zero(a.rhs) and a.state is not None]))
    # dispatch state
    edges = fsm.out_edges(init)
    nm = M.greads(edges) | {BR, to_send, pend}
    ob('dispatch', 'dispatch.idle',
       M.forall(nm, lambda e, s: (e[BR] and e[to_send] != 0) or M.goto(e, init) == init), fsm.state_loc[init],
       'the dispatch state must not start a transmission before bringup or with nothing to send')
    ob('dispatch', 'dispatch.retry-first',
       M.forall(nm, lambda e, s: not e[pend] or M.goto(e, init) in (retry_st, init), extra=[RR]),
       fsm.state_loc[init], 'with a retry pending nothing may be handed to the normal send state: every header must go '
       'through the retry (delayed) state before new ones are sent')
    ob('dispatch', 'dispatch.retry-starts',
       M.forall(nm, lambda e, s: not (e[BR] and e[to_send] != 0 and e[pend]) or M.goto(e, init) == retry_st, fixed={RR: 0}, extra=[RR]),
       fsm.state_loc[init], 'with a retry pending and headers to send the retransmission must start')
    ob('dispatch', 'dispatch.send',
       M.forall(nm, lambda e, s: not (e[BR] and e[to_send] != 0 and not e[pend]) or M.goto(e, init) in (send_st, init),
                fixed={RR: 0}, extra=[RR]),
       fsm.state_loc[init], 'without a retry pending a new header must not be sent through the retry (delayed) state')
    race = M.forall(nm, lambda e, s: M.goto(e, init) != send_st, fixed={RR: 1}, extra=[RR])
    gen_send = [a for a in combs(GEN) if a.state is None or q.state_of(a) == send_st]
    gated = M.forall(M.reads(gen_send), lambda e, s: not M.comb(GEN, e, send_st), fixed={pend: 1}, extra=[pend]) is None
    ob('dispatch', 'dispatch.lbad-race', None if (race is None or gated) else race, fsm.state_loc[init],
       'an LBAD arriving in the dispatch cycle: the decision uses the not-yet-set retry-pending flag, the normal send state '
       'is entered and (generate not gated by the flag) transmits the header at the just rewound read pointer = the oldest '
       'unacknowledged header, without the delayed flag and not waiting for LRTY; it is then sent again by the retry state')
    # normal send state
    edges = fsm.out_edges(send_st)
    nm = M.greads(edges) | {DONE}
    ob('send-state', 'send-state.exit',
       M.forall(nm, lambda e, s: M.goto(e, send_st) == (init if e[DONE] else send_st), fixed={EN: 1}, extra=[EN]), fsm.state_loc[send_st],
       'while the link is up the send state must wait for packet_tx.done and then return to dispatch (staying would send the header twice)')
    dr = combs(deq)
    nm = M.reads(dr) | {DONE, pend}
    ob('send-state', 'send-state.dequeue',
       M.forall(nm, lambda e, s: M.comb(deq, e, send_st) == int(bool(e[DONE] and not e[pend]))), fsm.state_loc[send_st],
       'the send state must dequeue exactly on done & ~retry-pending (after an LBAD the rewound pointer/count must not be touched)')
    ob('dispatch', 'dispatch.no-dequeue',
       M.forall(nm, lambda e, s: M.comb(deq, e, init) == 0), fsm.state_loc[init], 'nothing may be dequeued in the dispatch state')
    # retry state
    ob('retry-state', 'retry-state.dequeue',
       M.forall(nm, lambda e, s: M.comb(deq, e, retry_st) == e[DONE]), fsm.state_loc[retry_st],
       'the retry state must dequeue exactly when a retransmission is done')
    here = sorted([a for a in dly if q.state_of(a) == retry_st or a.state is None], key=lambda a: a.order)

    def delayed_in_retry(e, s):
        v = None                                   # None: the flag stored in the buffer is sent
        for a in here:
            if M.active(a, e, retry_st):
                v = ev(a.rhs, e)
        return v == 1
    ob('delayed-flag', 'retry-state.delayed', bool(here) and M.forall(M.reads(here) | {BR}, delayed_in_retry) is None,
       here[0].loc if here else fsm.state_loc[retry_st],
       'every header sent from the retry state must have header.delayed forced to 1: %s' % [q.fmt(a) for a in here])
    forcing = [a for a in here if not q.is_zero(a.rhs)]
    ob('delayed-flag', 'retry-state.delayed-wins', bool(forcing) and min(a.order for a in forcing) > hdr.order,
       forcing[0].loc if forcing else hdr.loc,
       'the delayed override must come after packet_tx.header <= buffers[read pointer] (a later assignment wins), otherwise '
       'the stored flag is sent')
    other = [a for a in dly if a.state is not None and q.state_of(a) != retry_st and not q.is_zero(a.rhs)]
    if other:
        ctx.note('header.delayed is also forced in: %s' % sorted({q.state_of(a) for a in other}))
    gen = combs(GEN)
    ob('retry-state', 'retry-state.generate',
       M.forall(M.reads(gen), lambda e, s: M.comb(GEN, e, retry_st) == 1, fixed={LRTYP: 0}, extra=[LRTYP]), fsm.state_loc[retry_st],
       'the retry state must generate the retransmission (once no LRTY is pending)')
    edges = fsm.out_edges(retry_st)
    nm = M.greads(edges) | {DONE, to_send}
    ob('retry-state', 'retry-state.exit',
       M.forall(nm, lambda e, s: e[to_send] == 0 or
                M.goto(e, retry_st) == (init if (e[DONE] and e[to_send] == 1) else retry_st), fixed={RR: 0, EN: 1}, extra=[RR, EN]),
       fsm.state_loc[retry_st],
       'the retry state must be left exactly when the last (to-send == 1) retransmission is done, towards dispatch: leaving '
       'earlier sends unacknowledged headers without the delayed flag, later retransmits a header that was never queued')
    dr = regs(pend)
    nm = M.reads(dr) | {DONE, to_send}
    ob('retry-state', 'retry-state.clear-pending',
       M.forall(nm, lambda e, s: e[to_send] == 0 or
                M.nxt(pend, e, retry_st) == (0 if (e[DONE] and e[to_send] == 1) else 1), fixed={EN: 1, RR: 0, pend: 1}),
       fsm.state_loc[retry_st], 'retry-pending must be cleared exactly when the last retransmission is done')
    ob('retry-state', 'retry-pending.only-cleared-by-retry-state',
       M.forall(nm, lambda e, s: s == retry_st or M.nxt(pend, e, s) == 1, fixed={EN: 1, pend: 1}, extra=[RR], states=states),
       dr[0].loc, 'no other state may clear the retry-pending flag')
    # buffer array and pointers
    ok = hdr.rhs.op == 'arr' and [x.canon() for x in hdr.rhs.args[1:]] == bufs and hdr.rhs.args[0].canon() == rptr
    ob('buffers', 'packet_tx.header.source', ok, hdr.loc,
       'the transmitter must read the buffer array written by the capture, in the same order, at the read pointer (%s): %s' % (
           rptr, hdr.rhs.canon()))
    for nm_, role in ((rptr, 'read-pointer'), (wptr, 'write-pointer'), (aptr, 'ack-pointer')):
        ob('buffers', role + '.wrap', (1 << M.info(nm_).w) == nb, M.info(nm_).loc,
           '%s (width %d) must wrap at the number of buffers (%d)' % (role, M.info(nm_).w, nb))
    # the occupancy / credit counters count 0..number of buffers: each must be able to hold that number (a full window)
    for nm_, role in ((credits, 'credits'), (to_send, 'to-send-count'), (awaiting, 'unacknowledged-count')):
        ob('buffers', role + '.capacity', (1 << M.info(nm_).w) > nb, M.info(nm_).loc,
           'the %s counter (width %d) must hold the number of buffers %d: with a full window it wraps to 0 (nothing is '
           'retransmitted after an LBAD / credit is over- or under-counted)' % (role, M.info(nm_).w, nb))
    for f in ('valid', 'payload', 'ctrl'):
        d = q.comb_def(ir, 'self.source.' + f)
        ob('buffers', 'source.' + f, d is not None and d.canon() == 'packet_tx.source.' + f, None,
           'self.source.%s must be driven by the packet transmitter' % f)

    # ------------------------------------------------------------------ (e) disable
    for name, role in ((BR, 'bringup_complete'), (credits, 'credits'), (exp_credit, 'expected-credit'), (to_send, 'to-send-count'),
                       (awaiting, 'unacknowledged-count'), (rptr, 'read-pointer'), (wptr, 'write-pointer'), (aptr, 'ack-pointer'),
                       (pend, 'retry-pending')):
        dr = regs(name)
        nm = M.reads(dr)
        der = [QR] if QR in nm else []
        cex = M.forall(nm | {name}, lambda e, s: M.nxt(name, e, s) == 0, fixed={EN: 0}, derive=der,
                       states=states if M.bound(dr) else (None,))
        ob('disable-clears', 'reset.' + role, cex, dr[-1].loc,
           '~enable must clear %s against every other writer (stale link state would survive link re-entry)' % role)


def check_raw(ctx):
    """The serialiser must work from a private copy of the header taken when the packet is started: PacketTransmitter
    presents buffers[read_pointer], and an LBAD rewinds read_pointer at once -- also while a later header is on the wire."""
    C = 'RawPacketTransmitter'
    ir = ctx.ir(C, 'usb3.link.transmitter')
    fsm = ctx.the_fsm(ir)
    H = 'self.header'
    ctx.need(any(n == H or n.startswith(H + '.') for n in ir.signals), 'header input of ' + C)
    lat = [a for a in ir.assigns if a.domain != 'comb' and isinstance(a.rhs, E) and a.rhs.canon() == H]
    ok = bool(lat) and all(q.state_of(a) == fsm.init for a in lat)
    ctx.ob('C39.header-latched', C + '.header-register', ok, lat[0].loc if lat else fsm.state_loc[fsm.init],
           'the header to be sent must be copied into a register in the idle state when the packet is started: %s' % [q.fmt(a) for a in lat])

    def reads_live(item):
        es = [l.e for l in item.guard if isinstance(l.e, E)]
        if getattr(item, 'kind', '') == 'assign' and isinstance(item.rhs, E):
            es.append(item.rhs)
        return any(n == H or n.startswith(H + '.') for e in es for n in e.sigs())
    live = [it for it in list(ir.assigns) + list(fsm.edges) if it.state is not None and it.state[1] != fsm.init and reads_live(it)]
    ctx.ob('C39.header-latched', C + '.no-live-header-while-sending', not live, live[0].loc if live else fsm.loc,
           'outside the idle state nothing may read the header input directly (it changes under the serialiser when an LBAD '
           'rewinds the read pointer): the words, the sequence number, DL and the CRC-5 of one header packet would come from '
           'two different queued headers: %s' % [q.fmt(x) for x in live[:3]])


def check_disable(ctx):
    """`enable` low flushes the counters and pointers; the dispatch FSM must be flushed with them: a state that waits to
    (re)transmit and survives the link going down generates headers from the flushed buffers -- while the link is down and,
    after the next bring-up, with nothing queued and no credit consumed."""
    from ..fsm import state_outcomes
    ir = ctx.ir('PacketTransmitter', 'usb3.link.transmitter')
    fsm = ctx.the_fsm(ir)
    EN = 'self.enable'
    flushed = [a.lhs.canon() for a in ir.assigns if a.state is None and q.atoms(a) == {(EN, False)} and q.is_zero(a.rhs)]
    ctx.need(len(flushed) >= 4, 'the block that flushes the queues while enable is low (found %s)' % flushed)
    for st in fsm.states:
        if st == fsm.init:
            continue
        outs = state_outcomes(fsm, st, {EN: False})
        ctx.ob('C39.disable-flushes-fsm', 'PacketTransmitter.%s@disabled' % st, set(outs) == {fsm.init}, fsm.state_loc[st],
               'with enable low the state %s must return to the initial state %s (the queues it works from are flushed): '
               'outcomes %s' % (st, fsm.init, sorted(map(str, outs))))
    stay = state_outcomes(fsm, fsm.init, {EN: False})
    gen = [a for a in q.raises(ir, 'packet_tx.generate') if a.state is None or a.state[1] == fsm.init]
    ctx.ob('C39.disable-flushes-fsm', 'PacketTransmitter.%s@disabled' % fsm.init, not gen, fsm.state_loc[fsm.init],
           'the initial state never starts a packet itself: %s (outcomes with enable low: %s)' % ([q.fmt(a) for a in gen], sorted(map(str, stay))))


def run(ctx):
    check(ctx)
    check_raw(ctx)
    check_disable(ctx)
    if ctx.tier == 'thorough':
        check(ctx, tag='buffer_count=2', buffer_count=2)
        check(ctx, tag='buffer_count=8', buffer_count=8)
