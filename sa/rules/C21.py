"""C21 -- frame and microframe numbers track received SOFs."""
import itertools

from ..ir import E, literals
from .. import q

TITLE = 'frame / microframe tracking on SOF'
FLOOR = 18
DECIDES = ('USBDevice, by exact last-assignment-wins evaluation of every driver of frame_number, microframe_number, '
           'new_frame and sof_detected over the cases {SOF strobe of the token detector, received frame equal / unequal to '
           'the stored one} (1-bit combinational intermediates resolved, all other guard atoms enumerated): (a) on a '
           'strobe frame_number takes the whole 11-bit token_detector.interface.frame, and holds without one; (b) '
           'new_frame is 1 exactly on a strobe whose frame differs from the stored (not yet updated) frame_number; (c) '
           'microframe_number is cleared on a strobe with a different frame, becomes microframe_number + 1 on a strobe '
           'with the same frame and holds without a strobe; (d) sof_detected equals the strobe; both registers are in '
           'the token detector\'s clock domain and wide enough (11 / >= 3 bits). '
           'USBTokenDetector (every filter_by_address setting): (e) every site raising interface.new_frame is guarded '
           'exactly by end-of-packet (~rx_active) and latched PID == SOF (0b0101, PID register = rx_data[0:4]); (f) the '
           'same site writes interface.frame, whole, from the 11-bit token register, in the same domain, and nothing '
           'later overrides it; (g) the strobe lasts one cycle (unconditional earlier clear) and no later assignment overrides the raise; (h) the token register is '
           'assembled LSB first: bits 0..7 from the first payload byte, bits 8..10 from bits 0..2 of the second, each '
           'captured on the rx_valid edge that advances the FSM, and the reporting state is entered only that way. ')
NOT_DECIDED = ('sequences of SOFs (the induction over histories), PID check nibble / CRC5 validation of the SOF (C01, C30), '
               'behaviour across a bus reset.')

SOF_PID = 0b0101          # USB 2.0 table 8-1
RX_DATA = 'self.utmi.rx_data'
RX_VALID = 'self.utmi.rx_valid'
RX_ACTIVE = 'self.utmi.rx_active'
MAX_FREE = 8


class _Free(Exception):
    """An atom the evaluator has no value for: it is added to the enumerated set."""
    def __init__(self, atom):
        Exception.__init__(self, atom)
        self.atom = atom


class _Eval:
    """Boolean evaluation of guards / 1-bit expressions of one ModuleIR under an atom assignment; 1-bit signals that
    are only driven combinationally are computed from their drivers (last assignment wins, default 0)."""

    def __init__(self, ctx, ir):
        self.ctx = ctx
        self.ir = ir

    # -- alias normalisation: a signal with a single unconditional comb definition that is a plain signal is that signal
    def norm(self, e, depth=6):
        if not isinstance(e, E):
            return e
        if e.op == 'sig' and depth > 0:
            d = q.comb_def(self.ir, e.args[0].name)
            if isinstance(d, E) and d.op == 'sig' and d.w == e.w:
                return self.norm(d, depth - 1)
            return e
        if e.op in ('const', 'param', 'unk'):
            return e
        return E(e.op, tuple(self.norm(a, depth) for a in e.args), e.w, e.val, e.label)

    def atom(self, e, env, busy):
        e = self.norm(e)
        key = e.canon()
        if key in env:
            return env[key]
        if e.op == 'sig' and e.w == 1:
            name = e.args[0].name
            ds = self.ir.drivers(name, exact=True)
            if ds and all(d.domain == 'comb' for d in ds):
                self.ctx.need(name not in busy, 'combinational loop through %s' % name)
                self.ctx.need(all(d.lhs.op == 'sig' and d.state is None for d in ds),
                              'whole, state-less combinational drivers of %s' % name)
                v = False
                for d in sorted(ds, key=lambda d: d.order):
                    if self.guard(d.guard, env, busy | {name}):
                        v = self.bval(d.rhs, env, busy | {name})
                return v
        raise _Free(key)

    def bval(self, e, env, busy=frozenset()):
        if not isinstance(e, E):
            return bool(e)
        op = e.op
        if op == 'const':
            return bool(e.val & 1)
        if op == '~':
            return not self.bval(e.args[0], env, busy)
        if op == '&':
            return all([self.bval(a, env, busy) for a in e.args])
        if op == '|':
            return any([self.bval(a, env, busy) for a in e.args])
        if op == '^':
            return sum(1 for a in e.args if self.bval(a, env, busy)) % 2 == 1
        if op == '!=':
            return not self.atom(E('==', e.args, 1), env, busy)
        if op == 'mux':
            return self.bval(e.args[1] if self.bval(e.args[0], env, busy) else e.args[2], env, busy)
        return self.atom(e, env, busy)

    def guard(self, guard, env, busy=frozenset()):
        ok = True
        for l in guard:
            if l.kind == 'cfg':
                key = 'cfg:' + (l.e.canon() if isinstance(l.e, E) else str(l.e))
                if key not in env:
                    raise _Free(key)
                v = env[key]
            else:
                v = self.bval(l.e, env, busy)
            if v != l.pos:
                ok = False          # keep evaluating: all free atoms are discovered in one pass
        return ok

    def winner(self, name, env):
        """The assignment to register `name` that takes effect under env (None: the register holds)."""
        win = None
        for d in sorted(self.ir.drivers(name, exact=True), key=lambda d: d.order):
            self.ctx.need(d.state is None, 'state-less drivers of %s' % name)
            if self.guard(d.guard, env):
                win = d
        return win

    def for_all(self, base, fn):
        """fn(env) -> None | str (complaint) for every completion of `base` over the atoms found free. Returns the
        first complaint with the assignment of the free atoms, or None."""
        free = []
        while True:
            try:
                for bits in itertools.product((False, True), repeat=len(free)):
                    env = dict(base)
                    env.update(zip(free, bits))
                    why = fn(env)
                    if why:
                        extra = ', '.join('%s=%d' % kv for kv in zip(free, bits))
                        return why + (' [when %s]' % extra if extra else '')
                return None
            except _Free as ex:
                self.ctx.need(ex.atom not in free and len(free) < MAX_FREE, 'a finite set of independent guard atoms (%s)' % ex.atom)
                free.append(ex.atom)


# ------------------------------------------------------------------------------------------------ bit provenance
def src_bits(e, n):
    """Where the low n bits of expression e come from: list of (signal, bit) | ('const', b) | None (unknown)."""
    if not isinstance(e, E):
        return [None] * n
    if e.op == 'sig':
        return [(e.args[0].name, i) if (e.w is None or i < e.w) else ('const', 0) for i in range(n)]
    if e.op == 'const':
        return [('const', (e.val >> i) & 1) for i in range(n)]
    if e.op == 'slice':
        inner, lo, hi = e.args
        if not (isinstance(lo, int) and isinstance(hi, int)):
            return [None] * n
        b = src_bits(inner, hi)[lo:hi]
        return (b + [('const', 0)] * n)[:n]
    if e.op == 'cat':
        out = []
        for a in e.args:
            if not isinstance(a, E) or a.w is None:
                out += [None] * n
                break
            out += src_bits(a, a.w)
        return (out + [('const', 0)] * n)[:n]
    return [None] * n


def written_bits(a, reg, w):
    """{bit of reg: source} for assignment a (None if the target is not understood)."""
    lhs = a.lhs
    if lhs.op == 'sig' and lhs.args[0].name == reg:
        lo, hi = 0, w
    elif lhs.op == 'slice' and isinstance(lhs.args[0], E) and lhs.args[0].op == 'sig' and lhs.args[0].args[0].name == reg \
            and isinstance(lhs.args[1], int) and isinstance(lhs.args[2], int):
        lo, hi = lhs.args[1], min(lhs.args[2], w)
    else:
        return None
    src = src_bits(a.rhs, hi - lo)
    return {lo + i: src[i] for i in range(hi - lo)}


def expanded(ir, guard, depth=4):
    """Guard literals with 1-bit locals that have a single unconditional comb definition replaced by the conjuncts of it."""
    out = []
    for l in guard:
        e = l.e
        if isinstance(e, E) and e.op == 'sig' and depth > 0 and l.kind != 'cfg':
            d = q.comb_def(ir, e.args[0].name)
            if d is not None:
                out += expanded(ir, literals(d, l.pos), depth - 1)
                continue
        out.append(l)
    return out


def atomset(lits):
    return {(('cfg:' if l.kind == 'cfg' else '') + (l.e.canon() if isinstance(l.e, E) else str(l.e)), l.pos) for l in lits}


# ------------------------------------------------------------------------------------------------ token detector
def check_detector(ctx, tag, **kw):
    """Obligations (e)-(h). Returns (clock domain of the strobe, 'frame changes only together with the strobe')."""
    ir = ctx.ir('USBTokenDetector', 'usb2.packet', **kw)
    fsm = ctx.the_fsm(ir)
    C = 'USBTokenDetector%s.' % tag
    NEWF, FRAME = 'self.interface.new_frame', 'self.interface.frame'
    raises = q.raises(ir, NEWF)
    ctx.need(raises, 'a site raising interface.new_frame')
    fdrv = ir.drivers(FRAME, exact=True)
    ctx.need(fdrv, 'a driver of interface.frame')
    fw = ir.signals[FRAME].w if FRAME in ir.signals else None
    regs = set()
    for i, r in enumerate(sorted(raises, key=lambda a: a.order)):
        site = 'sof-report' + ('#%d' % i if i else '')
        lits = expanded(ir, r.guard)
        ats = atomset(lits)
        # (e)
        pid = [(l, q.const_eq(l.e)) for l in lits if isinstance(l.e, E) and l.pos and q.const_eq(l.e)]
        pid = [(l, ce) for l, ce in pid if ce[0] == SOF_PID]
        ok = r.state is not None and q.is_one(r.rhs) and (RX_ACTIVE, False) in ats and len(pid) == 1 and len(ats) == 2
        ctx.ob('C21.sof-site-guard', C + site + '.guard', ok, r.loc,
               'the SOF strobe must be raised exactly at the end of the packet (~rx_active) of a token whose latched PID '
               'is SOF (0b0101), nothing more and nothing less: %s' % q.fmt(r))
        preg = pid[0][1][1] if len(pid) == 1 else None
        pd = ir.drivers(preg, exact=True) if preg else []
        psi = ir.signals.get(preg)
        ok = bool(pd) and psi is not None and psi.w == 4
        for d in pd:
            wb = written_bits(d, preg, 4)
            ok = ok and wb is not None and all(wb.get(k) == (RX_DATA, k) for k in range(4)) and d.domain == r.domain
        ctx.ob('C21.sof-site-guard', C + site + '.pid-register', ok, pd[0].loc if pd else r.loc,
               'the PID compared with SOF must be a 4-bit register loaded from rx_data[0:4]: %s' % [q.fmt(d) for d in pd])
        # (f)
        same = [f for f in fdrv if f.state == r.state and atomset(expanded(ir, f.guard)) <= ats]
        f = max(same, key=lambda a: a.order) if same else None
        later = [g for g in fdrv if f is not None and g.order > f.order and g.state in (None, r.state)
                 and not any((a, not p) in ats for a, p in atomset(expanded(ir, g.guard)))]
        sb = src_bits(f.rhs, 11) if f is not None else [None]
        freg = sb[0][0] if sb[0] is not None and sb[0][0] != 'const' else None
        ok = f is not None and f.domain == r.domain and f.lhs.op == 'sig' and freg is not None and \
            sb == [(freg, k) for k in range(11)] and fw == 11 and not later
        ctx.ob('C21.frame-with-strobe', C + site + '.frame', ok, f.loc if f is not None else r.loc,
               'the site raising new_frame must also load the whole 11-bit interface.frame from the token register in '
               'the same clock domain, and no later assignment may override it: %s' % (
                   [q.fmt(x) for x in ([f] if f is not None else fdrv) + later]))
        if ok:
            regs.add(freg)
        # (g)
        if r.domain == 'comb':
            ok = True
        else:
            clr = [c for c in q.clears(ir, NEWF) if not c.guard and c.state is None and c.domain == r.domain and
                   c.lhs.op == 'sig' and c.order < r.order]
            ok = bool(clr)
        ctx.ob('C21.strobe-one-cycle', C + site + '.clear', ok, r.loc,
               'interface.new_frame is a one-cycle strobe: an unconditional `new_frame <= 0` must precede the raise '
               '(later assignment wins), otherwise every following cycle counts as another SOF')
        over = [g for g in ir.drivers(NEWF, exact=True) if g.order > r.order and g.domain == r.domain and not q.is_one(g.rhs)
                and g.state in (None, r.state) and not any((a, not p) in ats for a, p in atomset(expanded(ir, g.guard)))]
        ctx.ob('C21.strobe-one-cycle', C + site + '.wins', not over, (over or [r])[0].loc,
               'a later assignment to interface.new_frame overrides the raise (later assignment wins), the SOF is never '
               'reported: %s' % [q.fmt(g) for g in over])
    strobe_domain = sorted(raises, key=lambda a: a.order)[0].domain
    # frame never changes without the strobe (lets the device compare unguardedly)
    only_with = all(any(r.state == f.state and atomset(expanded(ir, r.guard)) <= atomset(expanded(ir, f.guard)) and
                        r.domain == f.domain for r in raises) for f in fdrv)
    # (h)
    if len(regs) != 1:
        # only possible after a failed frame-with-strobe obligation (or two different registers): identify the register
        # by what interface.frame reads, so that the remaining clauses are still decided
        ctx.need(any(not o.ok for o in ctx.obs) or len(regs) > 1, 'the token register read into interface.frame')
        regs = {s for f in fdrv if isinstance(f.rhs, E) for s in f.rhs.sigs() if s in ir.signals and ir.signals[s].w == 11}
        ctx.ob('C21.frame-bits', C + 'token-register.identity', len(regs) == 1, fdrv[0].loc,
               'interface.frame must be loaded from one 11-bit token register: reads %s' % sorted(
                   {s for f in fdrv if isinstance(f.rhs, E) for s in f.rhs.sigs()}))
        if len(regs) != 1:
            return strobe_domain, only_with
    reg = regs.pop()
    rw = ir.signals[reg].w if reg in ir.signals else None
    report_states = {q.state_of(r) for r in raises}
    low, high, other = [], [], []
    for d in ir.drivers(reg, exact=True):
        wb = written_bits(d, reg, rw or 11)
        if wb is None or d.state is None:
            other.append(d)
        elif all(wb.get(k) == (RX_DATA, k) for k in range(8)):
            low.append(d)
        elif all(wb.get(8 + k) == (RX_DATA, k) for k in range(3)) and all(wb.get(k, (reg, k)) == (reg, k) for k in range(8)):
            high.append(d)
        else:
            other.append(d)
    ctx.ob('C21.frame-bits', C + 'token-register.low-byte', rw == 11 and bool(low), low[0].loc if low else None,
           'bits 0..7 of the 11-bit token register %s must be loaded from rx_data[0:8] (first payload byte)' % reg)
    ctx.ob('C21.frame-bits', C + 'token-register.high-bits', bool(high), high[0].loc if high else None,
           'bits 8..10 of the token register %s must be loaded from rx_data[0:3] (second payload byte) leaving bits 0..7 '
           'alone: %s' % (reg, [q.fmt(d) for d in ir.drivers(reg, exact=True) if d not in low]))
    ctx.ob('C21.frame-bits', C + 'token-register.other-writes', not other, other[0].loc if other else None,
           'unexpected write to the token register (wrong bit positions / outside the two capture states): %s' % [
               q.fmt(d) for d in other])
    lo_states = {q.state_of(d) for d in low}
    hi_states = {q.state_of(d) for d in high}

    def captured_on(edge, writes):
        ea = atomset(expanded(ir, edge.guard))
        return (RX_VALID, True) in ea and any(w.state == edge.state and atomset(expanded(ir, w.guard)) <= ea for w in writes)
    ins_hi = [e for s in hi_states for e in fsm.in_edges(s)]
    bad = [e for e in ins_hi if not (e.src in lo_states and captured_on(e, low))]
    ctx.ob('C21.frame-byte-order', C + 'first-byte->second-byte', bool(ins_hi) and not bad and not (lo_states & hi_states),
           (bad or ins_hi or [fsm])[0].loc,
           'the state capturing bits 8..10 must be entered only from the state capturing bits 0..7, on the rx_valid edge '
           'on which that byte is captured: %s' % [q.fmt(e) for e in bad])
    ins_rep = [e for s in report_states for e in fsm.in_edges(s)]
    bad = [e for e in ins_rep if not (e.src in hi_states and captured_on(e, high))]
    ctx.ob('C21.frame-byte-order', C + 'second-byte->report', bool(ins_rep) and not bad and not (report_states & (hi_states | lo_states)),
           (bad or ins_rep or [fsm])[0].loc,
           'the state reporting the SOF must be entered only from the state capturing bits 8..10, on the rx_valid edge '
           'on which they are captured: %s' % [q.fmt(e) for e in bad])
    return strobe_domain, only_with


# ------------------------------------------------------------------------------------------------ device
def check_device(ctx, tag, strobe_domain, frame_only_with_strobe, **kw):
    ir = ctx.ir('USBDevice', 'usb2.device', allow_opaque=True, **kw)
    C = 'USBDevice%s.' % tag
    tds = [s for s in ir.submodules if s.obj is not None and s.obj.clsname == 'USBTokenDetector']
    ctx.need(len(tds) == 1, 'exactly one USBTokenDetector submodule of USBDevice (found %d)' % len(tds))
    td = tds[0]
    SOF = td.name + '.interface.new_frame'
    FRAME = td.name + '.interface.frame'
    FN, MF, NF, SD = 'self.frame_number', 'self.microframe_number', 'self.new_frame', 'self.sof_detected'
    for s in (FN, MF, NF, SD):
        ctx.need(s in ir.signals and ir.drivers(s, exact=True), 'signal %s with a driver' % s)
    ctx.need(td.domain_map is None, 'token detector instantiated without DomainRenamer')
    ev = _Eval(ctx, ir)
    fsig = [n for a in ir.assigns if isinstance(a.rhs, E) for n in a.rhs.walk() if n.op == 'sig' and n.args[0].name == FRAME]
    ctx.need(fsig, 'a read of %s' % FRAME)
    EQ = E('==', (E('sig', (ir.signals[FN],), ir.signals[FN].w), fsig[0]), 1).canon()
    INC = {'1 + ' + MF, '(1 + %s)[0:%d]' % (MF, ir.signals[MF].w or 3)}
    loc = lambda s: ir.drivers(s, exact=True)[0].loc

    def value_of(w, env):
        """The expression register-assignment w loads under env (Mux on a decidable condition resolved)."""
        if w is None or w.lhs.op != 'sig' or w.domain == 'comb' or not isinstance(w.rhs, E):
            return None
        e = ev.norm(w.rhs)
        while e.op == 'mux':
            e = e.args[1] if ev.bval(e.args[0], env) else e.args[2]
        return e

    def describe(w):
        return 'holds' if w is None else q.fmt(w)

    cases = [('sof-changed', True, False), ('sof-same', True, True), ('no-sof', False, True)]
    for name, sof, eq in cases:
        base = {SOF: sof, EQ: eq}

        def frame_ok(env):
            w = ev.winner(FN, env)
            v = value_of(w, env)
            r = v.canon() if v is not None else None
            if sof and not eq:
                good = r == FRAME and v.w == 11
            else:                       # stored == received: loading it again is a no-op
                good = w is None or r in (FRAME, FN)
            return None if good else describe(w)
        why = ev.for_all(base, frame_ok)
        ctx.ob('C21.frame-latched', C + 'frame_number@' + name, why is None, loc(FN),
               ('on a SOF strobe frame_number must take the whole %s' % FRAME if sof else
                'without a SOF strobe frame_number must hold') + '; instead: %s' % why)

        def strobe_ok(env):
            v = ev.bval(E('sig', (ir.signals[NF],), 1), env)
            return None if v == (sof and not eq) else 'new_frame = %d' % v
        why = ev.for_all(base, strobe_ok)
        ctx.ob('C21.new-frame-strobe', C + 'new_frame@' + name, why is None, loc(NF),
               'new_frame must be %d when the SOF strobe is %d and the received frame %s the stored frame_number; instead: %s' % (
                   sof and not eq, sof, 'equals' if eq else 'differs from', why))

        def micro_ok(env):
            w = ev.winner(MF, env)
            v = value_of(w, env)
            r = v.canon() if v is not None else None
            if not sof:
                good = w is None or r == MF
            elif eq:
                good = r in INC
            else:
                good = v is not None and q.is_zero(v)
            return None if good else describe(w)
        why = ev.for_all(base, micro_ok)
        want = 'hold' if not sof else ('become microframe_number + 1' if eq else 'be cleared')
        ctx.ob('C21.microframe', C + 'microframe_number@' + name, why is None, loc(MF),
               'with SOF strobe %d and received frame %s the stored one, microframe_number must %s; instead: %s' % (
                   sof, 'equal to' if eq else 'different from', want, why))

        def sd_ok(env):
            v = ev.bval(E('sig', (ir.signals[SD],), 1), env)
            return None if v == sof else 'sof_detected = %d' % v
        why = ev.for_all(base, sd_ok)
        ctx.ob('C21.sof-detected', C + 'sof_detected@' + name, why is None, loc(SD),
               'sof_detected must equal the token detector\'s SOF strobe; instead: %s' % why)

    # stale case: received frame differs from the stored one although no strobe is present. Unreachable as long as the
    # detector changes `frame` only together with the strobe; otherwise nothing may happen in it either.
    def stale_ok(env):
        if ev.bval(E('sig', (ir.signals[NF],), 1), env):
            return 'new_frame = 1'
        for reg in (FN, MF):
            w = ev.winner(reg, env)
            v = value_of(w, env)
            if w is not None and (v is None or v.canon() != reg):
                return describe(w)
        return None
    why = None if frame_only_with_strobe else ev.for_all({SOF: False, EQ: False}, stale_ok)
    ctx.ob('C21.new-frame-strobe', C + 'no-sof-stale-frame', why is None, loc(NF),
           'the token detector changes interface.frame without raising new_frame, and the device then reacts without a '
           'SOF: %s' % why)
    # widths and clock domain
    ctx.ob('C21.widths', C + 'frame_number.width', ir.signals[FN].w == 11 and ir.signals.get(FRAME) is not None and
           ir.signals[FRAME].w == 11, ir.signals[FN].loc, 'frame numbers are 11 bits: frame_number %s, %s %s' % (
               ir.signals[FN].w, FRAME, ir.signals[FRAME].w if FRAME in ir.signals else None))
    ctx.ob('C21.widths', C + 'microframe_number.width', (ir.signals[MF].w or 0) >= 3, ir.signals[MF].loc,
           'microframe_number must count 0..7: width %s' % ir.signals[MF].w)
    for reg in (FN, MF):
        doms = {d.domain for d in ir.drivers(reg, exact=True)}
        ctx.ob('C21.domain', C + reg[5:] + '.domain', doms == {strobe_domain}, loc(reg),
               '%s must be a register of the token detector\'s clock domain %r (the strobe lasts one cycle of it): %s' % (
                   reg, strobe_domain, sorted(doms)))


def run(ctx):
    dom, only = check_detector(ctx, '')
    if ctx.tier == 'thorough':
        for tag, kw in (('[nofilter]', dict(filter_by_address=False)),
                        ('[fs]', dict(domain_clock=12e6, fs_only=True)),
                        ('[fs,nofilter]', dict(domain_clock=12e6, fs_only=True, filter_by_address=False))):
            d2, o2 = check_detector(ctx, tag, **kw)
            ctx.need(d2 == dom, 'one clock domain of the token detector in all configurations')
            only = only and o2
    check_device(ctx, '', dom, only)
    if ctx.tier == 'thorough':
        check_device(ctx, '[no-clocking]', dom, only, handle_clocking=False)
