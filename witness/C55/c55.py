# to_cycles=1 with allow_delay=True: the output must start one cycle after the strobe (as it does for every other length)
from amaranth import *
from amaranth.sim import Simulator
from luna.gateware.utils.cdc import stretch_strobe_signal
class H(Elaboratable):
    def __init__(self, n): self.strobe=Signal(); self.out=Signal(); self.n=n
    def elaborate(self, platform):
        m=Module(); stretch_strobe_signal(m, self.strobe, to_cycles=self.n, output=self.out, allow_delay=True); return m
for n in (1,2):
    dut=H(n); sim=Simulator(dut)
    try: sim.add_clock(1e-6)
    except NameError: print("to_cycles=%d allow_delay: no register at all, out is the strobe itself (no delay)" % n); continue
    tr=[]
    async def tb(ctx):
        for c in range(6):
            ctx.set(dut.strobe, 1 if c==1 else 0)
            tr.append((c, ctx.get(dut.strobe), ctx.get(dut.out)))
            await ctx.tick()
    sim.add_testbench(tb); sim.run()
    print('to_cycles=%d allow_delay: (cycle, strobe, out) ='%n, tr)
