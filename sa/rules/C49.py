"""C49 -- UART transmitters produce exact 8N1 frames (UARTTransmitter, UARTMultibyteTransmitter)."""
from ..ir import E
from .. import q
from ..fsm import state_outcomes, atom_of
from ..gf2 import Vars, forms, NotAffine

TITLE = 'UART 8N1 framing'
FLOOR = 200
DECIDES = ('For the symbolic divisor (all divisors at once) and for concrete divisors (1, 2, 5, 16; more when thorough): '
           '(a) tx is bit 0 of a registered shift register in exactly one state and the constant 1 (or its reset value 1) '
           'in every other state; every value written to that register is either the frame {0, payload[0..7] in order, 1} '
           '(bit-exact, register wide enough for the stop bit) or the register shifted right by exactly one; '
           '(b) the baud counter is decremented by one per cycle, reloaded with divisor-1 when it is 0 with the reload '
           'winning over the decrement, holds divisor-1 after every frame load, and is wide enough; the bit counter is '
           'loaded with frame bits-1 at every frame load, decremented exactly on (baud==0 & bits>0) together with the '
           'shift, and is wide enough -- so a frame is 10 periods of exactly divisor cycles; '
           '(c) stream.ready is raised only in the idle state or on (baud==0 & bits==0); a frame is loaded exactly under '
           '(a ready site & stream.valid) and every ready site has such a load; '
           '(d) the idle state moves to the shifting state exactly on an accepted byte, and the shifting state can be '
           'left only on (baud==0 & bits==0 & ~valid). '
           'Multi-byte (byte widths 1, 2, 4; more when thorough): (e) tx is the inner UARTTransmitter tx, which gets the '
           'same divisor; its payload is bits 0..7 of a registered word shifter that is loaded with the whole stream '
           'payload or shifted right by exactly 8; (f) the byte counter is loaded with byte_width-1 with every word, '
           'decremented with the shift exactly on (uart ready & bytes>0), wide enough; uart valid is raised only in the '
           'sending state and covers every hand-over; (g) the word stream is ready only in idle or on '
           '(uart ready & bytes==0), words are loaded exactly on accept, and the sending state is left only on '
           '(uart ready & bytes==0 & ~valid). '
           '(h) words-exact: the one-cycle relation of UARTMultibyteTransmitter x a monitor of the bytes still due, explored exhaustively with uart ready, stream.valid and two words of distinct bytes free every cycle: every byte handed to the inner UART is the next one due, nothing is handed over when nothing is due, no word is accepted while bytes of the previous one remain; where the per-site obligations do not recognise the shape of the load / ready logic they are skipped and this decision stands. ')
NOT_DECIDED = ('the idle/driving status outputs; that the transmitter returns to the idle state at all (staying in the '
               'shifting state with an all-ones register is equally correct); reset values of the registers other than tx.')

MOD = 'interface.uart'


# ------------------------------------------------------------------------------------------------ guard normalisation
def _zero_test(e):
    """(signal, value_of_'signal != 0'_when_e_is_true, signal width) for the usual spellings of a zero test, else None."""
    if not isinstance(e, E):
        return None
    if e.op == 'sig' and (e.w or 0) != 1:
        return e.canon(), True, e.w
    if e.op == 'call' and e.args and e.args[0] in ('any', 'bool') and len(e.args) == 2 and \
            isinstance(e.args[1], E) and e.args[1].op == 'sig':
        return e.args[1].canon(), True, e.args[1].w
    if len(e.args) != 2 or not all(isinstance(a, E) for a in e.args):
        return None
    a, b = e.args
    if e.op == '==':
        if a.op == 'const':
            a, b = b, a
        if a.op == 'sig' and b.is_const(0):
            return a.canon(), False, a.w
    if e.op in ('>', '<', '>=', '<='):
        op = e.op
        if a.op == 'const':                  # K op x  ->  x op' K
            a, b = b, a
            op = {'>': '<', '<': '>', '>=': '<=', '<=': '>='}[op]
        if a.op == 'sig' and b.op == 'const':
            if (op, b.val) in (('>', 0), ('>=', 1)):
                return a.canon(), True, a.w
            if (op, b.val) in (('<', 1), ('<=', 0)):
                return a.canon(), False, a.w
    return None


def _nzkey(ir, name):
    """Key of the test `name != 0`: a 1-bit signal is its own non-zero test (the extractor writes `S == 0` of a
    1-bit S as `~S`), a wider one gets the key ('nz', S)."""
    si = ir.signals.get(name)
    return name if (si is not None and si.w == 1) else ('nz', name)


_ALIAS = {}      # 1-bit combinational local -> (key, value of the key when the local is 1); set per IR by _set_aliases


def _set_aliases(ir):
    """A 1-bit local with a single unconditional combinational definition that is a zero test of a signal (a named
    bit-period tick, `tick = (counter == 0)`) stands for that test wherever it is used as a guard literal."""
    _ALIAS.clear()
    for name, si in ir.signals.items():
        if si.w != 1 or name.startswith('self.'):
            continue
        ds = ir.drivers(name, exact=True)
        if len(ds) != 1 or ds[0].domain != 'comb' or ds[0].guard or ds[0].state is not None:
            continue
        r = ds[0].rhs
        if isinstance(r, E) and r.op == 'sig' and r.w == 1 and r.canon() != name:
            _ALIAS[name] = (r.canon(), True)
            continue
        if isinstance(r, E) and r.op == '~' and isinstance(r.args[0], E) and r.args[0].op == 'sig' and r.args[0].w == 1:
            _ALIAS[name] = (r.args[0].canon(), False)
            continue
        zt = _zero_test(ds[0].rhs)
        if zt is None and isinstance(ds[0].rhs, E) and ds[0].rhs.op == '~' and isinstance(ds[0].rhs.args[0], E):
            zt = _zero_test(ds[0].rhs.args[0])
            zt = zt and (zt[0], not zt[1], zt[2])
        if zt is not None and zt[0] != name:
            _ALIAS[name] = ((zt[0] if zt[2] == 1 else ('nz', zt[0])), zt[1])


def _nlit(l):
    """Normalised literal (key, value): zero tests on a signal S become (('nz', S), bool); S itself when S is 1 bit."""
    zt = _zero_test(l.e)
    if zt is not None and l.kind == 'cond':
        return (zt[0] if zt[2] == 1 else ('nz', zt[0])), (zt[1] == l.pos)
    a, p = atom_of(l)
    if a in _ALIAS:
        k, v = _ALIAS[a]
        return k, (v == p)
    return a, p


def norm(item):
    return dict(_nlit(l) for l in item.guard)


def _sub(g, h):
    return all(k in h and h[k] == v for k, v in g.items())


def _consistent(g, h):
    return all(h.get(k, v) == v for k, v in g.items())


def _show(g):
    def one(k, v):
        if isinstance(k, tuple):
            return '%s %s 0' % (k[1], '!=' if v else '==')
        return k if v else '~' + k
    return ' & '.join(sorted(one(k, v) for k, v in g.items())) or '1'


def _assume(fsm, state, want):
    """Translate normalised literals into the atom texts used by the edges leaving `state`."""
    out = {}
    for e in fsm.out_edges(state):
        for l in e.guard:
            k, v = _nlit(l)
            if k in want:
                text, pos = atom_of(l)
                out[text] = pos if want[k] == v else (not pos)
    return out


def _outs(fsm, state, want):
    return set(state_outcomes(fsm, state, _assume(fsm, state, want)))


# ------------------------------------------------------------------------------------------------ expression roles
def _is_dec(a):
    """`S <= S - 1`"""
    r = a.rhs
    return isinstance(r, E) and r.op == '-' and len(r.args) == 2 and isinstance(r.args[0], E) and \
        r.args[0].op == 'sig' and r.args[0].canon() == a.lhs.canon() and isinstance(r.args[1], E) and r.args[1].is_const(1)


def _val(e):
    if isinstance(e, E) and e.op == 'const':
        return e.val
    return e.canon() if isinstance(e, E) else repr(e)


def _forms(ctx, e, vs, what):
    try:
        return forms(e, vs)
    except NotAffine as ex:
        ctx.need(False, '%s is not a Cat/slice/constant network: %s' % (what, ex))


def _try_forms(e, vs):
    try:
        return forms(e, vs)
    except NotAffine:
        return []


def _fit(f, w):
    return (list(f) + [0] * w)[:w]


def _find_reg(ctx, ir, fsm, src):
    """The register that latches the stream payload: the only signal written in the FSM clock domain from `src`."""
    names = sorted({a.lhs.canon() for a in ir.assigns if a.domain == fsm.domain and isinstance(a.lhs, E) and
                    a.lhs.op == 'sig' and isinstance(a.rhs, E) and src in a.rhs.sigs()})
    ctx.need(len(names) == 1, 'the single register that latches %s in %s (found %s)' % (src, ir.clsname, names))
    ctx.need(names[0] in ir.signals and ir.signals[names[0]].w, 'width of the register %s' % names[0])
    return names[0]


def effective(ir, fsm, sig, state, g):
    """The drivers of `sig` that can decide its next value at a site (state, normalised guard g) under last-wins:
    the last one that certainly fires plus every later one that may fire.  [] when none certainly fires."""
    ds = sorted([a for a in ir.drivers(sig, exact=True) if a.state is None or a.state == (fsm.id, state)],
                key=lambda a: a.order)
    sure = [a for a in ds if _sub(norm(a), g)]
    if not sure:
        return []
    return [sure[-1]] + [a for a in ds if a.order > sure[-1].order and _consistent(norm(a), g) and not _sub(norm(a), g)]


# ------------------------------------------------------------------------------------------------ the common skeleton
def serializer(ctx, C, tag, ir, fsm, reg, tick, unit, nunits, want_load, src, rdy, vld, what):
    """A register `reg` loaded from `src` and shifted right by `unit` bits on every `tick` while a down-counter is
    non-zero; `nunits` units per load.  Returns (send_state, counter, load sites, tick guard of the shift)."""
    K = lambda role: '%s.%s[%s]' % (C, role, tag)
    idle = fsm.init
    si = ir.signals.get(reg)
    ctx.need(si is not None and si.w is not None, 'width of the shift register %s of %s' % (reg, C))
    W = si.w
    drv = q.merged_drivers(ir, reg)            # a shift written slice by slice (`r[0:9].eq(r[1:]); r[9].eq(0)`) is one write
    ctx.need(drv, 'writers of the shift register %s' % reg)
    ctx.ob('C49.registered', K(what + '-shifter.domain'),
           all(a.domain == fsm.domain for a in drv), drv[0].loc,
           'the %s shifter %s must be a register written in the FSM clock domain (the line shows latched data, not the '
           'live input): %s' % (what, reg, [q.fmt(a) for a in drv if a.domain != fsm.domain]))
    loads = [a for a in drv if isinstance(a.rhs, E) and src in a.rhs.sigs()]
    shifts = [a for a in drv if isinstance(a.rhs, E) and a.rhs.sigs() == {reg}]
    other = [a for a in drv if a not in loads and a not in shifts]
    ctx.ob('C49.shifter-writes', K(what + '-shifter.writers'), not other, other[0].loc if other else drv[0].loc,
           'every write of %s must be a load from %s or a shift of itself: %s' % (reg, src, [q.fmt(a) for a in other]))
    ctx.need(loads and shifts, 'load and shift sites of %s' % reg)
    send = {q.state_of(a) for a in shifts}
    ctx.need(len(send) == 1 and None not in send, 'the single state that shifts %s' % reg)
    send = send.pop()
    ctx.need(send != idle, 'the shifting state differs from the initial (idle) state')
    vs = Vars()
    regv = vs.vec(reg, W)
    # -- shift direction and amount
    for i, a in enumerate(shifts):
        got = _fit(_forms(ctx, a.rhs, vs, 'shift of ' + reg), W)
        ctx.ob('C49.shift-right', K(what + '-shifter.shift#%d' % i), got == _fit(regv[unit:], W), a.loc,
               '%s must be shifted right by exactly %d (next unit at bit 0, zero fill); found %s <= %s' % (
                   reg, unit, reg, a.rhs.canon()))
    # -- load contents
    site_name = lambda a: 'idle' if q.state_of(a) == idle else ('next' if q.state_of(a) == send else 'other')
    per = {}
    for a in sorted(loads, key=lambda a: a.order):
        per.setdefault(site_name(a), []).append(a)
    sites = []
    for nm, ls in per.items():
        for i, a in enumerate(ls):
            sites.append((nm if i == 0 else '%s#%d' % (nm, i), a))
    ctx.need(any(nm == 'idle' for nm, _ in sites), 'a load of %s in the idle state' % reg)
    for nm, a in sites:
        got = _fit(_forms(ctx, a.rhs, vs, 'load of ' + reg), W)
        exp = want_load(vs)
        ok = W >= len(exp) and got[:len(exp)] == exp
        ctx.ob('C49.load-layout', K(what + '-shifter.load@' + nm), ok, a.loc,
               '%s (width %d) must be loaded with %s; found %s giving [%s]' % (
                   reg, W, ', '.join(vs.describe(f) for f in exp), a.rhs.canon(), ', '.join(vs.describe(f) for f in got)))
    # -- the unit counter
    cands = sorted({a.lhs.canon() for a in ir.assigns if a.state == (fsm.id, send) and a.lhs.op == 'sig' and _is_dec(a)
                    and a.lhs.canon() != reg and a.domain == fsm.domain} - {tick[0][1] if isinstance(tick[0], tuple) else tick[0]})
    ctx.need(len(cands) == 1, 'exactly one down-counter of remaining units next to %s (found %s)' % (reg, cands))
    cnt = cands[0]
    g_shift = {tick[0]: tick[1], _nzkey(ir, cnt): True}
    g_last = {tick[0]: tick[1], _nzkey(ir, cnt): False}
    for i, a in enumerate(shifts):
        ctx.ob('C49.shift-guard', K(what + '-shifter.shift#%d.guard' % i), norm(a) == g_shift, a.loc,
               '%s must shift on every unit boundary while units remain, i.e. exactly under (%s); found (%s)' % (
                   reg, _show(g_shift), _show(norm(a))))
    cd = [a for a in ir.drivers(cnt, exact=True)]
    decs = [a for a in cd if _is_dec(a)]
    bad = [a for a in decs if a.state != (fsm.id, send) or norm(a) != g_shift]
    ctx.ob('C49.count-step', K(what + '-counter.decrement'), decs and not bad, (bad or decs)[0].loc,
           'the counter %s must be decremented by one exactly with the shift, under (%s): %s' % (
               cnt, _show(g_shift), [q.fmt(a) for a in bad]))
    stray = [a for a in cd if a not in decs and not (isinstance(a.rhs, E) and a.rhs.op == 'const' and
                                                      any(a.state == l.state and norm(a) == norm(l) for _, l in sites))]
    ctx.ob('C49.count-step', K(what + '-counter.writers'), not stray and all(a.domain == fsm.domain for a in cd),
           (stray or cd)[0].loc, 'the counter %s may only be decremented with the shift or loaded with a constant together '
           'with %s: %s' % (cnt, reg, [q.fmt(a) for a in stray]))
    ci = ir.signals.get(cnt)
    ctx.need(ci is not None and ci.w is not None, 'width of the counter %s' % cnt)
    ctx.ob('C49.count-range', K(what + '-counter.width'), (1 << ci.w) > nunits - 1, ci.loc,
           'counter %s (width %d) must be able to hold %d' % (cnt, ci.w, nunits - 1))
    for nm, a in sites:
        eff = effective(ir, fsm, cnt, q.state_of(a), norm(a))
        ok = bool(eff) and all(_val(x.rhs) == nunits - 1 for x in eff)
        ctx.ob('C49.count-load', K(what + '-counter.load@' + nm), ok, a.loc,
               'with every load of %s the counter %s must become %d (units per load %d, the last one is sent at 0); '
               'deciding assignments: %s' % (reg, cnt, nunits - 1, nunits, [q.fmt(x) for x in eff] or 'none'))
    # -- accept protocol
    rd = ir.drivers(rdy, exact=True)
    ctx.need(rd, 'drivers of ' + rdy)
    weird = [a for a in rd if a.domain != 'comb' or not (q.is_one(a.rhs) or q.is_zero(a.rhs))]
    ctx.ob('C49.ready-window', K(rdy.replace('self.', '') + '.shape'), not weird, (weird or rd)[0].loc,
           '%s must be a combinational 0/1 decision per state: %s' % (rdy, [q.fmt(a) for a in weird]))
    raises = [a for a in rd if not q.is_zero(a.rhs)]
    clears = [a for a in rd if q.is_zero(a.rhs)]
    late_clear = [c for c in clears if any(c.order > r.order and (c.state is None or c.state == r.state) and
                                            _consistent(norm(c), norm(r)) for r in raises)]
    ctx.ob('C49.ready-window', K(rdy.replace('self.', '') + '.no-late-clear'), not late_clear,
           late_clear[0].loc if late_clear else rd[0].loc,
           'a later assignment clears %s after it was raised (later wins): %s' % (rdy, [q.fmt(c) for c in late_clear]))
    wrong = [a for a in raises if not (q.state_of(a) == idle or (q.state_of(a) == send and _sub(g_last, norm(a))))]
    ctx.ob('C49.ready-window', K(rdy.replace('self.', '') + '.window'), raises and not wrong, (wrong or rd)[0].loc,
           '%s may be raised only in the idle state or at the end of the last unit (%s): %s' % (
               rdy, _show(g_last), [q.fmt(a) for a in wrong]))
    ctx.need(any(q.state_of(a) == idle for a in raises), '%s is raised in the idle state' % rdy)
    rs = {}
    for a in sorted(raises, key=lambda a: a.order):
        nm = 'idle' if q.state_of(a) == idle else ('next' if q.state_of(a) == send else 'other')
        rs.setdefault(nm, []).append(a)
    for nm, ls in rs.items():
        for i, r in enumerate(ls):
            want = dict(norm(r))
            want[vld] = True
            hit = [l for _, l in sites if l.state == r.state and norm(l) == want]
            ctx.ob('C49.accept-loads', K('accept@%s%s' % (nm, '#%d' % i if i else '')), len(hit) == 1, r.loc,
                   'where %s is raised, %s must be loaded exactly under (%s) -- otherwise an accepted item is lost; '
                   'loads there: %s' % (rdy, reg, _show(want), [q.fmt(l) for _, l in sites if l.state == r.state]))
    for nm, l in sites:
        g = norm(l)
        rest = {k: v for k, v in g.items() if k != vld}
        ok = g.get(vld) is True and any(r.state == l.state and norm(r) == rest for r in raises)
        ctx.ob('C49.load-on-accept', K(what + '-shifter.load@' + nm + '.guard'), ok, l.loc,
               '%s may be loaded only when the item is accepted (%s raised and %s): guard (%s)' % (reg, rdy, vld, _show(g)))
    # -- FSM
    il = [l for nm, l in sites if q.state_of(l) == idle]
    for i, l in enumerate(il):
        g = norm(l)
        outs = _outs(fsm, idle, g)
        ctx.ob('C49.start-on-accept', K('idle.start%s' % ('#%d' % i if i else '')), outs == {send}, fsm.state_loc[idle],
               'accepting an item in the idle state must start the shifting state %s: outcomes %s' % (send, sorted(map(str, outs))))
    if len(il) == 1:
        g = norm(il[0])
        for k in sorted(g, key=str):
            flipped = dict(g)
            flipped[k] = not g[k]
            outs = _outs(fsm, idle, flipped)
            ctx.ob('C49.idle-holds', K('idle.hold.' + (k if isinstance(k, str) else k[1]).replace('self.', '')),
                   outs == {None}, fsm.state_loc[idle],
                   'the idle state must not start shifting the stale register unless an item is accepted (%s false): '
                   'outcomes %s' % (_show({k: g[k]}), sorted(map(str, outs))))
    fin = dict(g_last)
    fin[vld] = False
    for k in sorted(fin, key=str):
        flipped = dict(fin)
        flipped[k] = not fin[k]
        outs = _outs(fsm, send, flipped)
        ctx.ob('C49.leave-after-last', K('send.exit.' + (k if isinstance(k, str) else k[1]).replace('self.', '')),
               outs <= {None, send}, fsm.state_loc[send],
               'the shifting state may be left only under (%s); with (%s) it can go to %s' % (
                   _show(fin), _show(flipped), sorted(map(str, outs - {None, send}))))
    outs = _outs(fsm, send, fin)
    ctx.ob('C49.leave-after-last', K('send.exit.target'), outs <= {None, send, idle}, fsm.state_loc[send],
           'after the last unit the shifting state may only stay or return to the idle state: %s' % sorted(map(str, outs)))
    return send, cnt, sites, g_shift, g_last


# ------------------------------------------------------------------------------------------------ UARTTransmitter
def check_uart(ctx, d):
    C = 'UARTTransmitter'
    tag = 'div=%s' % ('any' if d is None else d)
    K = lambda role: '%s.%s[%s]' % (C, role, tag)
    ir = ctx.ir(C, MOD, **({} if d is None else {'divisor': d}))
    fsm = ctx.the_fsm(ir)
    _set_aliases(ir)
    idle = fsm.init
    TX, RDY, VLD, PAY = 'self.tx', 'self.stream.ready', 'self.stream.valid', 'self.stream.payload'
    pw = ir.signals[ctx.sig(ir, PAY)].w
    ctx.need(pw == 8, 'UART payload is 8 bits wide (found %s)' % pw)
    txd = ir.drivers(TX, exact=True)
    ctx.need(txd, 'drivers of tx')
    data = [a for a in txd if isinstance(a.rhs, E) and a.rhs.sigs()]
    ctx.need(len(data) == 1 and data[0].state is not None,
             'the single tx assignment that shows the shift register (found %s)' % [q.fmt(a) for a in data])
    t = data[0]
    reg = _find_reg(ctx, ir, fsm, PAY)
    send_tx = q.state_of(t)
    vs = Vars()
    rv = vs.vec(reg, ir.signals[reg].w)
    got = _try_forms(t.rhs, vs)
    over = [a for a in txd if a is not t and (a.state is None or a.state == t.state) and a.order > t.order]
    ctx.ob('C49.tx-lsb-first', K('tx@send'), t.domain == 'comb' and not t.guard and got[:1] == rv[:1] and not over, t.loc,
           'in the shifting state tx must unconditionally be bit 0 of the shift register (LSB first), not overridden: '
           'tx <= %s if %s (register: %s); later: %s' % (t.rhs.canon(), _show(norm(t)), reg, [q.fmt(a) for a in over]))
    ti = ir.signals[TX]
    for s in fsm.states:
        if s == send_tx:
            continue
        ds = sorted([a for a in txd if a.state is None or a.state == (fsm.id, s)], key=lambda a: a.order)
        uncond = [a for a in ds if not a.guard]
        if uncond:
            tail = [a for a in ds if a.order >= uncond[-1].order]
            ok = all(q.is_one(a.rhs) for a in tail)
        else:
            ok = ti.init == 1 and all(q.is_one(a.rhs) for a in ds)
        ctx.ob('C49.tx-idles-high', K('tx@' + ('idle' if s == idle else 'non-send:' + s)), ok,
               ds[0].loc if ds else fsm.state_loc[s],
               'outside the shifting state the line must be 1 (mark): tx drivers in state %s: %s, reset value %s' % (
                   s, [q.fmt(a) for a in ds], ti.init))
    ctx.ob('C49.tx-idles-high', K('tx.domain'), all(a.domain == 'comb' for a in txd) or ti.init == 1, ti.loc,
           'a registered tx must reset to 1')

    nbits = pw + 2

    def frame(v):
        return [0] + v.vec(PAY, pw) + [1]

    # the bit-period tick is "baud counter == 0": find the baud counter = the down-counter that is decremented in the
    # shifting state on its own schedule (guard mentions at most itself)
    # (a free-running divider written outside the FSM is written in the shifting state as well)
    decs = [a for a in ir.assigns if (a.state == (fsm.id, send_tx) or (a.state is None and a.domain == fsm.domain))
            and a.lhs.op == 'sig' and _is_dec(a) and a.lhs.canon() != reg]
    names = sorted({a.lhs.canon() for a in decs})
    ctx.need(len(names) == 2, 'two down-counters (baud, bits) in the shifting state (found %s)' % names)
    free = [n for n in names if any(set(norm(a)) <= {_nzkey(ir, n)} for a in decs if a.lhs.canon() == n)]
    if len(free) != 1:
        free = sorted(names, key=lambda n: min(len(a.guard) for a in decs if a.lhs.canon() == n))[:1]
    baud = free[0]
    tick = (_nzkey(ir, baud), False)
    send, bits, sites, g_shift, g_last = serializer(ctx, C, tag, ir, fsm, reg, tick, 1, nbits, frame, PAY, RDY, VLD, 'bit')
    ctx.need(send == send_tx, 'tx shows the register in the state that shifts it')

    # -- baud counter
    want = (d - 1) if d is not None else 'self.divisor - 1'
    bd = ir.drivers(baud, exact=True)
    here = sorted([a for a in bd if a.state == (fsm.id, send) or a.state is None], key=lambda a: a.order)
    bdec = [a for a in here if _is_dec(a)]
    reload_ = [a for a in here if not _is_dec(a)]
    t0 = {_nzkey(ir, baud): False}
    ok_dec = bdec and all(_sub(norm(a), {_nzkey(ir, baud): True}) for a in bdec)
    ctx.ob('C49.baud-step', K('baud.decrement'), ok_dec and all(a.domain == fsm.domain for a in bd), (bdec or here)[0].loc,
           'the baud counter %s must count down by one in every cycle of the shifting state: %s' % (baud, [q.fmt(a) for a in bdec]))
    at0 = [a for a in reload_ if norm(a) == t0]
    ctx.ob('C49.baud-step', K('baud.reload'), len(at0) >= 1 and all(_sub(t0, norm(a)) for a in reload_),
           (reload_ or here)[0].loc, 'the baud counter %s must be reloaded exactly when it is 0 (every bit boundary, whatever '
           'else happens): non-decrement writers %s' % (baud, [q.fmt(a) for a in reload_]))
    eff = effective(ir, fsm, baud, send, t0)
    ctx.ob('C49.baud-step', K('baud.reload-wins'), bool(eff) and all(_val(a.rhs) == want for a in eff),
           (eff or here)[0].loc, 'at a bit boundary (%s == 0) the baud counter must become divisor-1 = %s; under last-wins '
           'the deciding assignments are %s' % (baud, want, [q.fmt(a) for a in eff] or 'none'))
    stray = [a for a in bd if a.state is not None and q.state_of(a) not in (idle, send)]
    ctx.ob('C49.baud-step', K('baud.writers'), not stray, (stray or bd)[0].loc,
           'unexpected writers of the baud counter: %s' % [q.fmt(a) for a in stray])
    for nm, l in sites:
        eff = effective(ir, fsm, baud, q.state_of(l), norm(l))
        ctx.ob('C49.bit-period', K('baud.load@' + nm), bool(eff) and all(_val(a.rhs) == want for a in eff), l.loc,
               'when a frame is loaded the baud counter must become divisor-1 = %s so that the start bit lasts divisor '
               'cycles; deciding assignments: %s' % (want, [q.fmt(a) for a in eff] or 'none (counter keeps a stale value)'))
    bi = ir.signals.get(baud)
    ctx.need(bi is not None, 'declaration of the baud counter')
    if d is not None:
        ctx.need(bi.w is not None, 'width of the baud counter for divisor %s' % d)
        ctx.ob('C49.baud-range', K('baud.width'), (1 << bi.w) > d - 1, bi.loc,
               'baud counter %s (width %d) must hold divisor-1 = %d' % (baud, bi.w, d - 1))
    else:
        rng = bi.rng
        hi = rng[1][1] if rng and rng[0] == 'sym' else (rng[1] if rng else None)
        txt = hi.canon() if isinstance(hi, E) else str(hi)
        ctx.ob('C49.baud-range', K('baud.width'), txt in ('self.divisor', '1 + self.divisor'), bi.loc,
               'baud counter %s must be declared to hold 0..divisor-1 (range bound %s)' % (baud, txt))
    return ir


# ------------------------------------------------------------------------------------------------ multi-byte
def check_multibyte(ctx, bw, d):
    C = 'UARTMultibyteTransmitter'
    tag = 'bytes=%d,div=%s' % (bw, 'any' if d is None else d)
    K = lambda role: '%s.%s[%s]' % (C, role, tag)
    kw = {'byte_width': bw}
    if d is not None:
        kw['divisor'] = d
    ir = ctx.ir(C, MOD, **kw)
    fsm = ctx.the_fsm(ir)
    _set_aliases(ir)
    idle = fsm.init
    subs = [s for s in ir.submodules if s.obj.clsname == 'UARTTransmitter']
    ctx.need(len(subs) == 1, 'the inner UARTTransmitter of %s' % C)
    u = subs[0].name if (subs[0].name + '.tx') in ir.signals else subs[0].obj.path
    ctx.need((u + '.tx') in ir.signals, 'ports of the inner UART (%s.tx)' % u)
    dv = subs[0].obj.kwargs.get('divisor')
    dtxt = _val(dv) if isinstance(dv, E) else dv
    ctx.ob('C49.mb-divisor', K('uart.divisor'), dtxt == (d if d is not None else 'self.divisor'), subs[0].loc,
           'the inner UART must run with the divisor of the wrapper: got %s' % (dtxt,))
    TX, RDY, VLD, PAY = 'self.tx', 'self.stream.ready', 'self.stream.valid', 'self.stream.payload'
    UV, UR, UP = u + '.stream.valid', u + '.stream.ready', u + '.stream.payload'
    pw = ir.signals[ctx.sig(ir, PAY)].w
    ctx.ob('C49.mb-width', K('stream.payload.width'), pw == 8 * bw, ir.signals[PAY].loc,
           'stream payload is %s bits, byte_width %d' % (pw, bw))
    txd = ir.drivers(TX, exact=True)
    ok = len(txd) == 1 and txd[0].domain == 'comb' and not txd[0].guard and txd[0].state is None and \
        isinstance(txd[0].rhs, E) and txd[0].rhs.canon() == u + '.tx'
    ctx.ob('C49.mb-tx-through', K('tx'), ok, txd[0].loc if txd else None,
           'tx must be the inner UART tx at all times: %s' % [q.fmt(a) for a in txd])
    pd = ir.drivers(UP, exact=True)
    ctx.need(len(pd) == 1 and isinstance(pd[0].rhs, E),
             'the single assignment of the inner UART payload (found %s)' % [q.fmt(a) for a in pd])
    p = pd[0]
    reg = _find_reg(ctx, ir, fsm, PAY)
    vs = Vars()
    rv = vs.vec(reg, ir.signals[reg].w)
    got = _try_forms(p.rhs, vs)
    ctx.ob('C49.mb-low-byte-first', K('uart.payload'),
           p.domain == 'comb' and not p.guard and p.state is None and _fit(got, 8) == _fit(rv[0:8], 8) and len(got) >= min(8, len(rv)),
           p.loc, 'the inner UART must always be given bits 0..7 of the word shifter (little-endian byte order): '
           '%s <= %s (word shifter: %s)' % (UP, p.rhs.canon(), reg))

    def word(v):
        return v.vec(PAY, 8 * bw)

    tick = (UR, True)
    send, cnt, sites, g_shift, g_last = serializer(ctx, C, tag, ir, fsm, reg, tick, 8, bw, word, PAY, RDY, VLD, 'byte')
    # uart valid: raised only while sending, and covering every hand-over site
    uv = ir.drivers(UV, exact=True)
    raises = [a for a in uv if not q.is_zero(a.rhs)]
    ctx.need(raises, 'raise site of %s' % UV)
    outside = [a for a in raises if q.state_of(a) != send]
    ctx.ob('C49.mb-valid-window', K('uart.valid.window'), not outside, (outside or raises)[0].loc,
           'the inner UART may be offered a byte only in the sending state (elsewhere the shifter holds stale data): %s'
           % [q.fmt(a) for a in outside])
    for nm, g in (('shift', g_shift), ('last', g_last)):
        cover = [a for a in raises if q.state_of(a) == send and q.is_one(a.rhs) and a.domain == 'comb' and _sub(norm(a), g)
                 and not [c for c in uv if q.is_zero(c.rhs) and c.order > a.order and (c.state is None or c.state == a.state)]]
        ctx.ob('C49.mb-valid-window', K('uart.valid.covers-' + nm), bool(cover), raises[0].loc,
               'whenever the wrapper treats %s as a hand-over (%s) it must be offering the byte (%s = 1): %s' % (
                   UR, _show(g), UV, [q.fmt(a) for a in raises]))
    return ir


def frame_exact(ctx, d):
    """Semantic decision for one concrete divisor: the one-cycle relation of UARTTransmitter (cone of influence of tx and
    stream.ready) is composed with a reference monitor of the line -- the frame {0, b0..b7, 1} of the accepted byte, each
    bit `d` cycles, at most one accepted byte waiting, mark (1) otherwise -- and every reachable product state is explored
    under stream.valid in {0, 1} and ALL 256 payload values.  In every reachable state tx must be what the monitor expects
    (a frame may start late: mark is tolerated in front of a start bit) and no byte may be accepted while another one is
    still waiting to be framed.  Independent of how the frame length is tracked (bit counter, sentinel, ...)."""
    from ..num import Stepper, NoEval
    from ..ir import AnalysisError
    C = 'UARTTransmitter'
    ir = ctx.ir(C, MOD, divisor=d)
    TX, RDY, VLD, PAY = 'self.tx', 'self.stream.ready', 'self.stream.valid', 'self.stream.payload'
    try:
        st = Stepper(ir)
        st.restrict({TX, RDY})
    except AnalysisError as ex:
        ctx.need(False, 'one-cycle semantics of UARTTransmitter (%s)' % ex)
    fkeys = ['$fsm%s' % f.id for f in ir.fsms]
    names = list(st.regs) + fkeys
    regs0 = tuple(st.inits.get(r, 0) for r in st.regs) + tuple(f.init for f in ir.fsms)
    L = 10 * d

    def bit(byte, pos):
        k = pos // d
        return 0 if k == 0 else 1 if k == 9 else (byte >> (k - 1)) & 1
    # monitor: (byte being framed or None, position 0..L-1 of the NEXT line cycle, waiting byte or None)
    start = (regs0, (None, 0, None))
    seen, work, bad, n_eval, accepted = {start}, [start], None, 0, 0

    def step(regs, valid, pay):
        env = dict(zip(names, regs))
        env.update({VLD: valid, PAY: pay})
        return st.step(env)
    while work and bad is None:
        regs, (cur, pos, wait) = work.pop()
        try:
            c0, _ = step(regs, 1, 0)
            c1, _ = step(regs, 1, 255)
            n_eval += 2
            pays = range(256) if (c0.get(RDY) or c1.get(RDY)) else (0,)
            cases = [(0, 0)] + [(1, p_) for p_ in pays]
            for valid, pay in cases:
                envc, nxt = step(regs, valid, pay)
                n_eval += 1
                tx = envc.get(TX, ir.signals[TX].init or 0) & 1
                b, p_, w_ = cur, pos, wait
                if b is None and w_ is not None:
                    b, p_, w_ = w_, 0, None
                if b is None:
                    exp = 1
                elif p_ == 0 and tx == 1:
                    exp = 1                                  # the frame starts a little later: still a well-formed line
                else:
                    exp = bit(b, p_)
                    p_ += 1
                    if p_ == L:
                        b, p_ = None, 0
                if tx != exp and bad is None:
                    bad = 'tx is %d where the line must be %d: %s (registers %s, valid=%d)' % (
                        tx, exp, 'mark between frames' if cur is None and wait is None else
                        'cycle %d of the frame of byte 0x%02x (bit period %d, %d cycles each)' % (pos, cur if cur is not None else wait, pos // d, d),
                        dict(zip(names, regs)), valid)
                    break
                if valid and envc.get(RDY):
                    accepted += 1
                    if w_ is not None and bad is None:
                        bad = 'byte 0x%02x is accepted while byte 0x%02x is still waiting to be framed (registers %s)' % (
                            pay, w_, dict(zip(names, regs)))
                        break
                    w_ = pay
                nx = (tuple(nxt[k] for k in names), (b, p_, w_))
                if nx not in seen:
                    seen.add(nx)
                    work.append(nx)
        except NoEval as ex:
            ctx.need(False, 'UARTTransmitter evaluates under stream.valid / stream.payload alone (%s)' % ex)
    ctx.need(bad is not None or accepted >= 256, 'product exploration of UARTTransmitter accepts bytes')
    txd = ir.drivers(TX, exact=True)
    ctx.ob('C49.frame-exact', '%s.line[div=%d]' % (C, d), bad is None, txd[0].loc if txd else None,
           'the line carries exactly the 8N1 frame of every accepted byte, %d cycles per bit, for all 256 byte values and every '
           'hand-over timing: %s  [%d product states, %d evaluations]' % (d, bad, len(seen), n_eval))
    return bad is None


def words_exact(ctx, bw):
    """Semantic decision for one byte width: the one-cycle relation of UARTMultibyteTransmitter (cone of influence of what it
    offers the inner UART and of stream.ready; the inner UART is its environment: its stream.ready is a free input every
    cycle) is composed with a reference monitor -- the bytes of the accepted word still to be handed over, low byte first, at
    most one further accepted word waiting -- and every reachable product state is explored under stream.valid in {0, 1},
    uart ready in {0, 1} and two words of pairwise distinct bytes.  Whenever a byte is handed over (uart valid & ready) it must
    be the next byte due; nothing may be handed over when no byte is due; no word may be accepted while another one is still
    waiting.  Independent of where the load and the ready decision are written (inside the states or at module level)."""
    from ..num import Stepper, NoEval
    from ..ir import AnalysisError
    C = 'UARTMultibyteTransmitter'
    ir = ctx.ir(C, MOD, byte_width=bw, divisor=4)
    subs = [s_ for s_ in ir.submodules if s_.obj.clsname == 'UARTTransmitter']
    ctx.need(len(subs) == 1, 'the inner UARTTransmitter of %s' % C)
    u = subs[0].name if (subs[0].name + '.tx') in ir.signals else subs[0].obj.path
    RDY, VLD, PAY = 'self.stream.ready', 'self.stream.valid', 'self.stream.payload'
    UV, UR, UP = u + '.stream.valid', u + '.stream.ready', u + '.stream.payload'
    try:
        st = Stepper(ir)
        st.restrict({UV, UP, RDY})
    except AnalysisError as ex:
        ctx.need(False, 'one-cycle semantics of %s (%s)' % (C, ex))
    fkeys = ['$fsm%s' % f.id for f in ir.fsms]
    names = list(st.regs) + fkeys
    regs0 = tuple(st.inits.get(r, 0) for r in st.regs) + tuple(f.init for f in ir.fsms)
    words = [sum((0x11 * (i + 1)) << (8 * i) for i in range(bw)), sum((0xA1 + i) << (8 * i) for i in range(bw))]

    def bytes_of(w):
        return tuple((w >> (8 * i)) & 0xFF for i in range(bw))
    start = (regs0, ((), None))                # monitor: (bytes still due of the word in flight, waiting word or None)
    seen, work, bad, n_eval, handed, accepted = {start}, [start], None, 0, 0, 0
    while work and bad is None:
        regs, (due, wait) = work.pop()
        try:
            for valid in (0, 1):
                for pay in (words if valid else words[:1]):
                    for ur in (0, 1):
                        env = dict(zip(names, regs))
                        env.update({VLD: valid, PAY: pay, UR: ur})
                        envc, nxt = st.step(env)
                        n_eval += 1
                        d_, w_ = due, wait
                        if not d_ and w_ is not None:
                            d_, w_ = bytes_of(w_), None
                        if envc.get(UV) and ur:
                            handed += 1
                            got = envc.get(UP, 0) & 0xFF
                            if not d_:
                                bad = 'byte 0x%02x is handed to the inner UART although no byte of an accepted word is due (registers %s)' % (
                                    got, dict(zip(names, regs)))
                                break
                            if got != d_[0]:
                                bad = 'byte 0x%02x is handed to the inner UART where byte 0x%02x of the accepted word is due (%d byte(s) ' \
                                      'left; registers %s)' % (got, d_[0], len(d_), dict(zip(names, regs)))
                                break
                            d_ = d_[1:]
                        if valid and envc.get(RDY):
                            accepted += 1
                            if w_ is not None:
                                bad = 'a word is accepted while word %#x is still waiting (registers %s)' % (w_, dict(zip(names, regs)))
                                break
                            if d_:
                                bad = 'a word is accepted while %d byte(s) of the previous word are still to be handed over: they are ' \
                                      'overwritten (registers %s, uart ready=%d)' % (len(d_), dict(zip(names, regs)), ur)
                                break
                            w_ = pay
                        nx = (tuple(nxt[k] for k in names), (d_, w_))
                        if nx not in seen:
                            seen.add(nx)
                            work.append(nx)
                    if bad:
                        break
                if bad:
                    break
        except NoEval as ex:
            ctx.need(False, '%s evaluates under stream.valid / stream.payload / uart ready alone (%s)' % (C, ex))
    ctx.need(bad is not None or (accepted >= 4 and handed >= 4 * bw), 'product exploration of %s accepts and hands over words' % C)
    loc = ir.drivers(UP, exact=True)[0].loc if ir.drivers(UP, exact=True) else None
    ctx.ob('C49.words-exact', '%s.hand-over[bytes=%d]' % (C, bw), bad is None, loc,
           'the inner UART is handed exactly the bytes of every accepted word, low byte first, none lost, repeated or overwritten, '
           'for every hand-over timing: %s  [%d product states, %d evaluations]' % (bad, len(seen), n_eval))
    return bad is None


def run(ctx):
    from ..ir import AnalysisError
    sem_ok = all([frame_exact(ctx, d) for d in ((2,) if ctx.tier != 'thorough' else (1, 2, 3))])
    try:
        check_uart(ctx, None)
        for d in (1, 2, 5, 16):
            check_uart(ctx, d)
    except AnalysisError as ex:
        # the frame-length bookkeeping has a shape the structural obligations do not recognise: the semantic decision
        # above stands (violation or not); the symbolic-divisor diagnostics are skipped, not failed
        ctx.note('C49: structural obligations of UARTTransmitter skipped (%s); decided by C49.frame-exact (%s)' % (
            ex, 'held' if sem_ok else 'violated'))
        ctx.floor_override = 40            # the semantic obligations and the multi-byte part remain
    mb_ok = all([words_exact(ctx, bw) for bw in ((1, 2, 4) if ctx.tier != 'thorough' else (1, 2, 3, 4, 5, 8))])
    try:
        check_multibyte(ctx, 4, None)
        check_multibyte(ctx, 1, 4)
        check_multibyte(ctx, 2, 3)
    except AnalysisError as ex:
        # load / ready decisions written in a shape the per-site obligations do not recognise (e.g. at module level): the
        # semantic decision above stands; the per-site diagnostics are skipped, not failed
        ctx.note('C49: per-site obligations of UARTMultibyteTransmitter skipped (%s); decided by C49.words-exact (%s)' % (
            ex, 'held' if mb_ok else 'violated'))
        ctx.floor_override = 40
    if ctx.tier == 'thorough':
        for d in (3, 4, 7, 10, 104, 217, 868, 5208, 65536):
            check_uart(ctx, d)
        try:
            for bw in (1, 2, 3, 4, 5, 8, 16):
                for d in (None, 1, 10):
                    if (bw, d) not in ((4, None),):
                        check_multibyte(ctx, bw, d)
        except AnalysisError as ex:
            ctx.note('C49: per-site obligations of UARTMultibyteTransmitter skipped (%s); decided by C49.words-exact' % ex)
            ctx.floor_override = 40
