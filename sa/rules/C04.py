"""C04 -- USB2 handshakes are generated and detected exactly."""
from ..ir import E
from .. import q
from ..fsm import must_exit, state_outcomes, reaches

TITLE = 'USB2 handshakes'
FLOOR = 18
DECIDES = ('Generator: each request loads a PID byte that folds to pid | (~pid << 4) with pid = ACK 0010 / NAK 1010 / STALL '
           '1110; requests are consulted and tx.data is written only in idle, idle keeps tx.valid low, the transmit state '
           'holds tx.valid and leaves only on tx.ready back to idle. Detector: packet-end discipline in every state; the four '
           'strobes are written at one site each, only at packet end (~rx_active) in the state entered directly by the PID '
           'edge (check nibble = complement), comparing the captured PID with ACK 0010 / NAK 1010 / STALL 1110 / NYET 0110; '
           'a second byte in that state leads to a non-reporting state; strobes default to 0. ')
NOT_DECIDED = 'which requester wins when several handshakes are requested in the same cycle (statement order).'
RXA, RXV = 'self.utmi.rx_active', 'self.utmi.rx_valid'
PIDCHK = 'self.utmi.rx_data[0:4] == ~self.utmi.rx_data[4:8]'


def run(ctx):
    g = ctx.ir('USBHandshakeGenerator', 'usb2.packet')
    fsm = ctx.the_fsm(g)
    idle = fsm.init
    want = {'self.issue_ack': 0x2, 'self.issue_nak': 0xA, 'self.issue_stall': 0xE}
    loads = g.drivers('self.tx.data', exact=True)
    for req, pid in want.items():
        byte = (pid | ((~pid & 0xF) << 4))
        # the byte loaded when THIS request alone is raised (last firing assignment in the idle state wins) -- three separate
        # Ifs, an If/Elif chain or one assignment from a Mux of constants make no difference
        from ..fsm import lit_atoms, assignments, holds
        here = sorted([a for a in loads if a.state is None or q.state_of(a) == idle], key=lambda a: a.order)
        ats = sorted({x for a in here for l in a.guard for x in lit_atoms(l)} | set(want))
        ok = bool(here) and all(q.state_of(a) == idle for a in loads)
        ds = []
        if ok:
            for asg in assignments(ats, dict({r: (r == req) for r in want})):
                fire = [a for a in here if holds(a.guard, asg)]
                ds = fire[-1:] or ds
                ok = ok and bool(fire) and fire[-1].rhs.op == 'const' and fire[-1].rhs.val == byte
        ctx.ob('C04.pid-byte', 'USBHandshakeGenerator.' + req.split('.')[-1], ok, ds[0].loc if ds else None,
               '%s must load the byte %#04x (PID %s with complemented check nibble): %s' % (req, byte, bin(pid), [q.fmt(a) for a in ds]))
        o = state_outcomes(fsm, idle, {r: (r == req) for r in want})
        ctx.ob('C04.request-sends', 'USBHandshakeGenerator.%s.go' % req.split('.')[-1], len(o) == 1 and None not in o and idle not in o, fsm.state_loc[idle],
               'a request in idle must start a transmission: %s' % sorted(map(str, o)))
    ctx.ob('C04.data-only-in-idle', 'USBHandshakeGenerator.tx.data', all(q.state_of(a) == idle for a in loads) and len(loads) == 3, None,
           'the PID byte may only be written in idle (it must stay stable while it is offered to the PHY)')
    none = state_outcomes(fsm, idle, {r: False for r in want})
    ctx.ob('C04.request-sends', 'USBHandshakeGenerator.idle-holds', set(none) == {None}, fsm.state_loc[idle], 'no request, no packet')
    tx = [s for s in fsm.states if s != idle]
    ctx.need(len(tx) == 1, 'one transmit state')
    T = tx[0]
    v = g.drivers('self.tx.valid', exact=True)
    vals = q.flag_states(g, fsm, 'self.tx.valid')          # written in the states or as fsm.ongoing(...) outside: one answer
    ctx.ob('C04.valid', 'USBHandshakeGenerator.tx.valid', bool(v) and vals == {s_: (s_ == T) for s_ in fsm.states}, v[0].loc if v else None,
           'tx.valid low in idle, high while transmitting: %s' % vals)
    hold = state_outcomes(fsm, T, {'self.tx.ready': False})
    go = state_outcomes(fsm, T, {'self.tx.ready': True})
    ctx.ob('C04.held-until-ready', 'USBHandshakeGenerator.transmit', set(hold) == {None} and set(go) == {idle}, fsm.state_loc[T],
           'the byte is held until the PHY accepts it, then exactly one byte was sent: hold=%s go=%s' % (sorted(map(str, hold)), sorted(map(str, go))))
    used = [x for x in list(fsm.edges) + g.assigns if x.state and x.state[1] == T and (set(want) & {a for a, _ in q.atoms(x)})]
    ctx.ob('C04.data-only-in-idle', 'USBHandshakeGenerator.requests-only-in-idle', not used, None, 'requests are consulted only in idle')

    # ---- detector
    d = ctx.ir('USBHandshakeDetector', 'usb2.packet')
    f = ctx.the_fsm(d)
    init = f.init
    strobes = {'ack': 0x2, 'nak': 0xA, 'stall': 0xE, 'nyet': 0x6}
    sites = {}
    for nm in strobes:
        ds = q.raises(d, 'self.detected.' + nm)
        ctx.need(len(ds) == 1, 'single write site of detected.' + nm)
        sites[nm] = ds[0]
    R = {q.state_of(a) for a in sites.values()}
    ctx.need(len(R) == 1 and None not in R, 'one reporting state')
    R = R.pop()
    for s in f.states:
        if s == init:
            continue
        ok, cex = must_exit(f, s, {RXA: False}, targets={init})
        ctx.ob('C04.packet-end', 'USBHandshakeDetector.%s' % ('report-state' if s == R else 'state#%d' % f.states.index(s)), ok, f.state_loc[s],
               'state %s must return to idle when the packet ends: %s' % (s, cex))
    for e in f.in_edges(init):
        ctx.ob('C04.idle-only-at-packet-end', 'USBHandshakeDetector.state#%d->init' % f.states.index(e.src), (RXA, False) in q.atoms(e), e.loc,
               'returning to idle while the packet is still in progress lets its remaining bytes be parsed as a new packet: %s' % q.fmt(e))
    ins = f.in_edges(R)
    ok = len(ins) == 1 and q.has(ins[0], PIDCHK) and q.has(ins[0], RXV) and ins[0].src in {e.dst for e in f.out_edges(init)}
    ctx.ob('C04.pid-check', 'USBHandshakeDetector.pid-edge', ok, ins[0].loc if ins else None,
           'the reporting state is entered directly by the first byte, only with a valid check nibble: %s' % [q.fmt(e) for e in ins])
    cap = [a for a in d.assigns if ins and a.state == ins[0].state and q.atoms(a) == q.atoms(ins[0])]
    ok = len(cap) == 1 and cap[0].rhs.canon() == 'self.utmi.rx_data' and cap[0].lhs.w == 4
    ctx.ob('C04.pid-check', 'USBHandshakeDetector.pid-capture', ok, cap[0].loc if cap else None, 'the PID nibble is captured on that edge')
    reg = cap[0].lhs.canon() if cap else 'active_pid'
    for nm, pid in strobes.items():
        a = sites[nm]
        ok = q.atoms(a) == {(RXA, False), ('%d == %s' % (pid, reg), True)} and q.is_one(a.rhs)
        ctx.ob('C04.strobe', 'USBHandshakeDetector.' + nm, ok, a.loc, 'detected.%s = (PID == %s) at packet end only: %s' % (nm, bin(pid), q.fmt(a)))
        dflt = [x for x in q.clears(d, 'self.detected.' + nm) if not x.guard and x.state is None and x.order < a.order]
        ctx.ob('C04.strobe-default', 'USBHandshakeDetector.%s.default' % nm, len(dflt) == 1, a.loc, 'strobe defaults to 0 each cycle')
    o = state_outcomes(f, R, {RXA: True, RXV: True})
    bad = [x for x in o if x is None or x == R or (x != init and reaches(f, x, R, avoid={init}))]
    ctx.ob('C04.one-byte-only', 'USBHandshakeDetector.extra-byte', not bad, f.state_loc[R], 'a second byte means this is not a handshake: %s' % sorted(map(str, o)))
