"""C36 -- header and data packets are transmitted with correct framing and CRCs."""
import itertools
from ..ir import E, AnalysisError, _is_bool
from .. import q, gf2

TITLE = 'header / data packet transmission framing'
FLOOR = 100
DECIDES = ('On RawPacketTransmitter, by evaluating the extracted guarded assignments (last assignment wins, slices '
           'overlaid, data path as GF(2)-affine forms so the comparison is for every data value and independent of how '
           'the words are written down) under every valuation of the control inputs of each state: (a) the state chain '
           'idle -> HPSTART -> DW0..DW2 -> DW3 -> [SDP -> payload -> last word -> CRC -> END] exists, every edge is taken '
           'exactly when source.ready accepts the word (idle: on generate), DW3 continues with a payload exactly for the '
           'DATA type, a delayed data header goes to the abort state; (b) the word driven in each state: SHP SHP SHP EPF, '
           'the three latched header words in order, DW3 = CRC16 | sequence | reserved | hub depth | DL | DF | CRC5 of '
           'bits 16..26 of that very word (USB 3.2 layout), SDP SDP SDP EPF, the pipeline register, EDB EDB EDB EPF, with '
           'ctrl and valid; nothing is driven valid in idle; the header is latched when leaving idle and written nowhere '
           'else; (c) trailing bytes: for every byte-valid mask 1111/0111/0011/0001 the three words last/CRC/END carry '
           'exactly payload bytes, CRC32 bytes 0..3 immediately after the last payload byte, END END END EPF immediately '
           'after the CRC, ctrl bits exactly on the four framing symbols; a zero-length payload goes from SDP directly to '
           'the CRC with a mask value that yields CRC + END END END EPF; (d) a word is taken from data_sink (ready) '
           'exactly when it is loaded into the pipeline register together with its mask, only in the SDP and payload '
           'states, in the payload state exactly when the previous word is accepted; the CRC32 unit sees data_sink.data, '
           'advances by the number of valid bytes exactly on accepted words, is cleared before and never inside a '
           'payload; the CRC16 unit sees the words DW0..DW2 exactly once each and is cleared before DW0 only; (e) reader '
           'agreement: both link-layer receivers detect the transmitted HPSTART word, read the DW3 fields from the bit '
           'ranges written here, DataPacketReceiver detects the transmitted SDP word and its trailing-CRC reassembly '
           'applied to the transmitted last/CRC words yields the CRC32 for each mask; (f) PacketTransmitter wires the '
           'stream and data_sink of its RawPacketTransmitter through unchanged; (g) composition across cycles, by an exhaustive '
           'fixpoint (no runs on chosen stimuli): all reachable states of FSM state x every small control register (mask, '
           'zero-length flag, latched header type / delayed) x "pipeline register holds the pending word" x abstract content '
           'of the CRC16 unit (number of header words absorbed since clear) and of the CRC32 unit (clean / exactly the words '
           'taken / other) x a reference monitor of the packet format, under all inputs of every cycle (source.ready, generate, '
           'header type and delayed flag, data_sink mask class and last). In every reachable transition the word transferred '
           'is the one the format requires next (HPSTART, DW0..DW3, SDP, EDB, payload word, last word with mask m, CRC word, '
           'END word; data symbolic), nothing else is transferred, each word accepted from data_sink is forwarded exactly '
           'once and in order (0/1 pending-word invariant), only payload words of the current packet are accepted, the CRC16 '
           'holds exactly DW0..DW2 when DW3 is sent and the CRC32 exactly the accepted words when its bytes are sent, and '
           'idle is re-entered only after the last word: hence for all payload lengths and all ready patterns. ')
NOT_DECIDED = ('value-level CRC equations (C30), the receiver state machines beyond the agreement points (C37, C40), credit / '
               'retry scheduling of PacketTransmitter and the done strobe it relies on (C39), behaviour for byte-valid masks other than 1111/0111/0011/0001 '
               'and for a data_sink that stops offering data in the middle of a packet or changes the offered word before it is '
               'accepted (environment assumption of the product: stream protocol); that a started packet eventually finishes '
               'is decided only per state (every state leaves on source.ready), not as a liveness property.')

SP, SC, SV, SR = 'self.source.payload', 'self.source.ctrl', 'self.source.valid', 'self.source.ready'
DP, DV, DL, DR = 'self.data_sink.payload', 'self.data_sink.valid', 'self.data_sink.last', 'self.data_sink.ready'
GEN = 'self.generate'
RP, RC, RV = 'self.sink.payload', 'self.sink.ctrl', 'self.sink.valid'
# USB 3.2 table 6-1 (K-symbols used by the link layer framing)
SHP, SDP, END, EDB, EPF = 0xFB, 0x5C, 0xFD, 0x7C, 0xF7
DATA_TYPE = 0b01000            # USB 3.2 table 8-2 header packet types (5 bits)
OTHER_TYPES = (0b00000, 0b00100, 0b01100)
MASKS = (15, 7, 3, 1)
# DW3 of a header packet, USB 3.2 figure 8-4 / 7.2.1.1.3
DW3_FIELDS = (('sequence_number', 16, 19), ('dw3_reserved', 19, 22), ('hub_depth', 22, 25), ('delayed', 25, 26),
              ('deferred', 26, 27))
CLS = 'RawPacketTransmitter'


# ------------------------------------------------------------------------------------------ concrete evaluation
def _width(e):
    if not isinstance(e, E):
        return None
    if e.w is not None:
        return e.w
    if e.op == 'const' and isinstance(e.val, int) and e.val >= 0:
        return max(e.val.bit_length(), 1)
    if e.op in ('==', '!=', '<', '<=', '>', '>='):
        return 1
    return None


def cev(e, env):
    """Integer value of an expression under env (signal name -> int); None when not determined."""
    if isinstance(e, bool):
        return int(e)
    if isinstance(e, int):
        return e
    if not isinstance(e, E):
        return None
    op = e.op
    if op == 'const':
        return e.val if isinstance(e.val, int) else None
    if op == 'sig':
        return env.get(e.args[0].name)
    if op == 'slice':
        v, lo, hi = cev(e.args[0], env), e.args[1], e.args[2]
        if v is None or not isinstance(lo, int) or not isinstance(hi, int):
            return None
        return (v >> lo) & ((1 << (hi - lo)) - 1)
    if op == 'cat':
        out = sh = 0
        for a in e.args:
            v, w = cev(a, env), _width(a)
            if v is None or w is None:
                return None
            out |= (v & ((1 << w) - 1)) << sh
            sh += w
        return out
    if op == 'call':
        fn = e.args[0]
        vals = [cev(a, env) for a in e.args[1:]]
        if not vals or vals[0] is None:
            return None
        if fn in ('any', 'bool'):
            return int(vals[0] != 0)
        if fn == 'all':
            w = _width(e.args[1])
            return None if w is None else int(vals[0] == (1 << w) - 1)
        if fn == 'matches':
            hit = False
            for a, v in zip(e.args[2:], vals[1:]):
                if isinstance(a, E) and a.op == 'const' and isinstance(a.val, str):
                    pat = a.val.replace(' ', '').replace('_', '')
                    hit |= all(c == '-' or int(c) == ((vals[0] >> (len(pat) - 1 - i)) & 1) for i, c in enumerate(pat))
                elif v is None:
                    return None
                else:
                    hit |= (v == vals[0])
            return int(hit)
        return None
    a = [cev(x, env) for x in e.args]
    if op == '~':
        w = _width(e.args[0])
        if w is None and _is_bool(e.args[0]):
            w = 1
        if a[0] is None or w is None:
            return None
        return ~a[0] & ((1 << w) - 1)
    if op == 'rev':
        w = _width(e.args[0])
        if a[0] is None or w is None:
            return None
        return sum(((a[0] >> i) & 1) << (w - 1 - i) for i in range(w))
    if op == '&':
        if any(v == 0 for v in a if v is not None):
            return 0
        if None in a:
            return None
        r = a[0]
        for v in a[1:]:
            r &= v
        return r
    if op == '|':
        if _is_bool(e) and any(v for v in a if v is not None):
            return 1
        if None in a:
            return None
        r = 0
        for v in a:
            r |= v
        return r
    if None in a or not a:
        return None
    if op == '^':
        r = 0
        for v in a:
            r ^= v
        return r
    if op == 'mux':
        return a[1] if a[0] else a[2]
    if len(a) == 2:
        x, y = a
        if op == '==':
            return int(x == y)
        if op == '!=':
            return int(x != y)
        if op == '<':
            return int(x < y)
        if op == '<=':
            return int(x <= y)
        if op == '>':
            return int(x > y)
        if op == '>=':
            return int(x >= y)
        if op in ('+', '-', '*'):
            r = x + y if op == '+' else x - y if op == '-' else x * y
            if e.w is not None:
                return r & ((1 << e.w) - 1)
            return r if r >= 0 else None
    return None


def cbits(v, n):
    return [(v >> i) & 1 for i in range(n)]


def as_int(fs):
    """Integer value of a list of forms when they are all constants, else None."""
    if any(f not in (0, 1) for f in fs):
        return None
    return sum(f << i for i, f in enumerate(fs))


def popcount(v):
    return bin(v).count('1')


def bdiff(vs, got, want):
    """'is X, must be Y' for two differing bytes of forms (constants in hex, otherwise the first differing bit)."""
    if as_int(got) is not None and as_int(want) is not None:
        return 'is %#04x, must be %#04x' % (as_int(got), as_int(want))
    i = [j for j in range(len(want)) if j >= len(got) or got[j] != want[j]][0]
    return 'bit %d is %s, must be %s' % (i, vs.describe(got[i])[:60] if i < len(got) else '-', vs.describe(want[i])[:60])


class Model:
    """Evaluation of one extracted module: guards concretely, data as affine forms."""

    def __init__(self, ir, fsm, vs):
        self.ir, self.fsm, self.vs = ir, fsm, vs
        self._drv = {}

    def drivers(self, name):
        if name not in self._drv:
            self._drv[name] = sorted(self.ir.drivers(name, exact=True), key=lambda a: a.order)
        return self._drv[name]

    def width(self, name):
        si = self.ir.signals.get(name)
        if si is None or si.w is None:
            raise AnalysisError('width of %s.%s not known' % (self.ir.clsname, name))
        return si.w

    def holds(self, item, env):
        res = True
        for l in item.guard:
            if l.kind == 'cfg':
                raise AnalysisError('configuration-dependent guard in %s: %s' % (self.ir.clsname, q.fmt(item)))
            v = cev(l.e, env)
            if v is None:
                res = None
            elif bool(v) != l.pos:
                return False
        if res is None:
            raise AnalysisError('guard not decidable under %s: %s' % (sorted(env.items()), q.fmt(item)))
        return True

    def in_state(self, a, state):
        return a.state is None or a.state == (self.fsm.id, state)

    def comb_drivers(self, name, state):
        ds = self.drivers(name)
        if any(a.domain != 'comb' for a in ds):
            raise AnalysisError('%s of %s is expected to be combinational' % (name, self.ir.clsname))
        return [a for a in ds if self.in_state(a, state)]

    def target(self, a, name, w):
        l = a.lhs
        if l.op == 'sig' and l.args[0].name == name:
            return 0, w
        if l.op == 'slice' and isinstance(l.args[0], E) and l.args[0].op == 'sig' and l.args[0].args[0].name == name and \
                isinstance(l.args[1], int) and isinstance(l.args[2], int):
            return l.args[1], min(l.args[2], w)
        raise AnalysisError('assignment target not understood: %s' % q.fmt(a))

    def cdrive(self, name, state, env):
        """(value, winning driver) of a combinational signal in `state` under env (undriven: 0)."""
        w = self.width(name)
        val, win = 0, None
        for a in self.comb_drivers(name, state):
            if not self.holds(a, env):
                continue
            lo, hi = self.target(a, name, w)
            v = cev(a.rhs, env)
            if v is None:
                raise AnalysisError('value not decidable under %s: %s' % (sorted(env.items()), q.fmt(a)))
            m = (1 << (hi - lo)) - 1
            val = (val & ~(m << lo)) | ((v & m) << lo)
            win = a
        return val, win

    def fdrive(self, name, state, env, subst=None):
        """(affine forms, winning driver) of a combinational data signal in `state` under env."""
        w = self.width(name)
        cur, win = [0] * w, None
        for a in self.comb_drivers(name, state):
            if not self.holds(a, env):
                continue
            lo, hi = self.target(a, name, w)
            f = gf2.forms(a.rhs, self.vs, subst=subst)
            cur[lo:hi] = (list(f) + [0] * (hi - lo))[:hi - lo]
            win = a
        return cur, win

    def word(self, state, env, subst=None):
        """(payload forms, ctrl, valid, winning payload driver) of the source stream in `state`; a word that is partly
        computed from itself (the CRC5 of DW3) is resolved by substitution."""
        base = dict(subst or {})
        loop = self.vs.vec('$self-reference', self.width(SP))
        cur, win = self.fdrive(SP, state, env, dict(base, **{SP: loop}))
        for _ in range(4):
            nxt, win = self.fdrive(SP, state, env, dict(base, **{SP: cur}))
            if nxt == cur:
                break
            cur = nxt
        mask = 0
        for b in loop:
            mask |= b
        if any(f & mask for f in cur):
            raise AnalysisError('source.payload depends combinationally on itself in state %s' % state)
        return cur, self.cdrive(SC, state, env)[0], self.cdrive(SV, state, env)[0], win

    def load(self, name, state, env):
        """The registered assignment to `name` that takes effect in `state` under env (None: holds its value)."""
        win = None
        for a in self.drivers(name):
            if a.domain == 'comb':
                raise AnalysisError('%s is expected to be a register' % name)
            if self.in_state(a, state) and self.holds(a, env):
                win = a
        return win

    def nxt(self, state, env):
        dst = None
        for e in sorted(self.fsm.out_edges(state), key=lambda e: e.order):
            if self.holds(e, env):
                dst = e.dst
        return dst

    def guard_sigs(self, state):
        out = set()
        for it in self.fsm.out_edges(state) + [a for a in self.ir.assigns if a.state == (self.fsm.id, state)]:
            for l in it.guard:
                if not isinstance(l.e, E):
                    raise AnalysisError('guard not understood: %s' % q.fmt(it))
                out |= l.e.sigs()
        return out

    def envs(self, state, cands, always=()):
        """Every valuation of the signals read by the guards of `state`: 1-bit signals both ways, wider ones over the
        candidate values given."""
        sigs = sorted(self.guard_sigs(state) | set(always))
        doms = []
        for s in sigs:
            if s in cands:
                doms.append(list(cands[s]))
            elif self.width(s) == 1:
                doms.append([0, 1])
            else:
                raise AnalysisError('state %s of %s is controlled by %s; do not know which values to enumerate' % (
                    state, self.ir.clsname, s))
        for vals in itertools.product(*doms):
            yield dict(zip(sigs, vals))


def show(env):
    def short(k):
        return k[5:] if k.startswith(('self.source.', 'self.data_sink.', 'self.generate')) else k
    return ', '.join('%s=%s' % (short(k), v if v < 16 else hex(v)) for k, v in sorted(env.items()))


# ------------------------------------------------------------------------------------------ the rule
def run(ctx):
    ir = ctx.ir(CLS, 'usb3.link.transmitter')
    fsm = ctx.the_fsm(ir)
    vs = gf2.Vars()
    M = Model(ir, fsm, vs)
    for s in (SP, SC, SV, SR, DP, DV, DL, DR, GEN):
        ctx.sig(ir, s)
    ctx.need(M.width(SP) == 32 and M.width(SC) == 4 and M.width(DP) == 32 and M.width(DV) == 4, 'stream widths 32/4')

    # ---- roles of the internal registers and submodules (from what they are connected to, not from their names)
    def sub(clsname):
        c = [s.obj.path for s in ir.submodules if s.obj.clsname == clsname]      # signals are named after the object
        ctx.need(len(c) == 1, 'one %s submodule in %s' % (clsname, CLS))
        return c[0]
    c16, c32 = sub('HeaderPacketCRC'), sub('DataPacketPayloadCRC')
    C16, C32 = c16 + '.crc', c32 + '.crc'
    ctx.need(M.width(C16) == 16 and M.width(C32) == 32, 'CRC output widths')
    regs = [a for a in ir.assigns if a.domain != 'comb']
    lat = [a for a in regs if isinstance(a.rhs, E) and a.rhs.canon() == 'self.header']
    ctx.need(lat and all(a.lhs.op == 'sig' for a in lat) and len({a.lhs.canon() for a in lat}) == 1,
             'the register that latches self.header')
    LH = lat[0].lhs.canon()
    LDEL, LDW0 = LH + '.delayed', LH + '.dw0'

    def loaded_from(src):
        names = sorted({t for a in regs if isinstance(a.rhs, E) and a.rhs.canon() == src for t in a.lhs_sigs()})
        ctx.need(len(names) == 1, 'exactly one register loaded from %s (found %s)' % (src, names))
        return names[0]
    PW, PM = loaded_from(DP), loaded_from(DV)
    ctx.need(M.width(PW) == 32 and M.width(PM) == 4, 'pipeline register widths')

    # ---- roles of the states (from the graph)
    def dsts(s):
        return {e.dst for e in fsm.out_edges(s)}

    def only(s, what):
        d = dsts(s)
        ctx.need(len(d) == 1, 'the single successor of the %s state (found %s)' % (what, sorted(map(str, d))))
        return next(iter(d))
    idle = fsm.init
    hp = only(idle, 'idle')
    dw0 = only(hp, 'HPSTART')
    dw1 = only(dw0, 'DW0')
    dw2 = only(dw1, 'DW1')
    dw3 = only(dw2, 'DW2')
    d3 = dsts(dw3) - {idle}
    ctx.need(idle in dsts(dw3) and len(d3) == 1, 'DW3 state continues either to idle or to the payload start')
    sdp = next(iter(d3))
    # the payload states are found in the whole graph, not among the successors of the payload start state: an edge of
    # that state that was retargeted must show up as a wrong outcome below, not as a vanished anchor
    head = [idle, hp, dw0, dw1, dw2, dw3, sdp]
    rest = [s for s in fsm.states if s not in head]
    cr = [s for s in rest if len(dsts(s)) == 1 and dsts(next(iter(dsts(s)))) == {idle} and next(iter(dsts(s))) != idle]
    ctx.need(len(cr) == 1, 'CRC state (its only successor is the state that returns to idle): %s' % cr)
    crc = cr[0]
    fin = only(crc, 'CRC')
    ab = [s for s in rest if dsts(s) == {idle} and s != fin]
    la = [s for s in rest if dsts(s) == {crc}]
    ctx.need(len(ab) == 1 and len(la) == 1, 'abort state %s and last-word state %s' % (ab, la))
    abort, last = ab[0], la[0]
    pl = [s for s in rest if s not in (abort, crc, fin, last) and last in dsts(s)]
    ctx.need(len(pl) == 1, 'payload state (the other state that continues to the last-word state): %s' % pl)
    pay = pl[0]
    names = {idle: 'idle', hp: 'hpstart', dw0: 'dw0', dw1: 'dw1', dw2: 'dw2', dw3: 'dw3', sdp: 'sdp', pay: 'payload',
             last: 'last-word', crc: 'crc', fin: 'end', abort: 'abort'}
    ctx.need(len(names) == 12 and set(names) == set(fsm.states), 'the twelve transmitter states (found %s)' % fsm.states)
    hdr_types = [t | hi for t in (DATA_TYPE,) + OTHER_TYPES for hi in (0, 0xFFFFFFE0)]
    cands = {PM: list(MASKS), LDW0: hdr_types, 'self.header.dw0': hdr_types, DV: [0, 1, 3, 7, 15]}
    if ctx.tier == 'thorough':
        cands[PM] = list(range(16))

    def envs(s):
        # the inputs a state is specified over are always enumerated, read or not (a guard that stopped reading one shows up
        # as a wrong outcome, not as an analysis error)
        extra = {dw3: (LDW0,), sdp: (LDEL, DL), pay: (DL,), idle: (GEN,)}.get(s, ())
        return list(M.envs(s, cands, always=(SR,) + extra))

    def loc(s):
        return fsm.state_loc.get(s)

    def key(s, what):
        return '%s.%s.%s' % (CLS, names[s], what)

    # ---- (a) chain: every word is held until accepted, then exactly the next word follows
    def advance(s, want):
        bad = None
        for env in envs(s):
            n = M.nxt(s, env)
            exp = want(env) if env[SR] else None
            if n != exp and bad is None:
                bad = 'under %s it %s, must %s' % (show(env), 'goes to ' + names.get(n, str(n)) if n else 'stays',
                                                   'go to ' + names.get(exp, str(exp)) if exp else 'stay')
        ctx.ob('C36.chain', key(s, 'advance'), bad is None, loc(s),
               'state %s must keep its word until source.ready and then continue with the next word: %s' % (s, bad))
    bad = None
    for env in envs(idle):
        n = M.nxt(idle, env)
        if n != (hp if env.get(GEN) else None) and bad is None:
            bad = 'under %s the next state is %s' % (show(env), n)
    ctx.ob('C36.chain', key(idle, 'start'), bad is None, loc(idle),
           'idle must start a packet exactly on generate: %s' % bad)
    for s, n in ((hp, dw0), (dw0, dw1), (dw1, dw2), (dw2, dw3), (last, crc), (crc, fin), (fin, idle), (abort, idle)):
        advance(s, lambda env, n=n: n)
    advance(dw3, lambda env: sdp if (env[LDW0] & 0x1F) == DATA_TYPE else idle)
    advance(pay, lambda env: last if env.get(DL) else None)

    # ---- (b) the words
    def const_word(s, syms, what):
        want = sum(v << (8 * i) for i, v in enumerate(syms))
        bad = None
        win = None
        for env in envs(s):
            if not env[SR]:
                continue
            w, c, v, win = M.word(s, env)
            if (as_int(w), c, v) != (want, 15, 1) and bad is None:
                bad = 'under %s data=%s ctrl=%s valid=%s' % (show(env), '%#010x' % as_int(w) if as_int(w) is not None else
                                                             'not constant', bin(c), v)
        ctx.ob('C36.word', key(s, 'word'), bad is None, win.loc if win else loc(s),
               'state %s must drive %s (data %#010x, ctrl 1111, valid): %s' % (s, what, want, bad))
        return want
    hp_word = const_word(hp, (SHP, SHP, SHP, EPF), 'SHP SHP SHP EPF')
    sdp_word = const_word(sdp, (SDP, SDP, SDP, EPF), 'SDP SDP SDP EPF')
    const_word(abort, (EDB, EDB, EDB, EPF), 'EDB EDB EDB EPF')

    def data_word(s, want, what):
        bad = None
        win = None
        for env in envs(s):
            if not env[SR]:
                continue
            w, c, v, win = M.word(s, env)
            if w != want and bad is None:
                i = [j for j in range(32) if w[j] != want[j]][0]
                bad = 'under %s bit %d is %s, must be %s' % (show(env), i, vs.describe(w[i])[:80], vs.describe(want[i])[:80])
            if (c, v) != (0, 1) and bad is None:
                bad = 'under %s ctrl=%s valid=%s, must be 0000 / 1' % (show(env), bin(c), v)
        ctx.ob('C36.word', key(s, 'word'), bad is None, win.loc if win else loc(s), 'state %s must drive %s with ctrl 0000: %s' % (
            s, what, bad))
    for i, s in enumerate((dw0, dw1, dw2)):
        data_word(s, vs.vec('%s.dw%d' % (LH, i), 32), 'the latched header word %d' % i)
    data_word(pay, vs.vec(PW, 32), 'the pipelined payload word')
    bad = None
    for env in envs(idle):
        if M.cdrive(SV, idle, env)[0] and bad is None:
            bad = show(env)
    ctx.ob('C36.word', key(idle, 'silent'), bad is None, loc(idle), 'nothing may be driven valid between packets: %s' % bad)
    # DW3, field by field
    dw3_want = [0] * 32
    dw3_want[0:16] = vs.vec(C16, 16)
    for f, lo, hi in DW3_FIELDS:
        dw3_want[lo:hi] = vs.vec('%s.%s' % (LH, f), hi - lo)
    got = {}
    for env in envs(dw3):
        if env[SR]:
            w, c, v, win = M.word(dw3, env)
            got.setdefault((tuple(w), c, v), env)
    ctx.ob('C36.dw3', key(dw3, 'uniform'), len(got) == 1, loc(dw3), 'DW3 must not depend on control inputs: %d variants' % len(got))
    (w, c, v), env = sorted(got.items(), key=lambda kv: show(kv[1]))[0]
    w = list(w)
    ctx.ob('C36.dw3', key(dw3, 'ctrl-valid'), (c, v) == (0, 1), loc(dw3), 'DW3 is a data word: ctrl=%s valid=%s' % (bin(c), v))
    ctx.ob('C36.dw3', key(dw3, 'crc16'), w[0:16] == dw3_want[0:16], loc(dw3),
           'bits 0..15 of DW3 must be the header CRC16 output: bit 0 is %s' % vs.describe(w[0])[:80])
    for f, lo, hi in DW3_FIELDS:
        ok = w[lo:hi] == dw3_want[lo:hi] or (f == 'dw3_reserved' and w[lo:hi] == [0] * (hi - lo))
        ctx.ob('C36.dw3', key(dw3, f), ok, loc(dw3), 'bits %d..%d of DW3 must be the latched header.%s: bit %d is %s' % (
            lo, hi - 1, f, lo, vs.describe(w[lo])[:80]))
    crc5 = gf2.crc_field(gf2.serial_crc_step([1] * 5, w[16:27], 0x05, 5))
    ctx.ob('C36.dw3', key(dw3, 'crc5'), w[27:32] == crc5, loc(dw3),
           'bits 27..31 of DW3 must be the CRC5 of bits 16..26 of the word as transmitted')
    # the header is latched when leaving idle, and only in idle
    hdrv = ir.drivers(LH, exact=False)
    bad = None
    for env in envs(idle):
        if M.nxt(idle, env) == hp and not any(a.state == (fsm.id, idle) and M.holds(a, env) for a in lat) and bad is None:
            bad = 'not captured under ' + show(env)
    ok = bad is None and all(a.state == (fsm.id, idle) and a.domain != 'comb' for a in hdrv)
    ctx.ob('C36.header-latch', CLS + '.header-latch', ok, lat[0].loc,
           'the header must be captured when a packet starts and must not change while it is sent: %s; writers %s' % (
               bad, [q.fmt(a)[:120] for a in hdrv]))

    # ---- (d) data_sink hand-over (before (c): the zero-length path is found here)
    def from_sink(a, src):
        if a is None:
            return False
        if src == DP:
            return gf2.forms(a.rhs, vs) == vs.vec(DP, 32)
        return all(cev(a.rhs, {DV: v}) == v for v in range(16))

    def quiet(s, env, word=True, mask=True):
        return M.cdrive(DR, s, env)[0] == 0 and not (word and M.load(PW, s, env)) and not (mask and M.load(PM, s, env))
    # no word may be taken outside the payload phase (it would be lost); the mask must be stable from the last word to the
    # END framing, the pipeline word while it is being sent
    for s, word, mask in ((idle, 0, 0), (hp, 0, 0), (dw0, 0, 0), (dw1, 0, 0), (dw2, 0, 0), (dw3, 0, 0), (last, 1, 1),
                          (crc, 0, 1), (fin, 0, 1)):
        bad = None
        for env in envs(s):
            if not quiet(s, env, word, mask) and bad is None:
                bad = show(env)
        ctx.ob('C36.sink-accept', key(s, 'no-accept'), bad is None, loc(s),
               'state %s must not accept a data_sink word%s (%s)' % (s, ' nor touch the pipeline registers' if mask else '', bad))
    bad = None
    for env in envs(pay):
        taken = M.cdrive(DR, pay, env)[0] == 1 and from_sink(M.load(PW, pay, env), DP) and from_sink(M.load(PM, pay, env), DV)
        if not (taken if env[SR] else quiet(pay, env, mask=False)) and bad is None:
            bad = show(env)
    ctx.ob('C36.sink-accept', key(pay, 'accept'), bad is None, loc(pay),
           'in the payload state a new word (data and mask) is taken exactly when the previous one is accepted: %s' % bad)
    bad = babort = None
    zlp_envs, data_envs, zlp_mask = [], [], set()
    for env in envs(sdp):
        n = M.nxt(sdp, env)
        if not env[SR]:
            if not (n is None and quiet(sdp, env, False, False)) and bad is None:
                bad = 'must wait: ' + show(env)
            continue
        if env[LDEL]:
            if n != abort and babort is None:
                babort = 'under %s the next state is %s' % (show(env), names.get(n, n))
            continue
        lw, lm, dr = M.load(PW, sdp, env), M.load(PM, sdp, env), M.cdrive(DR, sdp, env)[0]
        if n == crc and dr == 0 and lm is not None and cev(lm.rhs, env) is not None:
            zlp_envs.append(env)
            zlp_mask.add(cev(lm.rhs, env))
        elif n == (last if env.get(DL) else pay) and dr == 1 and from_sink(lw, DP) and from_sink(lm, DV):
            data_envs.append(env)
        elif bad is None:
            bad = 'under %s: next=%s data_sink.ready=%s word-load=%s mask-load=%s' % (
                show(env), names.get(n, n), dr, lw is not None, lm is not None)
    ctx.ob('C36.abort', key(sdp, 'abort-on-delayed'), babort is None, loc(sdp),
           'a delayed (retransmitted) data header must be followed by the EDB abort framing: %s' % babort)
    ctx.ob('C36.sink-accept', key(sdp, 'dispatch'), bad is None and zlp_envs and data_envs, loc(sdp),
           'after SDP either (zero length) go to the CRC with a fixed mask and without taking data, or take the first word '
           'and mask and go to the last-word state iff it is the last one: %s (zero-length cases %d, data cases %d)' % (
               bad, len(zlp_envs), len(data_envs)))
    # the zero-length decision is a flag captured with the header: data_sink.valid == 0
    flags = [s for s in sorted(M.guard_sigs(sdp)) if s not in (SR, LDEL, DL) and
             all((e in zlp_envs) == bool(e[s]) for e in zlp_envs + data_envs)]
    flags = [s for s in flags if any(a.domain != 'comb' for a in ir.drivers(s, exact=True))]
    ctx.need(len(flags) == 1, 'the zero-length flag register (candidates %s)' % flags)
    ZF = flags[0]
    bad = None
    zl = None
    for env in envs(dw3):
        zl = M.load(ZF, dw3, env)
        if M.nxt(dw3, env) == sdp:
            if zl is None or any(cev(zl.rhs, dict(env, **{DV: v})) != int(v == 0) for v in range(16)):
                bad = show(env)
    others = [a for a in ir.drivers(ZF, exact=True) if a.state is None or a.state == (fsm.id, sdp)]
    ctx.ob('C36.zlp', CLS + '.zero-length-flag', bad is None and not others, zl.loc if zl else loc(dw3),
           'the zero-length flag must be data_sink.valid == 0 captured when the data header has been sent, and stable after: %s %s' % (
               bad, [q.fmt(a)[:100] for a in others]))

    # ---- (c) trailing bytes
    D, C = vs.vec(PW, 32), vs.vec(C32, 32)
    frame = [(END, 1), (END, 1), (END, 1), (EPF, 1)]

    def tail_ok(states, mask, pre_bytes, tag):
        """The words of `states` under pipeline mask `mask` must be pre_bytes ++ CRC32 ++ END END END EPF ++ padding."""
        exp = [(f, 0) for f in pre_bytes] + [(C[8 * i:8 * i + 8], 0) for i in range(4)] + [(cbits(v, 8), c) for v, c in frame]
        for i, s in enumerate(states):
            bad = None
            win = None
            n = 0
            for env in M.envs(s, dict(cands, **{PM: [mask]}), always=(SR, PM)):
                if not env[SR]:
                    continue
                n += 1
                w, c, v, win = M.word(s, env)
                if v != 1 and bad is None:
                    bad = 'valid=0 under ' + show(env)
                for j in range(4):
                    k = 4 * i + j
                    want, wc = exp[k] if k < len(exp) else (None, 0)
                    if ((c >> j) & 1) != wc and bad is None:
                        bad = 'ctrl bit %d is %d, must be %d' % (j, (c >> j) & 1, wc)
                    if want is not None and w[8 * j:8 * j + 8] != want and bad is None:
                        bad = 'byte %d %s' % (j, bdiff(vs, w[8 * j:8 * j + 8], want))
            ctx.need(n > 0, 'evaluations of state %s' % s)
            ctx.ob('C36.trailing', '%s.%s.tail[%s]' % (CLS, names[s], tag), bad is None, win.loc if win else loc(s),
                   'with %s the %s word must continue the sequence payload, CRC32 bytes 0..3, END END END EPF, idle: %s' % (
                       tag, names[s], bad))
    for m in MASKS:
        k = popcount(m)
        tail_ok((last, crc, fin), m, [D[8 * i:8 * i + 8] for i in range(k)], 'mask=%s' % format(m, '04b'))
    ctx.ob('C36.zlp', CLS + '.zero-length-mask', len(zlp_mask) == 1, loc(sdp), 'zero-length path loads one mask value: %s' % zlp_mask)
    for m in sorted(zlp_mask)[:1]:
        tail_ok((crc, fin), m, [], 'zero-length')

    # ---- (d) CRC units
    def always(name, states, val, pred=lambda env: True):
        for s in states:
            for env in envs(s):
                if pred(env) and M.cdrive(name, s, env)[0] != val:
                    return '%s in state %s under %s' % (name, s, show(env))
        return None
    body = (sdp, pay, last, crc, fin)
    pre = [s for s in (idle, hp, dw0, dw1, dw2, dw3) if always(c32 + '.clear', (s,), 1) is None]
    bad = always(c32 + '.clear', body, 0)
    ctx.ob('C36.crc32-feed', CLS + '.crc32.clear', bool(pre) and bad is None, None,
           'the CRC32 must be cleared (unconditionally, in a state) before each payload and never inside one: cleared in %s; %s' % (
               pre, bad))
    for s in (sdp, pay):
        bad = None
        for env in envs(s):
            if M.cdrive(DR, s, env)[0] and M.fdrive(c32 + '.data_input', s, env)[0] != vs.vec(DP, 32):
                bad = show(env)
        ctx.ob('C36.crc32-feed', key(s, 'crc32.data_input'), bad is None, loc(s),
               'the CRC32 unit must see data_sink.data when a word is accepted (%s)' % bad)
    for port, m in (('advance_word', 15), ('advance_3B', 7), ('advance_2B', 3), ('advance_1B', 1)):
        bad = None
        name = '%s.%s' % (c32, port)
        ctx.sig(ir, name)
        for s in body:
            for v in range(16):
                for r in ((0, 1) if s in (sdp, pay) else (0,)):
                    for env in envs(s):
                        got_ = M.cdrive(name, s, dict(env, **{DV: v, DR: r}))[0]
                        if got_ != int(r and v == m) and bad is None:
                            bad = 'state %s, data_sink.valid=%s ready=%d: %d' % (s, format(v, '04b'), r, got_)
        d = ir.drivers(name, exact=True)
        ctx.ob('C36.crc32-feed', '%s.crc32.%s' % (CLS, port), bad is None, d[0].loc if d else None,
               '%s must be (data_sink.valid == %s) & data_sink.ready: %s' % (port, format(m, '04b'), bad))
    pre16 = [s for s in (idle, hp) if always(c16 + '.clear', (s,), 1) is None]
    bad = always(c16 + '.clear', (dw0, dw1, dw2, dw3), 0)
    ctx.ob('C36.crc16-feed', CLS + '.crc16.clear', bool(pre16) and bad is None, None,
           'the CRC16 must be cleared before DW0 and not while the header is sent: cleared in %s; %s' % (pre16, bad))
    for s in (idle, hp):
        if s not in pre16:
            bad = always(c16 + '.advance_crc', (s,), 0)
            ctx.ob('C36.crc16-feed', key(s, 'crc16.advance'), bad is None, loc(s), 'CRC16 must not advance before DW0: %s' % bad)
    for s in (dw0, dw1, dw2):
        bad = None
        for env in envs(s):
            if M.cdrive(c16 + '.advance_crc', s, env)[0] != env[SR]:
                bad = show(env)
            if env[SR]:
                w = M.word(s, env)[0]
                if M.fdrive(c16 + '.data_input', s, env, {SP: w})[0] != w:
                    bad = 'data_input is not the word sent, ' + show(env)
        ctx.ob('C36.crc16-feed', key(s, 'crc16.advance'), bad is None, loc(s),
               'the CRC16 must absorb the header word exactly when it is accepted: %s' % bad)
    bad = always(c16 + '.advance_crc', (dw3,), 0, lambda env: not env[SR])
    ctx.ob('C36.crc16-feed', key(dw3, 'crc16.hold'), bad is None, loc(dw3), 'the CRC16 must hold while DW3 waits: %s' % bad)

    # ---- (e) reader agreement
    readers(ctx, vs, M, hp_word, sdp_word, last, crc, PW, PM, C, cands)
    # ---- (f) wiring in PacketTransmitter
    wiring(ctx)
    # ---- (g) composition across cycles: exhaustive product with the reference monitor
    failed = any(not o.ok for o in ctx.obs)
    try:
        product(ctx, M, dict(idle=idle, LH=LH, PW=PW, PM=PM, c16=c16, c32=c32, names=names))
    except AnalysisError as ex:
        if not failed:
            raise
        ctx.ob('C36.product', CLS + '.product', False, None, 'the product with the reference monitor could not be built: %s' % ex)


# ------------------------------------------------------------------------------------------ readers
def readers(ctx, vs, M, hp_word, sdp_word, last, crc, PW, PM, C, cands):
    def sink_lits(item, env, what, rcls):
        """All literals of the guard that read only the sink stream must hold under env; payload and ctrl are both read."""
        seen = set()
        ok = True
        for l in item.guard:
            sg = l.e.sigs() if isinstance(l.e, E) else set()
            if sg and sg <= {RP, RC, RV}:
                seen |= sg
                v = cev(l.e, env)
                if v is None:
                    raise AnalysisError('%s %s detection not understood: %s' % (rcls, what, l.canon()))
                ok &= bool(v) == l.pos
        return ok and {RP, RC} <= seen
    for rcls, mod in (('RawHeaderPacketReceiver', 'usb3.link.receiver'), ('DataPacketReceiver', 'usb3.link.data')):
        rir = ctx.ir(rcls, mod)
        rf = ctx.the_fsm(rir)
        start = rf.out_edges(rf.init)
        ctx.need(start, rcls + ' start-of-header edge')
        env = {RP: hp_word, RC: 15, RV: 1}
        ctx.ob('C36.reader', rcls + '.hpstart', all(sink_lits(e, env, 'HPSTART', rcls) for e in start), start[0].loc,
               '%s must start on the HPSTART word the transmitter sends (data %#010x ctrl 1111)' % (rcls, hp_word))
        rv = gf2.Vars()
        for f, lo, hi in DW3_FIELDS + (('crc16', 0, 16), ('crc5', 27, 32)):
            ds = [a for a in rir.assigns if a.domain != 'comb' and a.state is not None and isinstance(a.rhs, E) and
                  a.rhs.sigs() == {RP} and a.lhs.canon().endswith('.' + f) and not a.lhs.canon().startswith('self.')]
            ctx.need(len(ds) == 1, '%s capture of DW3 field %s' % (rcls, f))
            ok = gf2.forms(ds[0].rhs, rv) == rv.vec(RP, 32)[lo:hi]
            ctx.ob('C36.reader', '%s.dw3.%s' % (rcls, f), ok, ds[0].loc,
                   '%s must read %s from bits %d..%d of DW3, where the transmitter puts it (reads %s)' % (
                       rcls, f, lo, hi - 1, ds[0].rhs.canon()[:60]))
    # data packet receiver: SDP detection and trailing-CRC reassembly
    rir = ctx.ir('DataPacketReceiver', 'usb3.link.data')
    rf = ctx.the_fsm(rir)
    acc = [e for e in rf.edges if any(a.lhs.canon() == 'self.new_header' and q.atoms(a) == q.atoms(e)
                                      for a in rir.assigns if a.state == e.state)]
    ctx.need(len(acc) == 1, 'DataPacketReceiver accepted-header edge')
    ctx.ob('C36.reader', 'DataPacketReceiver.sdp', sink_lits(acc[0], {RP: sdp_word, RC: 15, RV: 1}, 'SDP', 'DataPacketReceiver'),
           acc[0].loc, 'DataPacketReceiver must accept the payload start word the transmitter sends (data %#010x)' % sdp_word)
    good = q.raises(rir, 'self.packet_good')
    ctx.need(len(good) == 1, 'packet_good site')
    cmpl = [l.e for l in q.raise_lits(good[0]) if l.pos and isinstance(l.e, E) and l.e.op == '==' and
            any(x.canon() == 'crc32.crc' or x.canon().endswith('.crc') for x in l.e.args)]
    ctx.need(len(cmpl) == 1, 'CRC32 comparison of DataPacketReceiver')
    chk = [x for x in cmpl[0].args if not x.canon().endswith('.crc')]
    ctx.need(len(chk) == 1 and chk[0].op == 'sig', 'the reassembled CRC word')
    X = chk[0].canon()
    xd = rir.drivers(X, exact=True)
    msig = sorted({s for a in xd for l in a.guard if isinstance(l.e, E) for s in l.e.sigs()})
    wsig = sorted({s for a in xd if isinstance(a.rhs, E) for s in a.rhs.sigs()} - {RP})
    ctx.need(len(msig) == 1 and len(wsig) == 1 and xd, 'previous-valid / previous-word registers of DataPacketReceiver')
    RM = Model(rir, rf, vs)
    st = q.state_of(good[0])
    for m in MASKS:
        tag = 'mask=%s' % format(m, '04b')
        words = []
        for s in (last, crc):
            got = {tuple(M.word(s, env)[0]) for env in M.envs(s, dict(cands, **{PM: [m]}), always=(SR, PM)) if env[SR]}
            words.append(list(sorted(got)[0]) if len(got) == 1 else None)
        if None in words:
            ctx.ob('C36.reader', 'DataPacketReceiver.crc-reassembly[%s]' % tag, False, xd[0].loc, 'transmitted words are not unique')
            continue
        got, win = RM.fdrive(X, st, {msig[0]: m}, {wsig[0]: words[0], RP: words[1]})
        ctx.ob('C36.reader', 'DataPacketReceiver.crc-reassembly[%s]' % tag, got == C, win.loc if win else xd[0].loc,
               'with %d valid bytes in the last word the receiver must reassemble exactly the four CRC32 bytes the '
               'transmitter spreads over its last and CRC words; %s' % (
                   popcount(m), '; '.join('byte %d %s' % (j, bdiff(vs, got[8 * j:8 * j + 8], C[8 * j:8 * j + 8]))
                                          for j in range(4) if got[8 * j:8 * j + 8] != C[8 * j:8 * j + 8])))
    pw = rir.drivers(wsig[0], exact=True)
    ok = bool(pw)
    for a in pw:
        c = a.rhs.canon()
        srcs = [d for d in rir.drivers(c, exact=True) if d.state == a.state] if c != RP else []
        ok &= c == RP or (len(srcs) == 1 and not srcs[0].guard and srcs[0].rhs.canon() == RP)
    ctx.ob('C36.reader', 'DataPacketReceiver.previous-word', ok, pw[0].loc if pw else None,
           'the previous-word register must hold the received word')


# ------------------------------------------------------------------------------------------ wiring
def wiring(ctx):
    pir = ctx.ir('PacketTransmitter', 'usb3.link.transmitter')
    sub = [s.obj.path for s in pir.submodules if s.obj.clsname == CLS]
    ctx.need(len(sub) == 1, 'PacketTransmitter has one RawPacketTransmitter')
    t = sub[0]
    pairs = [('self.source.payload', t + '.source.payload'), ('self.source.ctrl', t + '.source.ctrl'),
             ('self.source.valid', t + '.source.valid'), (t + '.source.ready', 'self.source.ready'),
             (t + '.data_sink.payload', 'self.data_sink.payload'), (t + '.data_sink.valid', 'self.data_sink.valid'),
             (t + '.data_sink.last', 'self.data_sink.last'), ('self.data_sink.ready', t + '.data_sink.ready')]
    for lhs, rhs in pairs:
        ds = pir.drivers(lhs, exact=True)
        ok = len(ds) == 1 and ds[0].domain == 'comb' and not ds[0].guard and ds[0].state is None and \
            isinstance(ds[0].rhs, E) and ds[0].rhs.canon() == rhs
        ctx.ob('C36.wiring', 'PacketTransmitter.' + lhs.replace(t + '.', 'raw.'), ok, ds[0].loc if ds else None,
               '%s must be connected to %s unconditionally (found %s)' % (lhs, rhs, [q.fmt(a)[:100] for a in ds]))


# ------------------------------------------------------------------------------------------ product with the reference monitor
JUNK, CUR = 0, 1          # what the pipeline word register holds: anything / the word taken from data_sink and not yet forwarded


def product(ctx, M, r):
    """Exhaustive fixpoint over ALL reachable states of
         FSM state x every small control register (mask, zero-length flag, latched type / delayed, ...) x
         "pipeline register holds the pending word" x abstract content of the two CRC units x reference monitor
       under ALL inputs of every cycle (source.ready, generate, header type / delayed, data_sink valid-mask class and last).
       The monitor is the specification: it knows which symbol word must be transferred next (HPSTART, DW0..DW3, SDP, EDB,
       payload word, last word with mask m, CRC word, END word), keeps the 0/1 "a word was taken from data_sink and not yet
       forwarded" bit, and the CRC units are abstracted to "absorbed exactly the words transferred / taken so far".  Data
       words stay symbolic (affine forms), so one abstract transition stands for all data values; the induction over the
       fixpoint covers all payload lengths and all ready patterns.
       Environment assumption (stream protocol): a non-empty payload keeps offering words until the one marked last has been
       taken; words before the last one are full (mask 1111), the last one has mask 1111/0111/0011/0001."""
    ir, fsm, vs = M.ir, M.fsm, M.vs
    idle, LH, PW, PM, c16, c32, names = (r[k] for k in ('idle', 'LH', 'PW', 'PM', 'c16', 'c32', 'names'))
    LDW0, LDEL, HDW0, HDEL = LH + '.dw0', LH + '.delayed', 'self.header.dw0', 'self.header.delayed'
    creg = sorted({t for a in ir.assigns if a.domain != 'comb' for t in a.lhs_sigs()
                   if t != PW and t != LH and not t.startswith(LH + '.')})
    types = [DATA_TYPE, OTHER_TYPES[1]]
    if ctx.tier == 'thorough':
        types = [DATA_TYPE] + list(OTHER_TYPES)          # (bits above the type field: see C36.chain dw3.advance)
    D, JV, C = vs.vec('$pending-word', 32), vs.vec('$stale', 32), vs.vec(c32 + '.crc', 32)
    SINK = vs.vec(DP, 32)
    dws = [vs.vec('%s.dw%d' % (LH, k), 32) for k in range(3)]
    dw3 = [0] * 32
    dw3[0:16] = vs.vec(c16 + '.crc', 16)
    for f, lo, hi in DW3_FIELDS:
        dw3[lo:hi] = vs.vec('%s.%s' % (LH, f), hi - lo)
    dw3[27:32] = gf2.crc_field(gf2.serial_crc_step([1] * 5, dw3[16:27], 0x05, 5))

    def const4(*syms):
        return [(cbits(v, 8), 1) for v in syms]

    def data4(w):
        return [(w[8 * j:8 * j + 8], 0) for j in range(4)]

    def tail(k):
        """The byte sequence after k payload bytes of the last word: CRC32, END END END EPF, idle (ctrl 0, data free)."""
        seq = [(D[8 * j:8 * j + 8], 0) for j in range(k)] + data4(C) + const4(END, END, END, EPF)
        return seq + [(None, 0)] * (12 - len(seq))
    readsig = {}
    control = set(creg) | {DR, SV, SC, LH, LDW0, LDEL, c16 + '.clear', c16 + '.advance_crc', c32 + '.clear'} | {
        '%s.advance_%s' % (c32, x) for x in ('word', '3B', '2B', '1B')}

    def reads(s):
        """Signals read by the guards and right-hand sides that are live in FSM state s."""
        if s not in readsig:
            out = set()
            for it in fsm.out_edges(s) + [a for a in ir.assigns if M.in_state(a, s)]:
                for l in it.guard:
                    if isinstance(l.e, E):
                        out |= l.e.sigs()
                if getattr(it, 'kind', '') == 'assign' and isinstance(it.rhs, E) and set(it.lhs_sigs()) & control:
                    out |= it.rhs.sigs()
            readsig[s] = out
        return readsig[s]
    driven = {t for a in ir.assigns for t in a.lhs_sigs()}
    cache = {}

    def cycle(s, regs, tag, inp):
        """Everything the design does in one cycle, from the extracted assignments (memoised)."""
        k = (s, regs, tag, inp)
        if k in cache:
            return cache[k]
        env = dict(zip(creg, regs[2:]))
        env.update({LDW0: regs[0], LDEL: regs[1]})
        env.update(inp)
        env[DR] = M.cdrive(DR, s, env)[0]
        w, c, v, _ = M.word(s, env, {PW: D if tag == CUR else JV})
        o = {'dr': env[DR], 'xfer': bool(v and env[SR]), 'word': w, 'ctrl': c, 'nxt': M.nxt(s, env)}
        o['clr16'] = M.cdrive(c16 + '.clear', s, env)[0]
        o['adv16'] = M.cdrive(c16 + '.advance_crc', s, env)[0]
        o['in16'] = M.fdrive(c16 + '.data_input', s, env, {SP: w, PW: D if tag == CUR else JV})[0] == w
        o['clr32'] = M.cdrive(c32 + '.clear', s, env)[0]
        o['adv32'] = [nb for port, nb in (('advance_word', 4), ('advance_3B', 3), ('advance_2B', 2), ('advance_1B', 1))
                      if M.cdrive('%s.%s' % (c32, port), s, env)[0]]
        o['in32'] = M.fdrive(c32 + '.data_input', s, env)[0] == SINK
        new = list(regs)
        for a in sorted(ir.drivers(LH, exact=False), key=lambda a: a.order):
            if a.domain != 'comb' and M.in_state(a, s) and M.holds(a, env):
                t = a.lhs.canon()
                if t == LH and a.rhs.canon() == 'self.header':
                    new[0], new[1] = env[HDW0], env[HDEL]
                elif t in (LDW0, LDEL):
                    val = cev(a.rhs, env)
                    if val is None:
                        raise AnalysisError('latched header control field not decidable: %s' % q.fmt(a))
                    new[0 if t == LDW0 else 1] = val
        for i, n in enumerate(creg):
            a = M.load(n, s, env)
            if a is not None:
                val = cev(a.rhs, env)
                if val is None:
                    raise AnalysisError('register value not decidable: %s' % q.fmt(a))
                new[2 + i] = val & ((1 << M.width(n)) - 1)
        o['regs'] = tuple(new)
        a = M.load(PW, s, env)
        o['pw'] = None if a is None else ('sink' if gf2.forms(a.rhs, vs, subst={PW: D if tag == CUR else JV}) == SINK else 'other')
        cache[k] = o
        return o

    # ---- inputs of one cycle: everything the design reads in that state plus what the monitor observes
    def inputs(s, mon):
        ph, isdata, dly, zl, pend, pmask, plast, ended, any_ = mon
        rd = reads(s)
        doms = [(SR, [0, 1])]
        if s == idle or GEN in rd:
            doms.append((GEN, [0, 1]))
        if s == idle or HDW0 in rd or HDEL in rd or 'self.header' in rd:
            doms += [(HDW0, types), (HDEL, [0, 1])]
        for x in sorted(rd):
            if x in driven or x in (SR, GEN, DV, DL, DR, HDW0, HDEL, 'self.header') or x.startswith(LH + '.'):
                continue
            if x.startswith('self.header.'):
                continue                      # other live header fields: data, not control
            if M.width(x) != 1:
                raise AnalysisError('state %s is controlled by the wide input %s; do not know which values to enumerate' % (s, x))
            doms.append((x, [0, 1]))
        owes = ph in ('sdp', 'body') and isdata and not dly and not zl and not ended
        sink = [(15, 0)] + [(m, 1) for m in MASKS] if owes else [(v, l) for v in (0,) + MASKS for l in (0, 1)]
        if not owes and DL not in rd and not any(M.in_state(a, s) for a in M.drivers(DR)):
            sink = sorted({(v, 0) for v, l in sink})           # `last` is observed by nobody in this state
        keys = [k for k, _ in doms]
        for vals in itertools.product(*[d for _, d in doms]):
            for v, l in sink:
                yield tuple(zip(keys + [DV, DL], list(vals) + [v, l]))

    # ---- the monitor
    IDLE_MON = ('idle', 0, 0, 0, 0, 0, 0, 0, 0)
    cats = ['order.hpstart', 'order.dw0', 'order.dw1', 'order.dw2', 'order.dw3', 'order.sdp', 'order.edb', 'order.payload-word'] + \
           ['order.last-word[mask=%s]' % format(m, '04b') for m in MASKS] + \
           ['order.crc-word[%s]' % t for t in ['mask=%s' % format(m, '04b') for m in MASKS] + ['zero-length']] + \
           ['order.end-word[%s]' % t for t in ['mask=%s' % format(m, '04b') for m in MASKS] + ['zero-length']]
    other = ['nothing-spurious', 'no-word-lost', 'packet-complete', 'crc16-content', 'crc32-content']
    seen = dict.fromkeys(cats + other, 0)
    viol = {}

    def check_word(cat, o, exp):
        """exp: four (byte forms or None, ctrl bit)."""
        seen[cat] += 1
        for j, (want, wc) in enumerate(exp):
            if (o['ctrl'] >> j) & 1 != wc:
                return cat, 'ctrl bit %d is %d, must be %d' % (j, (o['ctrl'] >> j) & 1, wc)
            if want is not None and o['word'][8 * j:8 * j + 8] != want:
                return cat, 'byte %d %s' % (j, bdiff(vs, o['word'][8 * j:8 * j + 8], want))
        return None

    def step(state, inp):
        """One transition of the product; returns (next state or None, violation or None)."""
        s, regs, tag, n16, st32, mon = state
        ph, isdata, dly, zl, pend, pmask, plast, ended, any_ = mon
        env = dict(inp)
        o = cycle(s, regs, tag, inp)
        bad = None
        # a packet starts when generate is seen in idle
        if s == idle and ph == 'idle' and env.get(GEN):
            ph, isdata, dly = 'hp', int((env[HDW0] & 0x1F) == DATA_TYPE), env[HDEL]
            started = True
        else:
            started = False
        xfer16 = False
        crc_used = False
        if o['xfer'] and not started:
            if ph in ('hp', 'dw0', 'dw1', 'dw2', 'dw3', 'sdp', 'edb'):
                exp = {'hp': const4(SHP, SHP, SHP, EPF), 'dw0': data4(dws[0]), 'dw1': data4(dws[1]), 'dw2': data4(dws[2]),
                       'dw3': data4(dw3), 'sdp': const4(SDP, SDP, SDP, EPF), 'edb': const4(EDB, EDB, EDB, EPF)}[ph]
                bad = check_word('order.' + {'hp': 'hpstart'}.get(ph, ph), o, exp)
                if ph in ('dw0', 'dw1', 'dw2'):
                    xfer16 = True
                if ph == 'dw3':
                    seen['crc16-content'] += 1
                    if n16 != 3 and bad is None:
                        bad = ('crc16-content', 'when DW3 is sent the CRC16 unit holds %s instead of exactly DW0, DW1, DW2' % (
                            'something else' if n16 == 'dirty' else '%d header word(s)' % n16))
                    zl = int(env[DV] == 0)
                nph = {'hp': 'dw0', 'dw0': 'dw1', 'dw1': 'dw2', 'dw2': 'dw3', 'dw3': 'sdp' if isdata else 'idle',
                       'sdp': 'edb' if dly else ('crc' if zl else 'body'), 'edb': 'idle'}[ph]
                ph = nph
            elif ph == 'body' and pend and not plast:
                bad = check_word('order.payload-word', o, data4(D))
                pend = 0
            elif ph == 'body' and pend and plast:
                bad = check_word('order.last-word[mask=%s]' % format(pmask, '04b'), o, tail(popcount(pmask))[0:4])
                crc_used = pmask != 15
                pend, ph = 0, 'crc'
            elif ph == 'crc':
                t = 'zero-length' if zl else 'mask=%s' % format(pmask, '04b')
                bad = check_word('order.crc-word[%s]' % t, o, tail(0)[0:4] if zl else tail(popcount(pmask))[4:8])
                crc_used = True
                ph = 'end'
            elif ph == 'end':
                t = 'zero-length' if zl else 'mask=%s' % format(pmask, '04b')
                bad = check_word('order.end-word[%s]' % t, o, tail(0)[4:8] if zl else tail(popcount(pmask))[8:12])
                ph = 'idle'
            else:
                bad = ('nothing-spurious', 'a word is driven valid and accepted while %s' % (
                    'no packet is being sent' if ph == 'idle' else 'no payload word is pending'))
        elif o['xfer'] and started:
            bad = ('nothing-spurious', 'a word is driven valid in the cycle that starts the packet')
        seen['nothing-spurious'] += 1
        if crc_used:
            seen['crc32-content'] += 1
            if not (st32 == 'sync' if any_ else st32 == 'clean') and bad is None:
                bad = ('crc32-content', 'CRC32 bytes are sent while the CRC32 unit %s' % (
                    'was not cleared since the previous packet' if not any_ else 'has not absorbed exactly the words taken'))
        # words taken from data_sink
        take = bool(o['dr'] and env[DV])
        seen['no-word-lost'] += 1
        if take:
            if not (ph == 'body' and isdata and not ended):
                if bad is None:
                    bad = ('no-word-lost', 'a data_sink word is accepted %s' % (
                        'after the last word of the payload' if ended else 'while no payload is being sent (it is lost)'))
            elif pend:
                if bad is None:
                    bad = ('no-word-lost', 'a data_sink word is accepted while the previous one has not been forwarded')
            pend, pmask, plast = 1, env[DV], env[DL]
            ended = int(env[DL])
        # pipeline register
        ntag = tag if o['pw'] is None else (CUR if (o['pw'] == 'sink' and take) else JUNK)
        if take and o['pw'] is None:
            ntag = JUNK
        if not pend:
            ntag = JUNK
        # CRC16 content: number of header words absorbed
        if o['clr16']:
            n16 = 0
        elif o['adv16']:
            n16 = n16 + 1 if (xfer16 and n16 != 'dirty' and 'dw%d' % n16 == mon[0] and o['in16']) else 'dirty'
        # CRC32 content: clean / exactly the words taken / anything else
        if o['clr32']:
            st32 = 'dirty' if (any_ or take) else 'clean'
        elif o['adv32'] or take:
            good = take and o['adv32'] == [popcount(env[DV])] and o['in32'] and (st32 == 'sync' if any_ else st32 == 'clean')
            st32 = 'sync' if good else 'dirty'
        if take:
            any_ = 1
        if ph == 'idle':
            isdata = dly = zl = pend = pmask = plast = ended = any_ = 0
        if not pend:
            plast = 0
            if ph not in ('crc', 'end') or zl:
                pmask = 0
        nxt = o['nxt'] if o['nxt'] is not None else s
        seen['packet-complete'] += 1
        if nxt == idle and s != idle and ph != 'idle' and bad is None:
            bad = ('packet-complete', 'the transmitter returns to idle while the monitor still expects the %s word' % ph)
        if bad is not None:
            return None, bad
        return (nxt, o['regs'], ntag, n16, st32, (ph, isdata, dly, zl, pend, pmask, plast, ended, any_)), None

    init_regs = (0, 0) + tuple((ir.signals[n].init or 0) if n in ir.signals else 0 for n in creg)
    start = (idle, init_regs, JUNK, 0, 'clean', IDLE_MON)
    parent = {start: None}
    work = [start]
    ntrans = 0
    while work:
        st = work.pop()
        if len(parent) > 200000:
            raise AnalysisError('product state space larger than expected (%d states)' % len(parent))
        for inp in inputs(st[0], st[5]):
            ntrans += 1
            nx, bad = step(st, inp)
            if bad is not None:
                if bad[0] not in viol:
                    path = []
                    x = st
                    while x is not None and len(path) < 8:
                        path.append(names.get(x[0], x[0]))
                        x = parent[x][0] if parent[x] else None
                    viol[bad[0]] = '%s; in state %s under %s (reached via %s)' % (
                        bad[1], st[0], show(dict(inp)), ' <- '.join(path))
                continue
            if nx not in parent:
                parent[nx] = (st, inp)
                work.append(nx)
    ctx.note('product fixpoint: %d abstract states, %d transitions, %d distinct one-cycle evaluations' % (
        len(parent), ntrans, len(cache)))
    what = {'nothing-spurious': 'no word may be transferred on source except the next word of the packet',
            'no-word-lost': 'every word accepted from data_sink must be forwarded exactly once, in order, and only payload '
                            'words of the current packet may be accepted',
            'packet-complete': 'the transmitter may return to idle only after the last word of the packet',
            'crc16-content': 'when DW3 is sent the CRC16 unit must have absorbed exactly DW0, DW1, DW2 since it was cleared',
            'crc32-content': 'when CRC32 bytes are sent the CRC32 unit must have absorbed exactly the words taken from '
                             'data_sink, with their byte counts, since it was cleared'}
    # exploration stops behind a violating transition, so what lies behind it is not reported a second time as "never
    # reached"; without any violation every kind of word must have been reached (the fixpoint must not be vacuous)
    for cat in cats:
        ctx.ob('C36.product', '%s.%s' % (CLS, cat), cat not in viol and (seen[cat] > 0 or bool(viol)), fsm.loc,
               'for every reachable state and every input the %s transferred must be the one the packet format requires '
               'next: %s' % (cat.split('.', 1)[1], viol.get(cat, 'never reached in the product' if not seen[cat] else None)))
    for cat in other:
        ctx.ob('C36.product', '%s.%s' % (CLS, cat), cat not in viol and (seen[cat] > 0 or bool(viol)), fsm.loc,
               '%s: %s' % (what[cat], viol.get(cat)))
