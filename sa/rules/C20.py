"""C20 -- everything the USB2 device transmits is a well-formed, solicited packet."""
from ..ir import E, Obj
from .. import q
from ..fsm import reachable
from ..hdl import as_expr

TITLE = 'solicited, single-source transmissions'
FLOOR = 25
DECIDES = ('(a) single source: in USBDevice the UTMI transmit lines have exactly one driver each, the output of the one-hot transmit '
           'multiplexer, whose inputs are exactly the reset sequencer (chirp), the data packet generator and the handshake '
           'generator; the multiplexer ORs valid, selects data by the valid one-hot and passes ready back; the data generator is '
           'fed from the endpoint multiplexer, the handshake generator from its ORed requests; (b) the reset sequencer raises '
           'tx.valid in one state only (the device chirp) with constant data 0; (c) solicited: in every endpoint class and in the '
           'request handlers, every site that can start a transmission (raise tx.valid with a constant, or request ACK/NAK/STALL) '
           'carries a token-derived, gap-delayed strobe in its guard or expression (tokenizer.ready_for_response, '
           'rx_ready_for_response, data_requested, status_requested, timer.tx_allowed), or sits in an FSM state that is '
           'unreachable once the edges carrying such a strobe are removed; those strobes are only produced after the end of a '
           'received token/data packet plus the inter-packet delay (C01, C02, C05); (d) framing of what is sent: C03, C04; (e) a complete '
           'token addressed to another device withdraws the token direction (interface.pid) the endpoints act on. '
           '(f) the token detector starts its response timer only where it reports a token (not for SOFs or foreign tokens). ')
NOT_DECIDED = 'absence of overlap across arbitrary traffic (needs timing); user-supplied request handlers.'
STROBES = ('ready_for_response', 'rx_ready_for_response', 'data_requested', 'status_requested', 'timer.tx_allowed')


def strobe_in(atoms):
    return any(p and any(a.endswith(s) or ('.' + s) in a for s in STROBES) for a, p in atoms)


def check_class(ctx, ir, cls, sigs):
    fsm = ir.fsms[0] if ir.fsms else None
    safe = set()
    if fsm:
        r = reachable(fsm, fsm.init, edge_ok=lambda e: not strobe_in(q.atoms(e)))
        safe = set(fsm.states) - r
    n = 0
    for sig in sigs:
        for i, a in enumerate([x for x in ir.assigns if x.lhs.canon() == sig and x.rhs is not None and not q.is_zero(x.rhs)]):
            # forwarding another module's request is not a start site (that module is checked itself)
            sg = a.rhs.sigs()
            if sg and a.rhs.op in ('sig', '|') and all((not s_.startswith('self.')) and '.' in s_ for s_ in sg):
                continue
            n += 1
            def site_ok(x, depth=0):
                if strobe_in(q.atoms(x)) or (x.state is not None and x.state[1] in safe):
                    return True
                return x.rhs.op != 'const' and all(term_ok(c, depth) for c in q.dnf(x.rhs))

            def term_ok(c, depth):
                if strobe_in(c):
                    return True
                # a forwarded request of another module (checked itself), or a local intermediate flag: judged by ITS raise sites
                if len(c) == 1:
                    (nm, pol), = c
                    if pol and '.' in nm and not nm.startswith('self.'):
                        return True
                    if pol and nm in ir.signals and '.' not in nm and depth < 3:
                        rs = [y for y in ir.drivers(nm, exact=True) if y.rhs is not None and not q.is_zero(y.rhs)]
                        return bool(rs) and all(y.domain == 'comb' and site_ok(y, depth + 1) for y in rs)
                return False
            ok = site_ok(a)
            ctx.ob('C20.solicited', '%s.%s#%d' % (cls, sig.replace('self.interface.', '').replace('self.', ''), i), ok, a.loc,
                   'a transmission may only be started by a token-derived, gap-delayed strobe: %s' % q.fmt(a)[:300])
    # one response per strobe: no valuation lets the same cycle request a handshake AND start a data packet (two
    # transmitters driving the one-hot transmit multiplexer at once put a malformed packet on the bus)
    from ..fsm import lit_atoms, assignments, holds
    def own(a):             # a constant raise written here, not the forwarding of another module's request
        return q.is_one(getattr(a, 'unfolded', a).rhs)

    def strobes_of(a):
        return {x for x, p_ in q.atoms(a) if p_ and any(x.endswith(s_) or ('.' + s_) in x for s_ in STROBES)}
    hs = [a for sg in sigs if 'handshakes_out' in sg for a in q.raises(ir, sg) if own(a)]
    tv = [a for sg in sigs if sg.endswith('tx.valid') for a in q.raises(ir, sg) if own(a)]
    clash = None
    for h in hs:
        for t in tv:
            if h.state is not None and t.state is not None and h.state != t.state:
                continue
            if not (strobes_of(h) & strobes_of(t)):
                continue            # different token-derived strobes (data stage / status stage) never coincide
            ats = sorted({x for it in (h, t) for l in it.guard for x in lit_atoms(l)})
            if len(ats) > 14:
                continue
            if any(holds(h.guard, g) and holds(t.guard, g) for g in assignments(ats)):
                # a later unconditional/conditional clear of one of them in the same context may still win: last assignment wins
                later = [c for sg in (h.lhs.canon(), t.lhs.canon()) for c in ir.drivers(sg, exact=True)
                         if q.is_zero(c.rhs) and c.order > max(h.order, t.order) and c.state in (None, h.state, t.state)]
                if not later and clash is None:
                    clash = (h, t)
    if hs and tv:
        ctx.ob('C20.one-response', '%s.handshake-vs-data' % cls, clash is None, clash[0].loc if clash else hs[0].loc,
               'one cycle both requests a handshake and starts a data packet: %s' % ([q.fmt(x)[:200] for x in clash] if clash else None))
    return n


def run(ctx):
    dev = ctx.ir('USBDevice', 'usb2.device', allow_opaque=True)
    # (a)
    for lhs, rhs in (('self.utmi.tx_data', 'tx_multiplexer.output.data'), ('self.utmi.tx_valid', 'tx_multiplexer.output.valid'),
                     ('tx_multiplexer.output.ready', 'self.utmi.tx_ready')):
        d = dev.drivers(lhs, exact=True)
        ok = len(d) == 1 and d[0].rhs.canon() == rhs and not [x for x in q.atoms(d[0]) if not x[0].startswith('cfg:')]
        ctx.ob('C20.single-driver', 'USBDevice.' + lhs, ok, d[0].loc if d else None, '%s has the single driver %s: %s' % (lhs, rhs, [q.fmt(x) for x in d]))
    mux = [s for s in dev.submodules if s.name == 'tx_multiplexer']
    ctx.need(len(mux) == 1 and isinstance(mux[0].obj, Obj), 'tx_multiplexer submodule')
    ins = mux[0].obj.attrs.get('_inputs')
    ctx.need(isinstance(ins, list), 'inputs registered with the transmit multiplexer')
    names = sorted(as_expr(dev.interp, x).canon() for x in ins)
    ctx.ob('C20.three-transmitters', 'USBDevice.tx_multiplexer.inputs', names == ['handshake_generator.tx', 'reset_sequencer.tx', 'transmitter.tx'], mux[0].loc,
           'the transmit multiplexer merges exactly the chirp, data and handshake transmitters: %s' % names)
    cls = {s.name: s.obj.clsname for s in dev.submodules if isinstance(s.obj, Obj)}
    ok = cls.get('transmitter') == 'USBDataPacketGenerator' and cls.get('handshake_generator') == 'USBHandshakeGenerator' and \
        cls.get('reset_sequencer') == 'USBResetSequencer' and cls.get('tx_multiplexer') == 'UTMIInterfaceMultiplexer'
    ctx.ob('C20.three-transmitters', 'USBDevice.transmitter-classes', ok, None, 'transmitter classes: %s' % {k: cls.get(k) for k in ('transmitter', 'handshake_generator', 'reset_sequencer', 'tx_multiplexer')})
    for lhs, rhs in (('transmitter.stream.valid', 'endpoint_mux.shared.tx.valid'), ('transmitter.stream.payload', 'endpoint_mux.shared.tx.payload'),
                     ('transmitter.stream.first', 'endpoint_mux.shared.tx.first'), ('transmitter.stream.last', 'endpoint_mux.shared.tx.last'),
                     ('handshake_generator.issue_ack', 'endpoint_mux.shared.handshakes_out.ack'), ('handshake_generator.issue_nak', 'endpoint_mux.shared.handshakes_out.nak'),
                     ('handshake_generator.issue_stall', 'endpoint_mux.shared.handshakes_out.stall'), ('transmitter.data_pid', 'endpoint_mux.shared.tx_pid_toggle')):
        d = dev.drivers(lhs, exact=True)
        ok = len(d) == 1 and d[0].rhs.canon() == rhs and not [x for x in q.atoms(d[0]) if not x[0].startswith('cfg:')]
        ctx.ob('C20.request-wiring', 'USBDevice.' + lhs, ok, d[0].loc if d else None, '%s <= %s' % (lhs, rhs))
    m = ctx.ir('UTMIInterfaceMultiplexer', 'interface.utmi')
    v = m.drivers('self.output.valid', exact=True)
    dt = m.drivers('self.output.data', exact=True)
    rd = m.drivers('self._inputs[*].ready', exact=True)
    en = [a for a in m.assigns if a.lhs.canon().startswith('encoder.i')]
    ok = len(v) == 1 and v[0].rhs.canon() == 'self._inputs[*].valid' and not v[0].guard and \
        len(dt) == 1 and dt[0].rhs.canon() == 'self._inputs[*].data' and any(x.endswith('== encoder.o') and p for x, p in q.atoms(dt[0])) and \
        len(rd) == 1 and rd[0].rhs.canon() == 'self.output.ready' and len(en) == 1 and \
        en[0].rhs.canon() in ('self._inputs[*].valid', 'Cat(self._inputs[*].valid)')      # bit by bit or as one Cat of the valids
    ctx.ob('C20.mux-semantics', 'UTMIInterfaceMultiplexer', ok, None, 'valid ORed, data selected by the one-hot of valid, ready passed back')
    # (b)
    rs = ctx.ir('USBResetSequencer', 'usb2.reset')
    tv = q.raises(rs, 'self.tx.valid')
    td = rs.drivers('self.tx.data', exact=True)
    ok = len(tv) == 1 and tv[0].state and not tv[0].guard and len(td) == 1 and q.is_zero(td[0].rhs) and td[0].state == tv[0].state
    ctx.ob('C20.chirp-only', 'USBResetSequencer.tx', ok, tv[0].loc if tv else None, 'the sequencer transmits (constant 0 = chirp K) in one state only')
    # (c)
    n = 0
    I = 'self.interface.'
    HS = [I + 'handshakes_out.ack', I + 'handshakes_out.nak', I + 'handshakes_out.stall']
    n += check_class(ctx, ctx.ir('USBInTransferManager', 'usb2.transfer', max_packet_size=64), 'USBInTransferManager',
                     ['self.packet_stream.valid', 'self.handshakes_out.nak', 'self.handshakes_out.ack', 'self.handshakes_out.stall'])
    n += check_class(ctx, ctx.ir('USBStreamOutEndpoint', 'endpoints.stream'), 'USBStreamOutEndpoint', HS + [I + 'tx.valid'])
    n += check_class(ctx, ctx.ir('USBSignalInEndpoint', 'endpoints.status', endpoint_number=3, width=16), 'USBSignalInEndpoint', HS + [I + 'tx.valid'])
    n += check_class(ctx, ctx.ir('USBIsochronousStreamInEndpoint', 'isochronous_stream_in'), 'USBIsochronousStreamInEndpoint', HS + [I + 'tx.valid'])
    n += check_class(ctx, ctx.ir('USBIsochronousStreamOutEndpoint', 'isochronous_stream_out'), 'USBIsochronousStreamOutEndpoint', HS + [I + 'tx.valid'])
    n += check_class(ctx, ctx.ir('USBIsochronousInEndpoint', 'endpoints.isochronous'), 'USBIsochronousInEndpoint', HS + [I + 'tx.valid'])
    n += check_class(ctx, ctx.ir('USBControlEndpoint', 'usb2.control'), 'USBControlEndpoint', HS + [I + 'tx.valid'])
    n += check_class(ctx, ctx.ir('USBSetupDecoder', 'usb2.request'), 'USBSetupDecoder', ['self.ack'])
    n += check_class(ctx, ctx.ir('StandardRequestHandler', 'request.standard'), 'StandardRequestHandler', HS + [I + 'tx.valid'])
    n += check_class(ctx, ctx.ir('StallOnlyRequestHandler', 'usb2.request'), 'StallOnlyRequestHandler', HS + [I + 'tx.valid'])
    ctx.need(n >= 15, 'transmission start sites (%d)' % n)
    # (e) "addressed to it": a complete token for another device must withdraw the token direction the endpoints act on,
    #     otherwise the foreign transaction's data packet is answered (the data receiver is not address-filtered)
    td_ = ctx.ir('USBTokenDetector', 'usb2.packet')
    nt = q.raises(td_, 'self.interface.new_token')
    ctx.need(len(nt) == 1 and nt[0].state, 'the site reporting a token')
    ours = q.atoms(nt[0])
    addr = [(a, p) for a, p in ours if 'self.address' in a and p]
    ctx.need(len(addr) == 1, 'address comparison in the token report guard')
    foreign = (ours - set(addr)) | {(addr[0][0], False)}
    flags = {}
    for fl in ('is_in', 'is_out', 'is_setup', 'is_ping'):
        d = td_.drivers('self.interface.' + fl, exact=True)
        ce = q.const_eq(d[0].rhs) if len(d) == 1 and not d[0].guard else None
        ctx.need(ce is not None and ce[1] == 'self.interface.pid', 'definition of interface.' + fl)
        flags[fl] = ce[0]
    # (f) the detector's response timer (whose expiry is ready_for_response) is started by a reported token only: a SOF or
    #     a token for another device must not produce a response strobe for the token direction still standing
    rfr = td_.drivers('self.interface.ready_for_response', exact=True)
    tsrc = sorted(rfr[0].rhs.sigs()) if len(rfr) == 1 and isinstance(rfr[0].rhs, E) else []
    ctx.need(len(tsrc) == 1 and tsrc[0].endswith('.tx_allowed'), 'ready_for_response as the tx_allowed output of the response timer')
    tstart = tsrc[0][:-len('tx_allowed')] + 'start'
    ts = q.raises(td_, tstart)
    ctx.need(ts, 'the site starting the response timer (%s)' % tstart)
    loose = [a for a in ts if not (a.state == nt[0].state and ours <= q.atoms(a))]
    ctx.ob('C20.response-timer-per-token', 'USBTokenDetector.response-timer.start', not loose, (loose or ts)[0].loc,
           'the response timer may be started only where a token is reported (%s): %s' % (
               sorted(ours), [q.fmt(a)[:200] for a in loose]))
    from ..fsm import holds
    pw = [a for a in td_.drivers('self.interface.pid', exact=True) if a.state == nt[0].state or a.state is None]

    def winner(assume):
        live = [a for a in pw if holds(a.guard, dict(assume), default=False)]
        return max(live, key=lambda a: a.order) if live else None
    w_own, w_oth = winner(ours), winner(foreign)
    ok = w_own is not None and w_own.rhs.op != 'const' and w_oth is not None and w_oth.rhs.op == 'const' and \
        w_oth.rhs.val not in flags.values()
    later = []
    own, oth = [w_own] if w_own else [], [w_oth] if w_oth else []
    ctx.ob('C20.foreign-token-clears-direction', 'USBTokenDetector.interface.pid@foreign-token', ok and not later,
           (oth or own or nt)[0].loc,
           'a complete token with another address must load interface.pid with a value matching none of IN/OUT/SETUP/PING '
           '(%s) whenever the report guard holds except for the address test (last assignment wins); writers in that state: %s'
           % (sorted(flags.values()), [q.fmt(a)[:160] for a in pw]))
