"""C22 -- ULPI receive translation yields exactly the PHY's packet bytes."""
import itertools

from ..ir import E
from .. import q
from ..fsm import reachable

TITLE = 'ULPI receive translation'
FLOOR = 30
DECIDES = ('By exhaustive evaluation of the extracted guards/expressions over their leaf conditions (formulation '
           'independent, last assignment wins): on ULPIRxEventDecoder (a) the RxCmd register is loaded with the whole '
           'data byte only in, and in every, cycle with DIR & DIR-one-cycle-ago & ~NXT & ~register-operation mask, the '
           'DIR history being an unconditional register of the live DIR; (b) rx_start / rx_stop are one-cycle strobes '
           'raised exactly for a captured RxCmd whose bit 4 differs from the RxActive bit of the previous RxCmd; '
           '(c) line_state = RxCmd[1:0], vbus_valid <=> RxCmd[3:2] == 3, session_end <=> RxCmd[3:2] == 0, session_valid '
           'at 2 and not at 0/1, rx_active = RxCmd[4] for all 256 RxCmd values (ULPI 1.1 table 3.8.1.2); on '
           'UTMITranslator, for both clocking configurations (thorough: all constructor configurations), (d) rx_active '
           'is cleared, with priority over any start, whenever DIR is low, cleared on rx_stop, set on rx_start and on '
           'DIR rising together with NXT, never set in another cycle without NXT, held while NXT is low without an event '
           'and never cleared by a data byte; the only register its conditions use besides itself is an unconditional '
           'copy of the live DIR; (e) rx_valid <=> NXT & rx_active (the translator\'s own), rx_data is the whole live data '
           'byte, both through the same unconditional register stage; (f) the decoder listens on the translator\'s own '
           'bus and its line_state / vbus_valid / session_end / session_valid outputs are forwarded unconditionally at '
           'full width; (g) the decoder\'s register-operation mask is derived from the register window\'s state, is '
           'active in the state that latches a register-read response from the bus, and is not active in the states of '
           'a register write (where every DIR-high/NXT-low byte is a genuine RxCmd). ')
NOT_DECIDED = ('byte-exact reception over PHY histories; in particular the two-cycle latency from an RxCmd with RxActive '
               'to rx_active (a data byte presented in the cycle directly after such an RxCmd is not reported), and the '
               'decode of rx_error / host_disconnect / id_digital.')

DIR, NXT, DATA = 'self.ulpi.dir.i', 'self.ulpi.nxt.i', 'self.ulpi.data.i'
HOLD = 'hold'


# ------------------------------------------------------------------------------------------------ small engine helpers
def live(item):
    """Guard literals of an Assign without the Python-level configuration atoms."""
    return [l for l in item.guard if l.kind != 'cfg']


def unguarded(item):
    return not live(item) and item.state is None


def whole(a, name):
    return isinstance(a.lhs, E) and a.lhs.op == 'sig' and a.lhs.canon() == name


def expand(ir, e, depth=6):
    """Replace locals that have a single unconditional (configuration atoms apart) combinational definition by it."""
    if not isinstance(e, E) or depth == 0:
        return e
    if e.op == 'sig':
        name = e.args[0].name
        if not name.startswith('self.') and '.' not in name:
            ds = ir.drivers(name, exact=True)
            if len(ds) == 1 and ds[0].domain == 'comb' and unguarded(ds[0]) and whole(ds[0], name) and isinstance(ds[0].rhs, E):
                return expand(ir, ds[0].rhs, depth - 1)
        return e
    return E(e.op, tuple(expand(ir, a, depth) if isinstance(a, E) else a for a in e.args), w=e.w, val=e.val, label=e.label)


class Table:
    """Next-value relation of one 1-bit signal: its drivers evaluated over all valuations of their leaf conditions
    (local combinational definitions expanded), the last assignment whose guard holds wins."""

    def __init__(self, ctx, ir, name, known, drivers=None):
        self.ctx, self.ir, self.name = ctx, ir, name
        ds = drivers if drivers is not None else ir.drivers(name, exact=True)
        ctx.need(ds, 'drivers of %s in %s' % (name, ir.clsname))
        ctx.need(all(whole(a, name) for a in ds), '%s is assigned as a whole' % name)
        ctx.need(len({a.domain for a in ds}) == 1 and all(a.state is None for a in ds), 'one domain, no FSM for ' + name)
        self.domain = ds[0].domain
        self.ds = sorted(ds, key=lambda a: a.order)
        self.guards = {id(a): [(expand(ir, l.e), l.pos) for l in live(a)] for a in self.ds}
        self.rhs = {id(a): expand(ir, a.rhs) for a in self.ds}
        exprs = [e for g in self.guards.values() for e, _ in g] + [r for r in self.rhs.values() if r.op != 'const']
        self.leaves = set(q.bool_leaves(*exprs))
        self.known = sorted(known)
        self.extra = sorted(self.leaves - set(known))
        ctx.need(len(self.known) + len(self.extra) <= 14, 'few enough conditions around %s: %s' % (name, self.extra))
        self.loc = self.ds[-1].loc

    def _one(self, asg):
        win = None
        for a in self.ds:
            ok = True
            for e, pos in self.guards[id(a)]:
                v = q.eval_expr(e, asg)
                self.ctx.need(v is not None, 'guard of %s evaluates: %s' % (self.name, e.canon()))
                if v != pos:
                    ok = False
                    break
            if ok:
                win = a
        if win is None:
            return HOLD if self.domain != 'comb' else 0
        r = self.rhs[id(win)]
        if r.op == 'const':
            self.ctx.need(r.val in (0, 1), 'constant written to %s' % self.name)
            return r.val
        v = q.eval_expr(r, asg)
        self.ctx.need(v is not None, 'value written to %s evaluates: %s' % (self.name, r.canon()))
        return int(v)

    def rows(self):
        """(valuation of the known conditions, set of outcomes over all valuations of the unknown ones,
        outcome with all unknown ones false)."""
        for bits in itertools.product((False, True), repeat=len(self.known)):
            k = dict(zip(self.known, bits))
            outs = set()
            base = None
            for xb in itertools.product((False, True), repeat=len(self.extra)):
                asg = dict(k)
                asg.update(zip(self.extra, xb))
                o = self._one(asg)
                outs.add(o)
                if not any(xb):
                    base = o
            yield k, outs, base

    def check(self, clauses, possible=None):
        """clauses: list of (id, when(k)->bool, want, strict).  strict: every valuation of the unknown conditions must
        give `want`; otherwise the valuation with all unknown conditions false must.  Returns {id: counterexample}."""
        bad = {}
        n = 0
        for k, outs, base in self.rows():
            if possible is not None and not possible(k):
                continue
            n += 1
            for cid, when, want, strict in clauses:
                if cid in bad or not when(k):
                    continue
                wants = want if isinstance(want, (set, frozenset)) else {want}
                if (strict and not outs <= wants) or (not strict and base not in wants):
                    bad[cid] = (short(k), sorted(map(str, outs)) if strict else str(base))
        self.ctx.need(n >= 2, 'enumerated valuations for ' + self.name)
        return bad


def short(k):
    return {n.replace('self.ulpi.', '').replace('rxevent_decoder.', 'decoder.').replace('self.', ''): int(v) for n, v in k.items()}


class NoEval(Exception):
    pass


def ev(e, env):
    """Numeric value of an expression under env {signal name: int}."""
    if not isinstance(e, E):
        raise NoEval(repr(e))
    op = e.op
    if op == 'const':
        if not isinstance(e.val, int):
            raise NoEval(e.canon())
        return e.val
    if op == 'sig':
        n = e.args[0].name
        if n not in env:
            raise NoEval('free signal ' + n)
        return env[n]
    if op == 'slice':
        lo, hi = e.args[1], e.args[2]
        if not isinstance(lo, int) or not isinstance(hi, int):
            raise NoEval(e.canon())
        return (ev(e.args[0], env) >> lo) & ((1 << (hi - lo)) - 1)
    if op == 'cat':
        r, sh = 0, 0
        for a in e.args:
            if not isinstance(a, E) or a.w is None:
                raise NoEval('Cat of unknown width: ' + e.canon())
            r |= (ev(a, env) & ((1 << a.w) - 1)) << sh
            sh += a.w
        return r
    if op == '~':
        a = e.args[0]
        if q_is_bool(a):
            return 0 if ev(a, env) else 1
        if a.w is None:
            raise NoEval('~ of unknown width: ' + e.canon())
        return ~ev(a, env) & ((1 << a.w) - 1)
    if op == 'mux':
        return ev(e.args[1], env) if ev(e.args[0], env) else ev(e.args[2], env)
    vals = [ev(a, env) for a in e.args]
    if op in ('&', '|', '^', '+'):
        r = vals[0]
        for v in vals[1:]:
            r = r & v if op == '&' else r | v if op == '|' else r ^ v if op == '^' else r + v
        return r
    if len(vals) == 2:
        a, b = vals
        table = {'==': a == b, '!=': a != b, '<': a < b, '<=': a <= b, '>': a > b, '>=': a >= b}
        if op in table:
            return int(table[op])
        if op == '>>':
            return a >> b
        if op == '-':
            return a - b
    raise NoEval('operator %s in %s' % (op, e.canon()))


def q_is_bool(e):
    from ..ir import _is_bool
    return _is_bool(e)


# ------------------------------------------------------------------------------------------------------- the decoder
def dir_registers(ir):
    """Registers whose only driver is an unconditional clocked copy of the live DIR line."""
    out = {}
    for name in ir.signals:
        ds = ir.drivers(name, exact=True)
        if len(ds) == 1 and ds[0].domain != 'comb' and unguarded(ds[0]) and whole(ds[0], name) and \
                isinstance(ds[0].rhs, E) and ds[0].rhs.canon() == DIR:
            out[name] = ds[0]
    return out


def check_decoder(ctx):
    C = 'ULPIRxEventDecoder'
    ir = ctx.ir(C, 'interface.ulpi')
    LAST, MASK, ACT = 'self.last_rx_command', 'self.register_operation_in_progress', 'self.rx_active'
    BIT = DATA + '[4:5]'
    cap = ir.drivers(LAST, exact=True)
    ctx.need(cap, 'writers of the RxCmd register ' + LAST)
    clocked = all(a.domain != 'comb' and a.domain == cap[0].domain for a in cap)
    si = ir.signals.get(LAST)
    ok = clocked and all(whole(a, LAST) and isinstance(a.rhs, E) and a.rhs.canon() == DATA for a in cap) and \
        si is not None and si.w is not None and si.w >= 5
    ctx.ob('C22.rxcmd-source', C + '.last_rx_command.source', ok, cap[0].loc,
           'the RxCmd register must be a clocked copy of the whole ULPI data byte: %s' % [q.fmt(a) for a in cap])
    # the DIR history used by the capture condition
    dregs = dir_registers(ir)
    gl = set()
    for a in cap:
        gl |= set(q.bool_leaves(*[expand(ir, l.e) for l in live(a)]))
    used = sorted(n for n in dregs if n in gl)
    ctx.ob('C22.dir-history', C + '.dir-delayed', len(used) == 1 and dregs[used[0]].domain == cap[0].domain, cap[0].loc,
           'the RxCmd capture condition must use exactly one register that is an unconditional copy of the live DIR '
           '(the turn-around cycle carries no RxCmd); found %s among the conditions %s' % (used, sorted(gl)))
    DD = used[0] if used else '<dir one cycle ago>'
    is_rxcmd = lambda k: k[DIR] and k[DD] and not k[NXT] and not k[MASK]
    # (a) capture condition: rewrite the writers as a 1-bit "captures" relation (all writers copy the same byte)
    t = Table(ctx, ir, LAST, {DIR, DD, NXT, MASK}, drivers=cap)
    for a in t.ds:
        t.rhs[id(a)] = E('const', val=1)
    bad = t.check([('only', lambda k: not is_rxcmd(k), HOLD, True), ('every', is_rxcmd, 1, False)])
    ctx.ob('C22.rxcmd-capture', C + '.last_rx_command.only-rxcmd', 'only' not in bad, t.loc,
           'the RxCmd register must not be loaded unless DIR & DIR-one-cycle-ago & ~NXT & ~register-operation (packet data, '
           'turn-around bytes, our own output or a register-read response would become line state): loaded when %s' % (bad.get('only'),))
    ctx.ob('C22.rxcmd-capture', C + '.last_rx_command.every-rxcmd', 'every' not in bad, t.loc,
           'every RxCmd (DIR & DIR-one-cycle-ago & ~NXT, no register operation) must be captured: not captured when %s' % (bad.get('every'),))
    # (b) RxActive edge strobes
    for sig, was, now in (('self.rx_start', False, True), ('self.rx_stop', True, False)):
        t = Table(ctx, ir, sig, {DIR, DD, NXT, MASK, ACT, BIT})
        fire = lambda k, was=was, now=now: is_rxcmd(k) and k[ACT] == was and k[BIT] == now
        bad = t.check([('spurious', lambda k, fire=fire: not fire(k), 0, True), ('missed', fire, 1, False)])
        ok = t.domain == cap[0].domain and not bad
        ctx.ob('C22.rxactive-strobe', '%s.%s' % (C, sig[5:]), ok, t.loc,
               '%s must be a one-cycle strobe (same clock as the RxCmd register) raised exactly when a captured RxCmd has '
               'bit 4 (RxActive) = %d while the previous RxCmd had %d; spurious/stuck: %s, missed: %s; conditions not '
               'understood: %s' % (sig[5:], now, was, bad.get('spurious'), bad.get('missed'), t.extra))
    # (c) decode of the latched RxCmd, all 256 values
    spec = (('self.line_state', 2, lambda v: {v & 3}, 'RxCmd[1:0]'),
            ('self.vbus_valid', 1, lambda v: {int((v >> 2) & 3 == 3)}, 'RxCmd[3:2] == 0b11'),
            ('self.session_end', 1, lambda v: {int((v >> 2) & 3 == 0)}, 'RxCmd[3:2] == 0b00'),
            ('self.session_valid', 1, lambda v: {0, 1} if (v >> 2) & 3 == 3 else {int((v >> 2) & 3 == 2)},
             'RxCmd[3:2] == 0b10 (0b11 may count as valid too)'),
            (ACT, 1, lambda v: {(v >> 4) & 1}, 'RxCmd[4]'))
    for sig, width, want, text in spec:
        ds = ir.drivers(sig, exact=True)
        ctx.need(ds, 'decoder output ' + sig)
        s = ir.signals.get(sig)
        ok = len(ds) == 1 and ds[0].domain == 'comb' and unguarded(ds[0]) and whole(ds[0], sig) and s is not None and s.w == width
        bad = None
        if ok:
            rhs = expand(ir, ds[0].rhs)
            for v in range(256):
                try:
                    got = ev(rhs, {LAST: v}) & ((1 << width) - 1)
                except NoEval as ex:
                    ctx.need(False, 'decode expression of %s evaluates (%s)' % (sig, ex))
                if got not in want(v):
                    bad = 'RxCmd=0x%02x gives %d' % (v, got)
                    break
        ctx.ob('C22.rxcmd-decode', '%s.%s' % (C, sig[5:]), ok and bad is None, ds[0].loc,
               '%s must be the %d-bit combinational decode %s of the latched RxCmd (ULPI 1.1 table 3.8.1.2): %s' % (
                   sig[5:], width, text, bad or [q.fmt(a) for a in ds]))


# ---------------------------------------------------------------------------------------------------- the translator
def check_translator(ctx, tag, **kw):
    C = 'UTMITranslator'
    ir = ctx.ir(C, 'interface.ulpi', allow_opaque=True, **kw)
    K = lambda role: '%s.%s[%s]' % (C, role, tag)
    dec = [s for s in ir.submodules if s.obj.clsname == 'ULPIRxEventDecoder']
    ctx.need(len(dec) == 1, 'the RxEvent decoder submodule of ' + C)
    D = dec[0].name + '.'
    START, STOP, ACT = D + 'rx_start', D + 'rx_stop', 'self.rx_active'
    bus = dec[0].obj.kwargs.get('ulpi_bus')
    ctx.ob('C22.decoder-bus', K('decoder.ulpi_bus'), isinstance(bus, E) and bus.canon() == 'self.ulpi', dec[0].loc,
           'the RxEvent decoder must listen on the translator\'s own ULPI bus (found %r)' % (bus,))
    # (d) rx_active
    dregs = dir_registers(ir)
    t = Table(ctx, ir, ACT, {DIR, NXT, START, STOP} | set(dregs))
    used = sorted(n for n in dregs if n in t.leaves)
    # any other register among the conditions (a stale or gated DIR history, a delayed NXT ...) is not a legitimate input
    regs = sorted(n for n in t.leaves if n != ACT and n not in dregs and
                  any(a.domain != 'comb' for a in ir.drivers(n, exact=True)))
    ctx.ob('C22.dir-history', K('dir-delayed'), not regs and len(used) <= 1 and t.domain != 'comb' and
           all(dregs[n].domain == t.domain for n in used), t.loc,
           'rx_active must be a register; the only register its conditions may use besides itself is one unconditional copy '
           'of the live DIR in the same clock domain (for the DIR rising edge); DIR copies used: %s, other registers: %s' % (used, regs))
    PD = used[0] if used else '<dir one cycle ago>'
    # nothing else may decide rx_active: a level such as the decoder's rx_error (RxCmd[5:4] == 0b11 keeps RxActive = 1) would
    # end a packet the PHY is still delivering
    foreign = sorted(n for n in t.leaves if n not in {DIR, NXT, START, STOP, PD, ACT} and not n.startswith('cfg:'))
    ctx.ob('C22.rx-active', K('rx_active.inputs'), not foreign, t.loc,
           'rx_active may depend only on DIR, its one-cycle copy, NXT and the decoder strobes rx_start / rx_stop; it also reads %s' % foreign)
    t = Table(ctx, ir, ACT, {DIR, NXT, START, STOP, PD})
    dstart = lambda k: k[DIR] and not k[PD] and k[NXT]
    start = lambda k: k[DIR] and (dstart(k) or k[START])
    # rx_stop is the registered result of an RxCmd seen one cycle ago (DIR was high then), rx_start and rx_stop exclude each other
    possible = lambda k: not (k[STOP] and (k[START] or not k[PD]))
    bad = t.check([
        ('dir-low', lambda k: not k[DIR], 0, True),
        ('rx-stop', lambda k: k[DIR] and k[STOP], 0, True),
        ('rxcmd-start', lambda k: k[DIR] and k[START] and not k[STOP], 1, False),
        ('dir-nxt-start', lambda k: dstart(k) and not k[STOP], 1, False),
        # DIR & NXT while DIR was already high is packet data under every legal PHY history: setting there is harmless
        ('no-spurious-start', lambda k: k[DIR] and not k[STOP] and not start(k) and not k[NXT], frozenset((0, HOLD)), True),
        ('hold', lambda k: k[DIR] and not k[STOP] and not start(k) and not k[NXT], HOLD, False),
        ('hold-data', lambda k: k[DIR] and not k[STOP] and not start(k) and k[NXT], frozenset((1, HOLD)), False)], possible)
    msgs = {'dir-low': 'rx_active must be cleared whenever DIR is low, with priority over any start (a packet aborted by DIR '
                       'falling, or an RxCmd start immediately followed by DIR falling, must not leave it set)',
            'rx-stop': 'rx_active must be cleared by the decoder\'s rx_stop strobe (RxCmd with RxActive = 0)',
            'rxcmd-start': 'rx_active must be set by the decoder\'s rx_start strobe while DIR is high',
            'dir-nxt-start': 'rx_active must be set when DIR rises together with NXT (ULPI 3.8.2.4)',
            'no-spurious-start': 'rx_active must not be set in a cycle without NXT unless by rx_start (an RxCmd-only or '
                                 'register-read turn-around is not a packet)',
            'hold': 'rx_active must keep its value while DIR stays high with NXT low and no start/stop event (NXT throttling '
                    'and mid-packet RxCmds do not end the packet)',
            'hold-data': 'rx_active must not be cleared by a data byte (DIR and NXT high, no stop event)'}
    for cid, m in msgs.items():
        ctx.ob('C22.rx-active', K('rx_active.' + cid), cid not in bad, t.loc,
               '%s; counterexample (conditions -> next value): %s; conditions not understood: %s' % (m, bad.get(cid), t.extra))
    # (e) rx_valid / rx_data
    tv = Table(ctx, ir, 'self.rx_valid', {NXT, ACT})
    want = lambda k: k[NXT] and k[ACT]
    bad = tv.check([('spurious', lambda k: not want(k), 0, True), ('missed', want, 1, False)])
    ok = not bad and len(tv.ds) == 1 and unguarded(tv.ds[0])
    ctx.ob('C22.rx-valid', K('rx_valid'), ok, tv.loc,
           'rx_valid must be the unconditional copy of NXT & rx_active (the translator\'s own rx_active and the live NXT): '
           'an RxCmd or register-read byte (NXT low) or a byte outside a packet is never data and every NXT byte of a packet '
           'is; spurious: %s, missed: %s; %s' % (bad.get('spurious'), bad.get('missed'), [q.fmt(a) for a in tv.ds]))
    rd = ir.drivers('self.rx_data', exact=True)
    ctx.need(rd, 'writer of rx_data')
    s = ir.signals.get('self.rx_data')
    ok = len(rd) == 1 and unguarded(rd[0]) and whole(rd[0], 'self.rx_data') and isinstance(rd[0].rhs, E) and \
        rd[0].rhs.canon() == DATA and s is not None and s.w == 8
    ctx.ob('C22.rx-data', K('rx_data'), ok, rd[0].loc,
           'rx_data must be the unconditional copy of the whole 8-bit live ULPI data byte: %s' % [q.fmt(a) for a in rd])
    ctx.ob('C22.rx-alignment', K('rx_data-vs-rx_valid'), len(rd) == 1 and rd[0].domain == tv.domain and
           (tv.domain == 'comb' or tv.domain == t.domain), rd[0].loc,
           'rx_data and rx_valid must pass through the same register stage (domains %s / %s, rx_active in %s), otherwise '
           'rx_valid marks the neighbouring byte' % (rd[0].domain, tv.domain, t.domain))
    # (f) status forwarding
    for name in ('line_state', 'vbus_valid', 'session_end', 'session_valid'):
        src = D + name
        fw = [a for a in ir.assigns if isinstance(a.rhs, E) and a.rhs.canon() == src and a.domain == 'comb' and
              unguarded(a) and isinstance(a.lhs, E) and a.lhs.op == 'sig']
        ok = False
        if len(fw) == 1:
            dst = fw[0].lhs.canon()
            ws, wd = ir.signals.get(src), ir.signals.get(dst)
            ok = len(ir.drivers(dst, exact=True)) == 1 and ws is not None and wd is not None and ws.w is not None and \
                wd.w is not None and wd.w >= ws.w
        ctx.ob('C22.status-forward', K('status.' + name), ok, fw[0].loc if fw else dec[0].loc,
               'the decoder\'s %s must be forwarded combinationally, unconditionally and at full width to exactly one '
               'translator output that has no other driver: %s' % (name, [q.fmt(a) for a in fw]))
    return ir, D


def check_mask(ctx, ir, D):
    """(g) which register-window states suppress RxCmd decoding."""
    C = 'UTMITranslator'
    MASK = D + 'register_operation_in_progress'
    ds = ir.drivers(MASK, exact=True)
    if not ds:
        ctx.ob('C22.rxcmd-mask', C + '.rxcmd-mask.source', False, None,
               'the decoder\'s register-operation mask %s is never driven (constant 0): a register-read response would be '
               'decoded as an RxCmd' % MASK)
        return
    win = [s for s in ir.submodules if s.obj.clsname == 'ULPIRegisterWindow']
    ctx.need(len(win) == 1, 'the register window submodule')
    W = win[0].name + '.'
    w = ctx.ir('ULPIRegisterWindow', 'interface.ulpi')
    fsm = ctx.the_fsm(w)
    ok = len(ds) == 1 and ds[0].domain == 'comb' and unguarded(ds[0]) and isinstance(ds[0].rhs, E)
    ports = sorted(ds[0].rhs.sigs()) if ok else []
    ok = ok and ports and all(p.startswith(W) for p in ports)
    defs = {}
    for p in ports if ok else []:
        fs = q.flag_states(w, fsm, 'self.' + p[len(W):])
        if any(v == 'cond' for v in fs.values()):
            ok = False
            break
        defs[p] = fs
    ctx.ob('C22.rxcmd-mask', C + '.rxcmd-mask.source', bool(ok), ds[0].loc,
           'the decoder\'s register-operation mask must be an unconditional function of register-window outputs that '
           'depend on the window state only: %s' % [q.fmt(a) for a in ds])
    if not ok:
        return

    def masked(state):
        def sub(e):
            if e.op == 'sig' and e.canon() in defs:
                return E('const', val=int(defs[e.canon()][state]), w=1)
            return E(e.op, tuple(sub(a) if isinstance(a, E) else a for a in e.args), w=e.w, val=e.val, label=e.label)
        try:
            return bool(ev(sub(ds[0].rhs), {}))
        except NoEval as ex:
            ctx.need(False, 'mask value in window state %s (%s)' % (state, ex))
    idle = fsm.init
    latch = sorted({q.state_of(a) for a in w.drivers('self.read_data', exact=True)
                    if isinstance(a.rhs, E) and 'self.ulpi_data_in' in a.rhs.sigs() and a.state})
    ctx.need(latch, 'the window state that latches the register-read response')
    miss = [s for s in latch if not masked(s)]
    ctx.ob('C22.rxcmd-mask', C + '.rxcmd-mask@register-read-response', not miss, ds[0].loc,
           'while the register window latches a register-read response (state %s) the byte on the bus (DIR high, NXT low) '
           'is not an RxCmd and must be masked from the decoder' % latch)
    starts = [e.dst for e in fsm.out_edges(idle) if q.has(e, 'self.write_request')]
    ctx.need(len(set(starts)) == 1 and starts[0] != idle, 'first state of a register write')
    wr = sorted(s for s in reachable(fsm, starts[0], stop={idle}) if s != idle and s not in latch)
    over = [s for s in wr if masked(s)]
    ctx.ob('C22.rxcmd-mask', C + '.rxcmd-mask@register-write', not over, ds[0].loc,
           'the RxCmd mask is active in the register-WRITE states %s (it follows %s), where the PHY never returns '
           'register data: every DIR-high/NXT-low byte there is a genuine RxCmd and is dropped. A write that is pending '
           '(waiting for DIR to fall) or aborted by a receive therefore loses the RxCmds of that DIR-high period: '
           'line_state/vbus flags go stale and a packet announced by an RxCmd (RxActive 0->1 while DIR is already high) '
           'is lost completely because rx_start never fires' % (over, ', '.join(ports)))


def run(ctx):
    check_decoder(ctx)
    ir, D = check_translator(ctx, 'default')
    check_mask(ctx, ir, D)
    check_translator(ctx, 'manual-clock', handle_clocking=False)
    if ctx.tier == 'thorough':
        check_translator(ctx, 'no-platform-regs', use_platform_registers=False)
        check_translator(ctx, 'manual-clock,no-platform-regs', handle_clocking=False, use_platform_registers=False)
