"""C41 -- the LTSSM reaches U0 only through training and honours resets and timeouts."""
import math
from ..ir import E
from .. import q
from ..fsm import state_outcomes, reaches, reachable, find_path, guard_atoms

TITLE = 'LTSSM'
FLOOR = 60
DECIDES = ('On the FSM of LTSSMController with all helper closures inlined (transition_to_state, transition_on_timeout, '
           'handle_warm_resets, entry-task table): (a) link_ready is driven in exactly one state (U0 by role), whose only '
           'predecessors are idle-handshake states and every edge into it carries idle_handshake_complete; (b) edge cuts: '
           'every path from the initial state to U0 uses an edge guarded by link_partner_detected, one guarded by polling '
           'LFPS seen (or TS1, the documented loosening), one guarded by ts_burst_complete & ts2_seen and one by '
           'idle_handshake_complete; (c) every path from a polling / recovery / hot-reset entry state to U0 passes a '
           'ts2_seen-guarded edge and every edge into those entry states clears ts2_seen; (d) reset priority: in every '
           'state the exact last-wins outcome with in_usb_reset raised is the reset state, whatever the other inputs; '
           'U0 has that edge; (e) every documented timeout edge compares cycles_in_state with ceil(T*f) for the documented '
           'T (12 ms / 2 ms / 360 ms), always leaves the state, the counter covers 360 ms and every transition clears '
           'it; (f) enable_scrambling in U0 is ~request_no_scrambling & ~disable_scrambling_seen. ')
NOT_DECIDED = 'what the detectors feeding ts2_seen / polling_seen report (C42, C43) and the physical layer.'

F = 125e6
TIMEOUTS_MS = {'Rx.Detect.Quiet': 12, 'Polling.LFPS': 360, 'Polling.Active': 12, 'Polling.Configuration': 12, 'Polling.Idle': 2,
               'Hot Reset.Active': 12, 'Hot Reset.Exit': 2, 'Recovery.Active': 12, 'Recovery.Configuration': 12,
               'Recovery.Idle': 2, 'SS.Inactive.Quiet': 12}     # as documented in ltssm.py / USB 3.2 table 7-14
RST = 'self.in_usb_reset'


def run(ctx):
    ir = ctx.ir('LTSSMController', 'usb3.link.ltssm', ss_clock_frequency=F)
    fsm = ctx.the_fsm(ir)
    init = fsm.init
    lr = q.raises(ir, 'self.link_ready')
    ctx.need(lr, 'link_ready driver')
    u0s = {q.state_of(a) for a in lr}
    ctx.ob('C41.link-ready-state', 'LTSSM.link_ready', len(u0s) == 1 and None not in u0s and all(not a.guard for a in lr),
           lr[0].loc, 'link_ready must be driven unconditionally in exactly one state: %s' % sorted(map(str, u0s)))
    u0 = sorted(map(str, u0s))[0]
    hs = {q.state_of(a) for a in q.raises(ir, 'self.perform_idle_handshake')}
    for e in fsm.in_edges(u0):
        ok = e.src in hs and q.has(e, 'self.idle_handshake_complete')
        ctx.ob('C41.u0-entry', 'LTSSM.%s->U0' % e.src, ok, e.loc,
               'U0 may only be entered from an idle-handshake state under idle_handshake_complete: %s' % q.fmt(e))
    # (b) edge cuts from the initial state
    cuts = {
        'partner-detected': lambda e: q.has(e, 'self.link_partner_detected'),
        'polling-lfps-or-ts1': lambda e: q.has(e, 'lfps_burst_seen') or q.has(e, 'self.ts1_detected'),
        'ts2-exchange': lambda e: q.has(e, 'ts2_seen') and q.has(e, 'self.ts_burst_complete'),
        'idle-handshake': lambda e: q.has(e, 'self.idle_handshake_complete'),
    }
    for name, pred in cuts.items():
        p = find_path(fsm, init, u0, edge_ok=lambda e, pred=pred: not pred(e))
        ctx.ob('C41.training-cut', 'LTSSM.init->U0.' + name, p is None, p[0].loc if p else fsm.loc,
               'a path from %s to U0 avoids every %s edge: %s' % (init, name, ' ; '.join('%s->%s' % (e.src, e.dst) for e in p or [])))
    # the polling-LFPS flag counts only "since this pass through the polling state": every edge into a state that
    # decides on it must clear it (otherwise a pass after a warm reset or a timeout inherits the flag of the previous one)
    LF = 'lfps_burst_seen'
    clear_lf = [a for a in ir.drivers(LF, exact=True) if q.is_zero(a.rhs)]
    readers = sorted({e.src for e in fsm.edges if q.has(e, LF)})
    ctx.need(readers, 'a state that decides on %s' % LF)
    for s in readers:
        for e in fsm.in_edges(s):
            ctx.ob('C41.lfps-since-entry', 'LTSSM.%s->%s' % (e.src, s), _has_assign(clear_lf, e), e.loc,
                   'every edge into %s must clear %s (polling LFPS must have been exchanged since the last reset, not during an '
                   'earlier pass): %s' % (s, LF, q.fmt(e)))
    # (c) re-entry states
    clear_ts2 = [a for a in ir.drivers('ts2_seen', exact=True) if q.is_zero(a.rhs)]
    entries = sorted({s for s in fsm.states if any(e.dst == s and _has_assign(clear_ts2, e) for e in fsm.edges)})
    ctx.need(len(entries) >= 3, 'entry states whose entry tasks clear ts2_seen (found %s)' % entries)
    for s in entries:
        for e in fsm.in_edges(s):
            ctx.ob('C41.entry-clears-ts2', 'LTSSM.%s->%s' % (e.src, s), _has_assign(clear_ts2, e), e.loc,
                   'every edge into %s must clear ts2_seen: %s' % (s, q.fmt(e)))
        if reaches(fsm, s, u0):
            p = find_path(fsm, s, u0, edge_ok=lambda e: not q.has(e, 'ts2_seen'), avoid=set(entries) - {s})
            ctx.ob('C41.ts2-since-entry', 'LTSSM.%s=>U0' % s, p is None, fsm.state_loc[s],
                   'a path from %s to U0 avoids the ts2_seen edge: %s' % (s, ' ; '.join('%s->%s' % (e.src, e.dst) for e in p or [])))
    for s in ('Polling.Active', 'Recovery.Active', 'Hot Reset.Active'):
        ctx.ob('C41.entry-set', 'LTSSM.entry.' + s, s in entries, None, '%s must be an entry state that clears ts2_seen' % s)
    # (d) reset priority
    # the warm-reset edges: those that require in_usb_reset; their (common) target is the reset state.  An edge that
    # requires more than the level of in_usb_reset (an edge detector, a qualifier) is still a reset edge -- and is then
    # judged by the outcome obligation below, which frees everything except in_usb_reset
    import collections
    tgt = collections.Counter(e.dst for e in fsm.edges if (RST, True) in q.atoms(e))
    rstate = tgt.most_common(1)[0][0] if tgt else None
    ctx.need(rstate == init, 'warm reset target is the initial state')
    for s in fsm.states:
        has_edge = any((RST, True) in q.atoms(e) and e.dst == rstate for e in fsm.out_edges(s))
        if s == rstate:
            o = state_outcomes(fsm, s, {RST: True})
            ctx.ob('C41.reset-holds', 'LTSSM.reset-state', set(o) == {None}, fsm.state_loc[s],
                   'the reset state must hold while in_usb_reset: %s' % sorted(map(str, o)))
            continue
        if not has_edge:
            # may not reach U0 without passing a state that has the edge; and must not be U0 itself
            r = reachable(fsm, s, stop={x for x in fsm.states if any((RST, True) in q.atoms(e) and e.dst == rstate for e in fsm.out_edges(x))})
            ctx.ob('C41.reset-coverage', 'LTSSM.%s' % s, u0 not in r and s != u0, fsm.state_loc[s],
                   'state %s has no warm-reset edge yet can reach U0 directly' % s)
            continue
        o = state_outcomes(fsm, s, {RST: True})
        bad = {d: v for d, v in o.items() if d != rstate}
        ex = ''
        if bad:
            d, (asg, win) = sorted(bad.items(), key=lambda kv: str(kv[0]))[0]
            ex = 'e.g. goes to %s when %s' % (d, ', '.join(k for k, v in asg.items() if v and k != RST))
        ctx.ob('C41.reset-priority', 'LTSSM.%s' % s, not bad, fsm.state_loc[s],
               'with in_usb_reset raised state %s must go to %s whatever else holds (a later m.next overrides the '
               'warm-reset transition): %s' % (s, rstate, ex))
    # (e) timeouts
    cnt = 'cycles_in_state'
    si = ir.signals.get(cnt)
    ctx.need(si is not None and si.rng, 'cycles_in_state range')
    ctx.ob('C41.timeout-range', 'LTSSM.cycles_in_state', si.rng[1] - 1 >= math.ceil(360e-3 * F), si.loc,
           'cycle counter range %s must cover 360 ms = %d cycles' % (si.rng, math.ceil(360e-3 * F)))
    seen = {}
    for e in fsm.edges:
        for a, p in q.atoms(e):
            if a.endswith('== ' + cnt) and p:
                seen.setdefault(e.src, []).append((int(a.split(' == ')[0]), e))
    for s, ms in TIMEOUTS_MS.items():
        want = int(math.ceil(ms * 1e-3 * F))
        got = seen.pop(s, [])
        ok = bool(got) and all(n == want for n, _ in got)
        ctx.ob('C41.timeout-value', 'LTSSM.%s' % s, ok, got[0][1].loc if got else fsm.state_loc.get(s),
               'state %s must time out at %d ms = %d cycles, found %s' % (s, ms, want, [n for n, _ in got]))
        if got:
            atom = '%d == %s' % (want, cnt)
            o = state_outcomes(fsm, s, {atom: True, RST: False})
            ctx.ob('C41.timeout-leaves', 'LTSSM.%s' % s, None not in o and s not in o, got[0][1].loc,
                   'at the timeout state %s must be left on every path: outcomes %s' % (s, sorted(map(str, o))))
    ctx.ob('C41.timeout-value', 'LTSSM.no-undocumented-timeouts', not seen, None, 'timeouts in states without a documented one: %s' % sorted(seen))
    clr = [a for a in ir.drivers(cnt, exact=True) if q.is_zero(a.rhs)]
    miss = [e for e in fsm.edges if not _has_assign(clr, e)]
    ctx.ob('C41.timeout-restart', 'LTSSM.every-transition-clears-counter', not miss, miss[0].loc if miss else None,
           'transitions that do not clear cycles_in_state: %s' % [q.fmt(e) for e in miss[:3]])
    inc = [a for a in ir.drivers(cnt, exact=True) if a.rhs.canon() == '1 + ' + cnt]
    ctx.ob('C41.timeout-restart', 'LTSSM.counter-counts', len(inc) == 1 and not inc[0].guard and inc[0].state is None and
           all(c.order > inc[0].order for c in clr), None, 'cycles_in_state counts every cycle unless cleared by a transition')
    # (f) scrambling
    sc = [a for a in ir.drivers('self.enable_scrambling', exact=True) if q.state_of(a) == u0]
    ok = len(sc) == 1 and sc[0].rhs.canon() == '~disable_scrambling_seen & ~self.request_no_scrambling' and not sc[0].guard
    ctx.ob('C41.scrambling', 'LTSSM.U0.enable_scrambling', ok, sc[0].loc if sc else None,
           'scrambling in U0 unless either side asked otherwise: %s' % [q.fmt(a) for a in sc])


def _has_assign(assigns, edge):
    return any(a.state == edge.state and q.atoms(a) == q.atoms(edge) for a in assigns)
