#!/bin/bash
# confirm_seed.sh <worktree> <seed-id> : confirm a seeded change (tests pass, demo fails with / passes without),
# store it under /verif/seeded/<seed-id>/ and run every claimed check against /repo with the patch applied.
# (no `git stash`: the stash is shared between worktrees)
set -u
WT=$1; ID=$2
cd $WT || exit 1
[ -f _seed/patch.diff ] || { echo "no patch"; exit 1; }
git checkout -q -- luna; git apply _seed/patch.diff || { echo "agent patch does not apply to its own tree"; exit 1; }
echo "== files: $(git diff --stat -- luna | tail -1)"
echo "== tests with change"; PYTHONPATH=$WT /venv/bin/python -m pytest -q -p no:cacheprovider tests 2>&1 | tail -1
echo "== demo with change"; PYTHONPATH=$WT /venv/bin/python _seed/demo.py > /tmp/demo_changed.txt 2>&1; echo "exit $?"; tail -2 /tmp/demo_changed.txt | cut -c1-300
git checkout -q -- luna
echo "== demo without change"; PYTHONPATH=$WT /venv/bin/python _seed/demo.py > /tmp/demo_unchanged.txt 2>&1; echo "exit $?"; tail -1 /tmp/demo_unchanged.txt | cut -c1-200
mkdir -p /verif/seeded/$ID
cp _seed/patch.diff /verif/seeded/$ID/patch.diff
cp _seed/demo.py /verif/seeded/$ID/demo.py
cp _seed/meta.json /verif/seeded/$ID/meta.agent.json
echo "== checks against /repo with the patch"
cd /repo && git apply /verif/seeded/$ID/patch.diff || { echo "PATCH DOES NOT APPLY"; exit 1; }
cd /verif
for p in $(ls sa/rules | grep '^C[0-9]' | sed 's/.py//'); do
  out=$(/venv/bin/python /verif/vcheck $p 2>&1); rc=$?
  if [ $rc -ne 0 ]; then echo "  $p exit $rc"; echo "$out" | grep -v "^KNOWN" | grep "^  \|ANALYSIS" | grep -v analysed | cut -c1-260 | head -4; fi
done
git -C /repo checkout -- .
git -C /verif checkout -- evidence 2>/dev/null
echo "== done; repo status: $(git -C /repo status --short | head -3)"
