"""Witness for C06 (USBSetupDecoder): SETUP token to us, CRC-corrupted DATA0, then the host talks to ANOTHER device:
OUT token to address 5 (invisible to us: the tokenizer reports nothing) + a CRC-valid 8-byte DATA0.  Nothing may be
reported or ACKed.  Run:  cd /repo && /venv/bin/python /verif/witness/C06/foreign_data_after_corrupt.py  (documentation only)"""
import sys, unittest
sys.path.insert(0, '.')
from luna.gateware.test import usb_domain_test_case
from tests.test_usb2_packet import USBPacketizerTest
from luna.gateware.usb.usb2 import USBSpeed
from luna.gateware.usb.usb2.request import USBSetupDecoder

SETUP_TO_US = (0b00101101, 0b00000000, 0b00010000)
OUT_TO_5 = (0b11100001, 0x05, 0xd0)                          # OUT, address 5, endpoint 0, valid CRC5
DATA = (0b11000011, 0b0_10_00010, 12, 0xcd, 0xab, 0x23, 0x01, 0x78, 0x56, 0x3b, 0xa2)


class W(USBPacketizerTest):
    FRAGMENT_UNDER_TEST = USBSetupDecoder
    FRAGMENT_ARGUMENTS = {'standalone': True}

    def initialize_signals(self):
        yield self.dut.speed.eq(USBSpeed.HIGH)

    @usb_domain_test_case
    def test_foreign(self):
        dut = self.dut
        seen = []

        def packet(*octets):
            yield from self.start_packet()
            for b in octets:
                yield from self.provide_byte(b)
                seen.append(((yield dut.ack), (yield dut.packet.received)))
            yield from self.end_packet()
            for _ in range(3):
                seen.append(((yield dut.ack), (yield dut.packet.received)))
                yield
        yield from packet(*SETUP_TO_US)
        bad = list(DATA); bad[-1] ^= 0x40
        yield from packet(*bad)
        yield from self.advance_cycles(20)
        yield from packet(*OUT_TO_5)                # a token for another device: new_token stays low
        self.assertEqual((yield dut.tokenizer.new_token), 0)
        yield from packet(*DATA)                    # that device's OUT data, 8 bytes, valid CRC
        for _ in range(5):
            seen.append(((yield dut.ack), (yield dut.packet.received)))
            yield
        acks, recv = sum(a for a, _ in seen), sum(r for _, r in seen)
        print('acks=%d received=%d' % (acks, recv))
        self.assertEqual((acks, recv), (0, 0), "another device's OUT data was reported and ACKed as our SETUP request")


if __name__ == '__main__':
    unittest.main(argv=['w'])
