"""C30 -- every CRC implementation equals its standard definition."""
import zlib
from ..ir import E, SigInfo, AnalysisError
from .. import q, gf2
from ..values import FuncRef

TITLE = 'CRC implementations'
FLOOR = 20
TECHNIQUE = ('static analysis: GF(2) affine dataflow over the XOR networks extracted from the source (AST abstract '
             'interpretation), compared as affine maps with the bit-serial CRC definition')
DECIDES = ('For every CRC in scope the XOR network is extracted from the source as an affine map over GF(2) (anything that '
           'is not XOR / NOT / Cat / slice / reversal / constant makes the check fail as not-understood) and compared, as '
           'a map, with the bit-serial definition derived here from polynomial, all-ones initial value, wire bit order '
           '(bit 0 of each byte first) and complemented MSB-first check field: USB2 token CRC5 (x^5+x^2+1) as function '
           'and at its comparison site; USB3 CRC5 as function and at its five use sites (message bits / field bits agree '
           'between writer and readers); the byte-step of USB2 CRC16 (x^16+x^15+x^2+1), the word-step of the USB3 header '
           'CRC16 (x^16+x^12+x^3+x+1) and the 4/3/2/1-byte steps of CRC-32 (0x04C11DB7), each through its own output '
           'transform (conjugacy T(F(x,d)) = S(T(x),d)), plus initial value, clear priority and the data input of each '
           'step. Equality of affine maps is equality for all 2^k states and inputs. The reference itself is validated '
           'against zlib.crc32 and recorded bus captures on every run. ')
NOT_DECIDED = 'where the CRCs are used in packet framing (C01, C02, C03, C35, C36, C37, C40).'


def ref_field(vs, msg, poly, n):
    return gf2.crc_field(gf2.serial_crc_step([1] * n, msg, poly, n))


def validate_reference(ctx):
    def bits_of(data):
        return [(b >> i) & 1 for b in data for i in range(8)]
    ok32 = all(gf2.crc_reference_int(bits_of(d), 0x04C11DB7, 32) == zlib.crc32(d) for d in
               (b'', b'\xff', b'123456789', bytes(range(64)), b'\x00\x00\x00\x00'))
    ctx.ob('C30.reference', 'reference.crc32-vs-zlib', ok32, None, 'bit-serial reference reproduces zlib.crc32')
    # well-known captures: SETUP addr 0 ep 0 -> "2D 00 10"; GET_DESCRIPTOR data stage "80 06 00 01 00 00 40 00 DD 94"
    ok5 = gf2.crc_reference_int([0] * 11, 0x05, 5) == 0x10 >> 3
    ok16 = gf2.crc_reference_int(bits_of(bytes([0x80, 6, 0, 1, 0, 0, 0x40, 0])), 0x8005, 16) == 0x94DD
    # recorded SuperSpeed data header (tests: 32000008 00010000 08000000 E801A822)
    hdr = b''.join(w.to_bytes(4, 'little') for w in (0x32000008, 0x00010000, 0x08000000))
    ok3 = gf2.crc_reference_int(bits_of(hdr), 0x100B, 16) == 0xA822
    dw3 = 0xE801A822
    ok35 = gf2.crc_reference_int([(dw3 >> i) & 1 for i in range(16, 27)], 0x05, 5) == dw3 >> 27
    ctx.ob('C30.reference', 'reference.crc5-usb2-capture', ok5, None, 'CRC5 of token addr 0 / ep 0 is 0b00010')
    ctx.ob('C30.reference', 'reference.crc16-usb2-capture', ok16, None, 'CRC16 of 80 06 00 01 00 00 40 00 is DD 94')
    ctx.ob('C30.reference', 'reference.crc16-usb3-capture', ok3, None, 'header CRC16 of the recorded data header is A822')
    ctx.ob('C30.reference', 'reference.crc5-usb3-capture', ok35, None, 'link control word CRC5 of the recorded header')


def check_function(ctx, key, fn, ip, n_msg, loc=None):
    vs = gf2.Vars()
    si = SigInfo('msg', w=n_msg)
    arg = E('sig', (si,), w=n_msg)
    res = ip.call(fn, [arg], {}, None)
    ctx.need(isinstance(res, E), key + ' returns an expression')
    try:
        got = gf2.forms(res, vs)
    except gf2.NotAffine as ex:
        raise AnalysisError('%s is not a pure XOR network: %s' % (key, ex))
    want = ref_field(vs, vs.vec('msg', n_msg), 0x05, 5)
    bad = [i for i in range(5) if i >= len(got) or got[i] != want[i]]
    ctx.ob('C30.crc5-function', key, len(got) == 5 and not bad, loc,
           'CRC5 bits %s differ from the definition x^5+x^2+1; e.g. bit %s is %s, must be %s' % (
               bad, bad[:1], vs.describe(got[bad[0]]) if bad and bad[0] < len(got) else '-', vs.describe(want[bad[0]]) if bad else '-'))


def check_site(ctx, key, expr, msgs, loc, driven_by=None):
    """expr must equal the CRC5 field of the message bits `msgs` = [(signal name, lo, hi, width)...] in wire order.
    `driven_by` {(signal name, bit): expression driving that bit}: the message bits of an OUTPUT word are then expressed
    through what drives them, so that computing the CRC from the word being assembled and computing it from the fields the
    word is assembled from are the same thing."""
    vs = gf2.Vars()
    widths = {name: w for name, lo, hi, w in msgs}
    msg = []
    for name, lo, hi, w in msgs:
        msg += vs.vec(name, w)[lo:hi]
    try:
        got = gf2.forms(expr, vs, widths)
        if driven_by:
            mapping = {}
            for (name, i), ex in driven_by.items():
                f = gf2.forms(ex, vs, widths)
                if len(f) != 1:
                    raise gf2.NotAffine('driver of %s[%d] is %d bits wide' % (name, i, len(f)))
                mapping[(name, i)] = f[0]
            got = gf2.substitute(got, vs, mapping)
            msg = gf2.substitute(msg, vs, mapping)
    except gf2.NotAffine as ex:
        raise AnalysisError('%s: not a pure XOR network: %s' % (key, ex))
    want = ref_field(vs, msg, 0x05, 5)
    ctx.ob('C30.crc5-site', key, got == want, loc, 'the CRC5 computed here is not the CRC5 of bits %s' % (msgs,))


def check_register_crc(ctx, clsname, mod, n, poly, steps_expected):
    ir = ctx.ir(clsname, mod)
    # output transform: what is presented as .crc
    outs = [a for a in ir.assigns if a.lhs.canon() in ('self.crc', 'self._interfaces[*].crc') and a.domain == 'comb']
    ctx.need(len(outs) == 1 and not outs[0].guard, clsname + ' crc output')
    T = outs[0].rhs
    if T.op == 'sig' and q.comb_def(ir, T.args[0].name) is not None:
        T = q.comb_def(ir, T.args[0].name)
    regs = sorted(T.sigs())
    ctx.need(len(regs) == 1, clsname + ' running CRC register')
    X = regs[0]
    si = ir.signals[X]
    ctx.ob('C30.register', clsname + '.width', si.w == n, si.loc, 'running CRC register must be %d bits, is %s' % (n, si.w))
    vs = gf2.Vars()
    xv = vs.vec(X, n)
    def Tof(fs):
        return gf2.forms(T, vs, subst={X: fs})
    # initial value (reset value and clear value)
    init_ok = gf2.forms(T, vs, subst={X: [(si.init >> i) & 1 for i in range(n)]}) == gf2.crc_field([1] * n) \
        if isinstance(si.init, int) else False
    ctx.ob('C30.init', clsname + '.reset-value', init_ok, si.loc, 'the register must start at the all-ones remainder (init=%r)' % (si.init,))
    drivers = ir.drivers(X, exact=True)
    clears = [a for a in drivers if a.rhs.op == 'const']
    ok = len(clears) == 1 and Tof([(clears[0].rhs.val >> i) & 1 for i in range(n)]) == gf2.crc_field([1] * n)
    ctx.ob('C30.init', clsname + '.clear-value', ok, clears[0].loc if clears else None, 'clear must reload the all-ones remainder')
    steps = [a for a in drivers if a.rhs.op != 'const']
    found = {}

    def mux_free(e):
        """The expression with every Mux resolved, consistently per condition: a step that selects its data byte with a Mux
        (one arm for the receive data, one for the transmit data) is one affine step per selection."""
        conds = sorted({n.args[0].canon() for n in e.walk() if n.op == 'mux' and isinstance(n.args[0], E)})
        if not conds:
            return [(e, {})]
        if len(conds) > 4:
            raise AnalysisError('%s step selects its input through %d different Mux conditions' % (clsname, len(conds)))
        import itertools
        memo = None

        def sub(x, pick):
            if not isinstance(x, E):
                return x
            k = id(x)
            if k in memo:
                return memo[k]
            if x.op == 'mux' and isinstance(x.args[0], E):
                r = sub(x.args[1] if pick[x.args[0].canon()] else x.args[2], pick)
            elif any(isinstance(y, E) for y in x.args):
                na = tuple(sub(y, pick) for y in x.args)
                r = x if all(p_ is q_ for p_, q_ in zip(na, x.args)) else E(x.op, na, w=x.w, val=x.val, label=x.label)
            else:
                r = x
            memo[k] = r
            return r
        out = []
        cexpr = {n.args[0].canon(): n.args[0] for n in e.walk() if n.op == 'mux' and isinstance(n.args[0], E)}
        for bits in itertools.product((True, False), repeat=len(conds)):
            memo = {}
            pick = dict(zip(conds, bits))
            out.append((sub(e, pick), {c: (cexpr[c], v) for c, v in pick.items()}))
        return out
    cases = []
    for a in steps:
        rhs0 = a.rhs
        if rhs0.op == 'sig' and q.comb_def(ir, rhs0.args[0].name) is not None:
            rhs0 = q.comb_def(ir, rhs0.args[0].name)
        for r_, pick_ in mux_free(rhs0):
            cases.append((a, r_, pick_))
    ir.crc_step_cases = cases
    for a, rhs, _pick in cases:
        data_sigs = sorted(rhs.sigs() - {X})
        ctx.need(len(data_sigs) == 1, '%s step reads exactly one data input (%s)' % (clsname, data_sigs))
        dname = data_sigs[0]
        try:
            F = gf2.forms(rhs, vs)
        except gf2.NotAffine as ex:
            raise AnalysisError('%s step is not a pure XOR network: %s' % (clsname, ex))
        # which data bits does it consume?  (highest variable index of the data signal that occurs)
        used = sorted(i for (nm, i) in vs.names if nm == dname and any((f >> (1 + vs.index[(nm, i)])) & 1 for f in F))
        k = (used[-1] + 1) if used else 0
        k = -(-k // 8) * 8
        dv = vs.vec(dname, max(k, 1))[:k]
        R = gf2.serial_crc_step([f ^ 1 for f in reversed(Tof(xv))], dv, poly, n)     # R = rev(~out)
        want = gf2.crc_field(R)
        got = Tof(F)
        gkey = '%s.step-%dbit<-%s' % (clsname, k, dname)
        bad = [i for i in range(n) if got[i] != want[i]]
        ctx.ob('C30.step', gkey, len(F) == n and not bad, a.loc,
               'the %d-bit update differs from the bit-serial definition (poly %#x) in output bits %s; e.g. bit %s is '
               '%s, must be %s' % (k, poly, bad[:6], bad[:1], vs.describe(got[bad[0]])[:160] if bad else '-',
                                   vs.describe(want[bad[0]])[:160] if bad else '-'))
        found.setdefault(k, []).append(a)
        # clear has priority over every step
        # (either the step is excluded by the clear condition -- If(clear)/Elif(step) -- or the clear is a later
        #  assignment with nothing but its own condition, which wins under last-assignment-wins)
        catoms = q.atoms(clears[0]) if clears else set()
        from ..fsm import lit_atoms as _la, assignments as _asgs, holds as _holds
        ok = bool(catoms) and (clears[0].order > a.order and clears[0].state == a.state and clears[0].domain == a.domain)
        if catoms and not ok:
            # no valuation of the conditions lets the step and the clear fire together
            ats_ = sorted({x for it in (clears[0], a) for l in it.guard for x in _la(l)})
            ok = clears[0].state == a.state and len(ats_) <= 12 and \
                not any(_holds(clears[0].guard, g) and _holds(a.guard, g) for g in _asgs(ats_))
        ctx.ob('C30.clear-priority', gkey, ok, a.loc, 'the update must be excluded by the clear condition')
    have = sorted(k for k, v in found.items() for _ in v)
    ctx.ob('C30.steps-present', clsname + '.variants', have == sorted(steps_expected), None,
           'update variants found for data widths %s, expected %s' % (have, sorted(steps_expected)))
    return ir, found


def check_restart_sites(ctx):
    """The USB2 data CRC16 unit is SHARED (USBDataPacketCRC.add_interface OR-joins every user's `start`, and start wins
    over a data byte): a user may restart it only before the first payload byte of a packet, i.e. in the state its FSM
    enters from idle (the PID state).  A restart anywhere later -- for instance when ONE user gives up on a long packet --
    clears the CRC under every other user that is still receiving the same packet."""
    for cls_ in ('USBDataPacketReceiver', 'USBDataPacketDeserializer'):
        ir_ = ctx.ir(cls_, 'usb2.packet')
        fsm_ = ctx.the_fsm(ir_)
        pid_states = {e.dst for e in fsm_.out_edges(fsm_.init) if e.dst != fsm_.init}
        sites = q.raises(ir_, 'self.data_crc.start')
        ctx.need(sites, '%s restarts its CRC somewhere' % cls_)
        def in_pid(a):
            if q.state_of(a) in pid_states:
                return True
            # written at module level but qualified with fsm.ongoing(<PID state>)
            return any(p and x in ('ongoing(%s:%s)' % (fsm_.id, st_) for st_ in pid_states) for x, p in q.atoms(a))
        bad = [a for a in sites if not in_pid(a)]
        ctx.ob('C30.crc16-restart-site', cls_ + '.data_crc.start', not bad, (bad[0] if bad else sites[0]).loc,
               'the shared CRC16 may be restarted only in the state entered from idle (%s), before the first payload byte: %s' % (
                   sorted(pid_states), [q.fmt(a) for a in bad]))


def run(ctx):
    validate_reference(ctx)
    check_restart_sites(ctx)
    # ---- CRC5 functions
    ir2 = ctx.ir('USBTokenDetector', 'usb2.packet')
    ip = ir2.interp
    from ..hdl import class_attr, getattr_
    from ..values import ClassRef
    cls = ctx.index.find_class('USBTokenDetector', 'usb2.packet')
    m = ctx.func('USBTokenDetector', '_generate_crc_for_token', 'usb2.packet')
    fn = FuncRef(m[1], m[0].mod, cls=m[0], name='_generate_crc_for_token')
    check_function(ctx, 'USBTokenDetector._generate_crc_for_token', fn, ip, 11)
    mod3 = ctx.index.find_class('HeaderPacketCRC', 'usb3.link.crc').mod
    ctx.need('compute_usb_crc5' in mod3.funcs, 'compute_usb_crc5')
    ctx.files.add(mod3.relpath)
    fn3 = FuncRef(mod3.funcs['compute_usb_crc5'], mod3, name='compute_usb_crc5')
    check_function(ctx, 'usb3.compute_usb_crc5', fn3, ip, 11)
    # ---- CRC5 use sites
    fsm = ctx.the_fsm(ir2)
    site = [l for e in fsm.edges for l in e.guard if l.pos and isinstance(l.e, E) and l.e.op == '==' and
            any(x.op == 'cat' and len(x.args) == 5 for x in l.e.args)]
    ctx.need(site, 'token CRC5 comparison site')
    l = site[0]
    comp = [x for x in l.e.args if x.op == 'cat'][0]
    other = [x for x in l.e.args if x is not comp][0]
    check_site(ctx, 'USBTokenDetector.crc-compare', comp, [('token_data', 0, 8, 11), ('self.utmi.rx_data', 0, 3, 8)], None)
    ctx.ob('C30.crc5-site', 'USBTokenDetector.crc-field', other.canon() == 'self.utmi.rx_data[3:8]', None,
           'the computed CRC5 is compared with rx_data[3:8] (found %s)' % other.canon())
    def site_assign(cls_, mod_, lhs, sig, w, lo, hi, key):
        irx = ctx.ir(cls_, mod_, allow_opaque=True)

        def drivers_of(irx_, site):
            """what drives each message bit of the word being assembled, in the state / under the guard of `site`"""
            out = {}
            for i in range(lo, hi):
                bd_ = [(a_, ex) for a_, ex in q.bits_drivers(irx_, sig, i, i + 1)
                       if a_.state == site.state and q.atoms(a_) == q.atoms(site)]
                if len(bd_) != 1 or bd_[0][1] is None:
                    return None
                out[(sig, i)] = bd_[0][1]
            return out
        if lhs is None:
            # by role: the local 5-bit register computed (not merely sliced) from the header word
            ds = [a for a in irx.assigns if isinstance(a.lhs, E) and a.lhs.op == 'sig' and isinstance(a.rhs, E) and
                  getattr(irx.signals.get(a.lhs.canon()), 'w', None) == 5 and a.rhs.sigs() == {sig} and a.rhs.op != 'slice'
                  and not a.lhs.canon().startswith('self.')]
            lhs = 'the local 5-bit register computed from ' + sig
        else:
            ds = [a for a in irx.assigns if a.lhs.canon() == lhs]
            if not ds and lhs.endswith(']') and '[' in lhs:
                # the bit range may be written as part of a wider assignment (`x.eq(Cat(...))`): take the expression driving it
                import re as _re
                mm = _re.match(r'(.*)\[(\d+):(\d+)\]$', lhs)
                bd = [(a, ex) for a, ex in q.bits_drivers(irx, mm.group(1), int(mm.group(2)), int(mm.group(3)))
                      if ex is not None and ex.op not in ('const', 'sig', 'slice')]       # the computed field, not a constant word / copy
                ctx.need(bd, '%s assignment to %s' % (cls_, lhs))
                check_site(ctx, key, bd[0][1], [(sig, lo, hi, w)], bd[0][0].loc, driven_by=drivers_of(irx, bd[0][0]))
                return irx
        ctx.need(ds, '%s assignment to %s' % (cls_, lhs))
        for a in ds[:1]:
            check_site(ctx, key, a.rhs, [(sig, lo, hi, w)], a.loc, driven_by=drivers_of(irx, a) if lhs.startswith(sig) else None)
        return irx
    site_assign('RawPacketTransmitter', 'usb3.link.transmitter', 'self.source.payload[27:32]', 'self.source.payload', 32, 16, 27,
                'RawPacketTransmitter.dw3-crc5')
    for cls_, mod_ in (('RawHeaderPacketReceiver', 'usb3.link.receiver'), ('DataPacketReceiver', 'usb3.link.data')):
        irx = site_assign(cls_, mod_, None, 'self.sink.payload', 32, 16, 27, cls_ + '.dw3-crc5')
        fld = [a for a in irx.assigns if a.lhs.canon().endswith('.crc5') and a.rhs.canon() == 'self.sink.payload[27:32]']
        ctx.ob('C30.crc5-site', cls_ + '.crc5-field', len(fld) >= 1, fld[0].loc if fld else None,
               'the received CRC5 field is bits 27..31 of DW3')
    lcg = ctx.ir('LinkCommandGenerator', 'usb3.link.command', allow_opaque=True)
    if lcg.drivers('link_command'):
        site_assign('LinkCommandGenerator', 'usb3.link.command', 'link_command[11:16]', 'link_command', 16, 0, 11, 'LinkCommandGenerator.crc5')
    else:
        # no named command word: the word is what is put onto the low half of the output stream
        site_assign('LinkCommandGenerator', 'usb3.link.command', 'self.source.payload[11:16]', 'self.source.payload', 32, 0, 11,
                    'LinkCommandGenerator.crc5')
    det = ctx.ir('LinkCommandDetector', 'usb3.link.command')
    lits = [l for a in list(det.assigns) + [e for f in det.fsms for e in f.edges] for l in a.guard
            if isinstance(l.e, E) and l.e.op == '==' and any(x.op == 'cat' and len(x.args) == 5 for x in l.e.args)]
    if not lits:
        # the comparison may be folded into a conjunction inside one literal / rhs
        cands = []
        for a in det.assigns:
            for ex in ([a.rhs] if isinstance(a.rhs, E) else []) + [l.e for l in a.guard if isinstance(l.e, E)]:
                for node in ex.walk():
                    if node.op == '==' and any(x.op == 'cat' and len(x.args) == 5 for x in node.args):
                        cands.append(node)
        for f in det.fsms:
            for e in f.edges:
                for l in e.guard:
                    if isinstance(l.e, E):
                        for node in l.e.walk():
                            if node.op == '==' and any(x.op == 'cat' and len(x.args) == 5 for x in node.args):
                                cands.append(node)
        ctx.need(cands, 'link command detector CRC5 comparison')
        node = cands[0]
    else:
        node = lits[0].e
    comp = [x for x in node.args if x.op == 'cat'][0]
    other = [x for x in node.args if x is not comp][0]
    wname = sorted(comp.sigs())[0]
    check_site(ctx, 'LinkCommandDetector.crc5', comp, [(wname, 0, 11, 16)], None)
    ctx.ob('C30.crc5-site', 'LinkCommandDetector.crc5-field', other.canon() == wname + '[11:16]', None,
           'the computed CRC5 is compared with bits 11..15 of the command word (found %s)' % other.canon())
    # ---- register CRCs
    ir16, st = check_register_crc(ctx, 'USBDataPacketCRC', 'usb2.packet', 16, 0x8005, [8, 8])
    ctx.need(st.get(8) and all(isinstance(a.lhs, E) and a.lhs.op == 'sig' for a in st[8]), 'byte updates of the USB2 CRC16 register')
    RUN = st[8][0].lhs.canon()                                  # the running CRC register (whatever it is called)
    # which byte is absorbed, for every valuation of the two valid strobes (exact: last assignment wins, a Mux that selects
    # the byte is resolved by the valuation): rx_data under rx_valid, else tx_data under tx_valid, else nothing
    from ..fsm import holds, eval_bool, lit_atoms
    clr_atoms = {x for a_ in ir16.drivers(RUN, exact=True) if a_.rhs.op == 'const' for x, p_ in q.atoms(a_) if p_}
    for rxv in (False, True):
        for txv in (False, True):
            asg = {'self.rx_valid': rxv, 'self.tx_valid': txv}
            asg.update({x: False for x in clr_atoms})
            src, site = None, None
            for a_, rhs_, pick_ in sorted(ir16.crc_step_cases, key=lambda t: t[0].order):
                if not holds(a_.guard, asg):
                    continue
                if any(bool(eval_bool(ce, asg)) != v_ for ce, v_ in pick_.values()):
                    continue
                d_ = sorted(rhs_.sigs() - {RUN})
                src, site = (d_[0] if len(d_) == 1 else tuple(d_)), a_
            want_src = 'self.rx_data' if rxv else ('self.tx_data' if txv else None)
            ctx.ob('C30.data-input', 'USBDataPacketCRC.byte-source[rx_valid=%d,tx_valid=%d]' % (rxv, txv), src == want_src,
                   site.loc if site is not None else None,
                   'with rx_valid=%d tx_valid=%d the running CRC must absorb %s, it absorbs %s' % (rxv, txv, want_src or 'nothing', src or 'nothing'))
    check_register_crc(ctx, 'HeaderPacketCRC', 'usb3.link.crc', 16, 0x100B, [32])
    ir32, st32 = check_register_crc(ctx, 'DataPacketPayloadCRC', 'usb3.link.crc', 32, 0x04C11DB7, [32, 24, 16, 8])
    sel = {32: 'self.advance_word', 24: 'self.advance_3B', 16: 'self.advance_2B', 8: 'self.advance_1B'}
    for k, alist in st32.items():
        for a in alist:
            ctx.ob('C30.advance-select', 'DataPacketPayloadCRC.%dbit' % k, q.has(a, sel[k]), a.loc,
                   'the %d-bit update must be selected by %s: %s' % (k, sel[k], sorted(q.atoms(a))))
    # the partial-word outputs use the same output transform
    for k, nm in ((24, '3B'), (16, '2B'), (8, '1B')):
        o = [a for a in ir32.assigns if a.lhs.canon() == 'self.next_crc_' + nm]
        ok = len(o) == 1 and o[0].rhs.op == '~' and o[0].rhs.args[0].op == 'rev' and o[0].rhs.args[0].args[0].canon() == 'next_crc_' + nm
        ctx.ob('C30.partial-output', 'DataPacketPayloadCRC.next_crc_' + nm, ok, o[0].loc if o else None,
               'the look-ahead CRC outputs use the same complement-and-reverse transform')
