"""C31 -- SuperSpeed scrambling uses the USB3 LFSR and descrambling inverts it."""
from ..ir import E, AnalysisError
from .. import q, gf2

TITLE = 'USB3 scrambler LFSR'
FLOOR = 20
TECHNIQUE = ('static analysis: GF(2) affine dataflow over the extracted LFSR equations compared with the x^16+x^5+x^4+x^3+1 '
             'Galois LFSR advanced symbolically; guard/driver rules for advance, clear and per-symbol XOR')
DECIDES = ('(a) ScramblerLFSR: as affine maps over the 16 state bits, `value` equals the next 32 keystream bits (bit k = '
           'output of step k, output = state bit 15, step = shift left and XOR 0x0039 on carry: USB 3.2 appendix B) and '
           '`next_value` equals the state after 32 steps -- for all 2^16 states; reset value and clear value are the '
           'constructor\'s initial value, clear beats advance; (b) Scrambler: the LFSR advances exactly under sink.valid & '
           'source.ready & ~hold and is cleared by clear | (COM in symbol 0 of a valid word); symbol i is XORed with '
           'keystream byte i under enable & ~ctrl[i] and passed through otherwise; ctrl/valid/ready pass through; '
           'Descrambler is the same datapath; (c) physical layer: transmit scrambler built with 0xFFFF, descrambler default '
           '0xFFFF, scrambler.hold <- tx_ctc.sending_skip, both enables from enable_scrambling. Equal maps + equal start '
           'state + advance only on transferred words give descramble(scramble(x)) = x. '
           'The COM restart is conditioned on the transfer of the COM word (source.ready), so a stalled COM word is transferred as an unstalled one. ')
NOT_DECIDED = 'alignment of the two LFSRs across the real link (depends on COM placement in the traffic).'
POLY = 0x0039
COM = 0xBC


def galois(S):
    out = S[15]
    S2 = [0] + S[:15]
    for i in range(16):
        if (POLY >> i) & 1:
            S2[i] ^= out
    return out, S2


def run(ctx):
    ir = ctx.ir('ScramblerLFSR', 'usb3.physical.scrambling')
    vs = gf2.Vars()
    val = q.merged_drivers(ir, 'self.value')          # written whole or in slices under one guard
    ctx.need(len(val) == 1 and not val[0].guard, 'ScramblerLFSR.value driver')
    regs = sorted(val[0].rhs.sigs())
    ctx.need(len(regs) == 1, 'LFSR state register')
    X = regs[0]
    si = ir.signals[X]
    ctx.ob('C31.lfsr', 'ScramblerLFSR.state-width', si.w == 16, si.loc, 'LFSR state is 16 bits (found %s)' % si.w)
    S = vs.vec(X, 16)
    ks = []
    for _ in range(32):
        o, S = galois(S)
        ks.append(o)
    try:
        got_v = gf2.forms(val[0].rhs, vs)
    except gf2.NotAffine as ex:
        raise AnalysisError('ScramblerLFSR.value is not a pure XOR network: %s' % ex)
    bad = [i for i in range(32) if i >= len(got_v) or got_v[i] != ks[i]]
    ctx.ob('C31.keystream', 'ScramblerLFSR.value', len(got_v) == 32 and not bad, val[0].loc,
           'keystream bits %s differ from the x^16+x^5+x^4+x^3+1 LFSR; e.g. bit %s is %s, must be %s' % (
               bad[:8], bad[:1], vs.describe(got_v[bad[0]]) if bad and bad[0] < len(got_v) else '-', vs.describe(ks[bad[0]]) if bad else '-'))
    adv = [a for a in ir.drivers(X, exact=True) if a.rhs.op != 'const']
    clr = [a for a in ir.drivers(X, exact=True) if a.rhs.op == 'const']
    ctx.need(len(adv) == 1 and len(clr) == 1, 'LFSR advance / clear assignments')
    nxt = adv[0].rhs
    if nxt.op == 'sig' and q.comb_def(ir, nxt.args[0].name) is not None:
        nxt = q.comb_def(ir, nxt.args[0].name)
    try:
        got_n = gf2.forms(nxt, vs)
    except gf2.NotAffine as ex:
        raise AnalysisError('ScramblerLFSR next state is not a pure XOR network: %s' % ex)
    bad = [i for i in range(16) if i >= len(got_n) or got_n[i] != S[i]]
    ctx.ob('C31.next-state', 'ScramblerLFSR.next_value', len(got_n) == 16 and not bad, adv[0].loc,
           'next state bits %s differ from the LFSR advanced by 32 steps; e.g. bit %s is %s, must be %s' % (
               bad[:8], bad[:1], vs.describe(got_n[bad[0]]) if bad and bad[0] < len(got_n) else '-', vs.describe(S[bad[0]]) if bad else '-'))
    # who writes the state for each valuation of (clear, advance), last assignment wins: clear -> the constant, advance
    # without clear -> the next-state network, neither -> nothing (If/Elif, separate Ifs or one If with a Mux alike)
    from ..fsm import lit_atoms, assignments, holds
    both = sorted(adv + clr, key=lambda a: a.order)
    ats = sorted({x for a in both for l in a.guard for x in lit_atoms(l)})
    okc = oka = set(ats) == {'self.clear', 'self.advance'}
    if okc:
        for asg in assignments(ats):
            fire = [a for a in both if holds(a.guard, asg)]
            last = fire[-1] if fire else None
            if asg['self.clear']:
                okc = okc and last is clr[0]
            elif asg['self.advance']:
                oka = oka and last is adv[0]
            else:
                oka = oka and last is None
    ctx.ob('C31.lfsr-control', 'ScramblerLFSR.clear', okc and clr[0].rhs.val == si.init == 0xFFFF,
           clr[0].loc, 'clear reloads the initial value (default 0xFFFF) and wins: clear=%s init=%s' % (clr[0].rhs.val, si.init))
    ctx.ob('C31.lfsr-control', 'ScramblerLFSR.advance', oka, adv[0].loc,
           'the state advances under advance unless cleared, and holds otherwise: %s' % sorted(q.atoms(adv[0])))
    irx = ctx.ir('ScramblerLFSR', 'usb3.physical.scrambling', initial_value=0x1234)
    c2 = [a for a in irx.drivers(X, exact=True) if a.rhs.op == 'const']
    ctx.ob('C31.lfsr-control', 'ScramblerLFSR.initial-value-param', len(c2) == 1 and c2[0].rhs.val == 0x1234 and irx.signals[X].init == 0x1234,
           None, 'the constructor initial value is used for reset and clear')
    # ---- scrambler datapath
    for cls in ('Scrambler', 'Descrambler'):
        s = ctx.ir(cls, 'usb3.physical.scrambling')
        a = s.drivers('lfsr.advance', exact=True)
        ok = len(a) == 1 and q.conj(a[0].rhs) == {('self.sink.valid', True), ('self.source.ready', True), ('self.hold', False)} and \
            not a[0].guard
        ctx.ob('C31.advance', cls + '.lfsr.advance', ok, a[0].loc if a else None,
               'keystream advances only when a word is transferred and not held: %s' % [q.fmt(x) for x in a])
        c = s.drivers('lfsr.clear', exact=True)
        com = {('self.sink.ctrl[0:1]', True), ('%d == self.sink.payload[0:8]' % COM, True), ('self.sink.valid', True)}
        got = sorted(sorted(d) for d in q.dnf(c[0].rhs)) if len(c) == 1 else None
        arms = [set(d) for d in (got or [])]
        com_arms = [d for d in arms if com <= d]
        ok = len(c) == 1 and not c[0].guard and len(arms) == 2 and [('self.clear', True)] in got and len(com_arms) == 1
        ctx.ob('C31.clear', cls + '.lfsr.clear', ok, c[0].loc if c else None,
               'keystream restarts on clear or on a COM (K28.5) in symbol 0 of a valid word: %s' % [x.rhs.canon() for x in c])
        # the restart belongs to the transfer of the COM word: restarting while the word still waits for source.ready
        # scrambles its remaining data symbols with the restarted sequence, so the transferred word depends on the stall
        extra = (com_arms[0] - com) if com_arms else None
        ctx.ob('C31.clear', cls + '.lfsr.clear-on-transfer', extra == {('self.source.ready', True)}, c[0].loc if c else None,
               'the COM restart must be conditioned on the transfer of that word (source.ready) and on nothing else: extra '
               'conditions %s' % (sorted(extra) if extra is not None else None))
        # what each output byte is, as a GF(2) function of (keystream, input word), for EVERY valuation of (enable, the four
        # K flags): the last driver whose guard holds decides; If/Else per byte, a pass-through default with an override, a
        # Mux, and `data ^ (keystream & mask)` with a mask built from the flags are one function
        from ..fsm import lit_atoms, assignments, holds
        from .. import gf2 as _g
        ctrls = ['self.sink.ctrl[%d:%d]' % (i, i + 1) for i in range(4)]
        bad = {}
        sym_loc = None
        for asg in assignments(sorted(['self.enable'] + ctrls)):
            vs_ = _g.Vars()
            kv, dv = vs_.vec('lfsr.value', 32), vs_.vec('self.sink.payload', 32)
            sub = {'self.enable': [int(asg['self.enable'])], 'self.sink.ctrl': [int(asg[c_]) for c_ in ctrls],
                   'lfsr.value': kv, 'self.sink.payload': dv}

            def local_forms(name, seen=()):
                """forms of a combinational local written without conditions (whole or slice by slice)"""
                si_ = s.signals.get(name)
                w_ = si_.w if si_ is not None and isinstance(si_.w, int) else None
                if w_ is None or name in seen:
                    raise _g.NotAffine('local %s' % name)
                out_ = [0] * w_
                for a_ in sorted(s.drivers(name), key=lambda t: t.order):
                    if a_.domain != 'comb' or a_.state is not None or not holds(a_.guard, asg, default=False):
                        if a_.guard and not holds(a_.guard, asg, default=True):
                            continue
                        if a_.domain != 'comb' or a_.state is not None:
                            raise _g.NotAffine('local %s is not purely combinational' % name)
                    f_ = expr_forms(a_.rhs, seen + (name,))
                    l_ = a_.lhs
                    lo_, hi_ = (l_.args[1], l_.args[2]) if l_.op == 'slice' else (0, w_)
                    f_ = (list(f_) + [0] * (hi_ - lo_))[:hi_ - lo_]
                    out_[lo_:hi_] = f_
                return out_

            def expr_forms(ex, seen=()):
                sub2 = dict(sub)
                for nm in sorted(ex.sigs()):
                    if nm not in sub2 and not nm.startswith('self.') and '.' not in nm:
                        sub2[nm] = local_forms(nm, seen)
                return _g.forms(ex, vs_, None, sub2)
            for i in range(4):
                lo, hi = 8 * i, 8 * i + 8
                bdv = sorted(q.bits_drivers(s, 'self.source.payload', lo, hi), key=lambda t: t[0].order)
                sym_loc = sym_loc or (bdv[0][0].loc if bdv else None)
                win = [ex for a_, ex in bdv if holds(a_.guard, asg, default=False)]
                want = [k_ ^ d_ for k_, d_ in zip(kv[lo:hi], dv[lo:hi])] if (asg['self.enable'] and not asg[ctrls[i]]) else dv[lo:hi]
                try:
                    got = expr_forms(win[-1]) if win and win[-1] is not None else None
                except _g.NotAffine as ex_:
                    got = 'not a XOR network under this valuation: %s' % ex_
                if got != want and i not in bad:
                    bad[i] = (dict(asg), vs_.describe(got[0]) if isinstance(got, list) and got else got)
        for i in range(4):
            ctx.ob('C31.symbol-xor', '%s.symbol%d' % (cls, i), i not in bad, sym_loc,
                   'symbol %d: data XOR keystream byte %d under enable & ~ctrl[%d], unchanged otherwise: %s' % (
                       i, i, i, ('with %s bit 0 of the symbol is %s' % bad[i]) if i in bad else 'holds for all 32 valuations of (enable, K flags)'))
        for lhs, rhs in (('self.source.ctrl', 'self.sink.ctrl'), ('self.source.valid', 'self.sink.valid'), ('self.sink.ready', 'self.source.ready')):
            d = s.drivers(lhs, exact=True)
            ctx.ob('C31.passthrough', '%s.%s' % (cls, lhs), len(d) == 1 and d[0].rhs.canon() == rhs and not d[0].guard, d[0].loc if d else None,
                   '%s <= %s' % (lhs, rhs))
        sub = [x for x in s.submodules if x.name == 'lfsr']
        iv = sub[0].obj.kwargs.get('initial_value') if sub else None
        ctx.ob('C31.init', cls + '.lfsr.initial_value', bool(sub) and sub[0].obj.clsname == 'ScramblerLFSR' and
               (iv == 0xFFFF if cls == 'Descrambler' else iv is not None), sub[0].loc if sub else None,
               'the LFSR is built with the %s initial value (%r)' % (cls, iv))
    # ---- physical layer
    pl = ctx.ir('USB3PhysicalLayer', 'usb3.physical.layer', allow_opaque=True)
    sub = {x.name: x for x in pl.submodules}
    sc, ds = sub.get('scrambler'), sub.get('descrambler')
    ctx.ob('C31.layer', 'USB3PhysicalLayer.scrambler.init', sc is not None and sc.obj.clsname == 'Scrambler' and
           sc.obj.kwargs.get('initial_value') == 0xFFFF, sc.loc if sc else None, 'transmit scrambler starts from 0xFFFF')
    ctx.ob('C31.layer', 'USB3PhysicalLayer.descrambler.init', ds is not None and ds.obj.clsname == 'Descrambler' and
           ds.obj.kwargs.get('initial_value', 0xFFFF) == 0xFFFF, ds.loc if ds else None, 'descrambler starts from 0xFFFF')
    # the descrambler works in the word frame the COM aligner established (keystream byte 4n+i belongs to lane i of word n
    # after the COM): it is fed by the word aligner, and whatever re-aligns packets by symbols comes after it
    wa = [x for x in pl.submodules if x.obj.clsname == 'RxWordAligner']
    for f_ in ('payload', 'ctrl', 'valid'):
        d = pl.drivers('descrambler.sink.' + f_, exact=True)
        src = d[0].rhs.canon() if len(d) == 1 and isinstance(d[0].rhs, E) and not d[0].guard else None
        ctx.ob('C31.layer', 'USB3PhysicalLayer.descrambler.sink.' + f_, len(wa) == 1 and src == '%s.source.%s' % (wa[0].name, f_),
               d[0].loc if d else None, 'the descrambler must be fed by the word aligner (RxWordAligner) directly, before any '
               'symbol-wise re-alignment: descrambler.sink.%s <= %s' % (f_, src))
    for lhs, rhs in (('scrambler.hold', 'tx_ctc.sending_skip'), ('scrambler.enable', 'self.enable_scrambling'),
                     ('descrambler.enable', 'self.enable_scrambling'), ('tx_ctc.sink.payload', 'scrambler.source.payload'),
                     ('tx_ctc.sink.ctrl', 'scrambler.source.ctrl'), ('scrambler.source.ready', 'tx_ctc.sink.ready')):
        d = pl.drivers(lhs, exact=True)
        ctx.ob('C31.layer', 'USB3PhysicalLayer.' + lhs, len(d) == 1 and d[0].rhs.canon() == rhs and not d[0].guard, d[0].loc if d else None,
               '%s <= %s: %s' % (lhs, rhs, [q.fmt(x) for x in d]))
