#!/venv/bin/python
"""kf.py fixed <prop> <key> <commit> <what>   |   kf.py open <prop> <key> <what>"""
import json, sys, os
p = os.path.join(os.path.dirname(os.path.dirname(os.path.abspath(__file__))), 'known_findings.json')
k = json.load(open(p))
kind, prop, key = sys.argv[1:4]
if kind == 'fixed':
    commit, what = sys.argv[4], sys.argv[5]
    k['fixed'].append({'property': prop, 'key': key, 'commit': commit, 'line': 'fixed: property=%s %s %s' % (prop, commit, what)})
else:
    what = sys.argv[4]
    k['open'].append({'property': prop, 'key': key, 'what': what})
json.dump(k, open(p, 'w'), indent=1)
