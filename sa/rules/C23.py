"""C23 -- ULPI transmit translation delivers the UTMI packet unchanged.

ULPITransmitTranslator is a two-role Mealy machine (the reset state = "idle", where the transmit command is presented,
and the "body" state, where bytes are passed through and the stop is generated) whose outputs are combinational
functions of (state, tx_valid, bus_idle, op_mode, ulpi_nxt, tx_data).  Every clause is therefore decided by *finite
evaluation* of the extracted guarded assignments and FSM edges (Amaranth: the last assignment / m.next whose guard holds
wins; an unassigned combinational signal is 0, an unassigned register holds) over all control inputs, all four op modes
and a set of byte values (all 256 in the thorough tier) -- not by comparing expression texts.  The wiring and the
data/stp/oe muxing of UTMITranslator are evaluated the same way on its own IR."""
import itertools

from ..ir import E
from .. import q

TITLE = 'ULPI transmit translation'
FLOOR = 36
DECIDES = ('On ULPITransmitTranslator, by evaluating the extracted assignments/edges for every combination of tx_valid, '
           'bus_idle, ulpi_nxt, op_mode (0..3) and a set of tx_data bytes: (a) the reset state is left exactly when '
           'tx_valid & bus_idle & ulpi_nxt, into the pass-through state; (b) while a start is requested the byte offered is '
           'TXCMD 0x40|tx_data[3:0] with tx_ready = nxt in normal mode and the bare NOPID 0x40 with tx_ready = 0 when bit '
           'stuffing is disabled (op_mode 2); for the other op modes the PID nibble is in the command iff the first byte is '
           'consumed; with tx_valid but no bus (or no request) the offered byte is the idle 0x00, tx_ready 0; STP is never '
           'raised in the reset state; (c) in the pass-through state ulpi_data_out = tx_data and tx_ready = nxt while '
           'tx_valid, whatever nxt/bus_idle/op_mode; STP = ~tx_valid exactly, with 0xFF on the bus in op_mode 2 and 0x00 in '
           'normal mode; the state is left exactly on ~tx_valid (NXT throttling never ends a packet); (d) the registered bus '
           'request is raised by a start request, kept during the packet and dropped with the stop and whenever the idle '
           'transmitter is not requesting; busy (the interlock of the register writer) covers every cycle in which the '
           'transmitter owns the bus with a non-idle byte; (e) widths: ulpi_data_out and tx_data are 8 bit, op_mode >= 2. '
           'On UTMITranslator: (f) data.oe is 0 whenever DIR is high and 1 when DIR is low and the transmitter owns the '
           'bus; (g) with the transmitter\'s request granted, data.o / stp.o are the transmitter\'s byte / stop for every '
           'value of the other mux inputs; (h) tx_data, tx_valid, nxt reach the transmitter and tx_ready comes back '
           'unmodified, and the transmitter sees the same op_mode that is written to the PHY; (i) the transmitter\'s '
           'bus_idle is false while DIR is high or the control translator is busy (and can be true otherwise). ')
NOT_DECIDED = ('the composition over time (that the byte sequence of a whole packet arrives in order is the conjunction of the '
               'per-cycle clauses above, not decided as a history property); PHY-initiated aborts (DIR rising inside a '
               'packet); the environment assumption that a compliant PHY keeps NXT low while the link drives idle, which is '
               'what makes the one-cycle latency of the registered bus request harmless (reported as a note).')

TX = 'ULPITransmitTranslator'
TOP = 'UTMITranslator'
HOLD = 'hold'
TXCMD = 0x40
NO_BIT_STUFFING = 2          # UTMI op_mode "disable bit stuffing and NRZI encoding"
NORMAL = 0


# ------------------------------------------------------------------------------------------------ finite evaluator
class Sim:
    """One-cycle evaluation of a ModuleIR on concrete values."""

    def __init__(self, ctx, ir, fsm=None, skip_cfg=False):
        self.ctx, self.ir, self.fsm, self.skip_cfg = ctx, ir, fsm, skip_cfg
        self.by = {}
        for a in sorted(ir.assigns, key=lambda a: a.order):
            for t in a.lhs_sigs():
                self.by.setdefault(t, []).append(a)

    # -- structure
    def domain(self, name):
        ds = {('comb' if a.domain == 'comb' else 'sync') for a in self.by.get(name, [])}
        self.ctx.need(len(ds) <= 1, '%s driven from one kind of domain only' % name)
        return ds.pop() if ds else None

    def width(self, e):
        if e.w is not None:
            return e.w
        if e.op == 'sig':
            si = self.ir.signals.get(e.args[0].name)
            return si.w if si is not None and si.w is not None else 1      # unknown-layout record field used as a flag
        if e.op in ('==', '!=', '<', '<=', '>', '>=', 'ongoing'):
            return 1
        if e.op in ('&', '|', '^', '~', 'rev'):
            return max(self.width(a) for a in e.args)
        if e.op == 'const':
            return max(1, int(e.val).bit_length())
        self.ctx.need(False, 'width of %s' % e.canon())

    def store(self, name, val):
        si = self.ir.signals.get(name)
        if si is not None and isinstance(si.w, int):
            val &= (1 << si.w) - 1
        return val

    # -- expressions
    def ev(self, e, env, state, memo):
        op = e.op
        if op == 'const':
            self.ctx.need(isinstance(e.val, int), 'integer constant %s' % e.canon())
            return e.val
        if op == 'sig':
            return self.sig(e.args[0].name, env, state, memo)
        if op == 'ongoing':
            self.ctx.need(self.fsm is not None and e.args[0] == self.fsm.id, 'ongoing() of the analysed FSM: %s' % e.canon())
            return int(e.args[1] == state)
        vals = [self.ev(a, env, state, memo) if isinstance(a, E) else a for a in e.args]
        if op == '&':
            r = vals[0]
            for v in vals[1:]:
                r &= v
            return r
        if op == '|':
            r = 0
            for v in vals:
                r |= v
            return r
        if op == '^':
            r = 0
            for v in vals:
                r ^= v
            return r
        if op == '+':
            return sum(vals)
        if op == '-' and len(vals) == 2:
            return vals[0] - vals[1]
        if op in ('==', '!=', '<', '<=', '>', '>=') and len(vals) == 2:
            a, b = vals
            return int({'==': a == b, '!=': a != b, '<': a < b, '<=': a <= b, '>': a > b, '>=': a >= b}[op])
        if op == '~':
            return ((1 << self.width(e.args[0])) - 1) & ~vals[0]
        if op == 'mux':
            return vals[1] if vals[0] else vals[2]
        if op == 'slice':
            lo, hi = e.args[1], e.args[2]
            self.ctx.need(isinstance(lo, int) and isinstance(hi, int), 'constant slice bounds: %s' % e.canon())
            return (vals[0] >> lo) & ((1 << (hi - lo)) - 1)
        if op == 'rev' and len(vals) == 1:
            w = self.width(e.args[0])
            return int(format(vals[0] & ((1 << w) - 1), '0%db' % w)[::-1], 2)
        if op == 'cat':
            r, sh = 0, 0
            for a, v in zip(e.args, vals):
                w = self.width(a)
                r |= (v & ((1 << w) - 1)) << sh
                sh += w
            return r
        self.ctx.need(False, 'expression form %r not evaluable: %s' % (op, e.canon()))

    def holds(self, item, env, state, memo):
        for l in item.guard:
            if l.kind == 'cfg':
                self.ctx.need(self.skip_cfg, 'guard decidable without configuration atoms: %s' % q.fmt(item))
                continue
            self.ctx.need(isinstance(l.e, E), 'guard literal %r' % (l,))
            if bool(self.ev(l.e, env, state, memo)) != l.pos:
                return False
        return True

    def active(self, a, state):
        return a.state is None or (self.fsm is not None and a.state == (self.fsm.id, state))

    def apply(self, name, cur, a, env, state, memo):
        v = self.ev(a.rhs, env, state, memo)
        lhs = a.lhs
        if lhs.op == 'sig':
            return self.store(name, v)
        self.ctx.need(lhs.op == 'slice' and lhs.args[0].op == 'sig' and isinstance(lhs.args[1], int) and
                      isinstance(lhs.args[2], int), 'assignment target is a signal or a constant slice of one: %s' % q.fmt(a))
        lo, hi = lhs.args[1], lhs.args[2]
        m = ((1 << (hi - lo)) - 1) << lo
        return self.store(name, (cur & ~m) | ((v << lo) & m))

    def sig(self, name, env, state, memo):
        """Value of a signal in this cycle (inputs and registers come from env; combinational ones are computed)."""
        if name in env:
            return env[name]
        if name in memo:
            self.ctx.need(memo[name] is not None, 'no combinational loop through %s' % name)
            return memo[name]
        self.ctx.need(self.domain(name) == 'comb', 'value of %s in the evaluated cycle (it is %s)' % (
            name, 'a register that the rule does not know' if name in self.by else 'an input that the rule does not know'))
        memo[name] = None
        si = self.ir.signals.get(name)
        val = si.init if si is not None and isinstance(si.init, int) else 0
        win = None
        for a in self.by[name]:
            if self.active(a, state) and self.holds(a, env, state, memo):
                val, win = self.apply(name, val, a, env, state, memo), a
        memo[name] = val
        memo[('win', name)] = win
        return val

    def comb(self, name, env, state):
        memo = {}
        v = self.sig(name, env, state, memo)
        return v, memo.get(('win', name))

    def nxt(self, name, env, state):
        """Next value of a register: (value | HOLD, winning assignment)."""
        self.ctx.need(self.domain(name) == 'sync', '%s is a register' % name)
        memo, val, win = {}, HOLD, None
        for a in self.by[name]:
            if self.active(a, state) and self.holds(a, env, state, memo):
                val, win = self.apply(name, 0 if val == HOLD else val, a, env, state, memo), a
                self.ctx.need(a.lhs.op == 'sig', 'whole-register assignment: %s' % q.fmt(a))
        return val, win

    def next_state(self, env, state):
        memo, dst, win = {}, state, None
        for e in sorted(self.fsm.out_edges(state), key=lambda e: e.order):
            if self.holds(e, env, state, memo):
                dst, win = e.dst, e
        return dst, win

    def inputs_of(self, names):
        """Signals (transitively through combinational definitions) that the given signals depend on and that are not
        combinationally driven themselves."""
        seen, work, out = set(), list(names), set()
        while work:
            s = work.pop()
            if s in seen:
                continue
            seen.add(s)
            ds = self.by.get(s, [])
            if not ds or any(a.domain != 'comb' for a in ds):
                out.add(s)
                continue
            for a in ds:
                if isinstance(a.rhs, E):
                    work.extend(a.rhs.sigs())
                for l in a.guard:
                    if l.kind != 'cfg' and isinstance(l.e, E):
                        work.extend(l.e.sigs())
        return out


class Tally:
    """Collects the first counterexample of one obligation over many evaluated cases."""

    def __init__(self):
        self.n, self.bad, self.loc = 0, None, None

    def check(self, ok, case, got, want, win=None):
        self.n += 1
        if not ok and self.bad is None:
            self.bad = 'in case {%s} got %s, required %s%s' % (case, got, want, (' (decided by: %s)' % q.fmt(win)) if win is not None else
                                                              ' (no assignment applies)')
            self.loc = win.loc if win is not None else None


def hx(v):
    return v if v == HOLD else ('0x%02x' % v)


# ------------------------------------------------------------------------------------------------ the transmitter
def transmitter(ctx, top_claim):
    ir = ctx.ir(TX, 'interface.ulpi')
    fsm = ctx.the_fsm(ir)
    P = 'self.'
    V, B, M, N, D, G = P + 'tx_valid', P + 'bus_idle', P + 'op_mode', P + 'ulpi_nxt', P + 'tx_data', P + 'ulpi_out_req'
    OUT, RDY, STP, BUSY = P + 'ulpi_data_out', P + 'tx_ready', P + 'ulpi_stp', P + 'busy'
    for s_ in (V, B, M, N, D, G, OUT, RDY, STP, BUSY):
        ctx.need(s_ in ir.signals, 'port %s of %s' % (s_, TX))
    ctx.need(len(fsm.states) == 2 and fsm.init in fsm.states,
             'the transmitter is a two-state machine (command/idle state and pass-through state); found %s' % fsm.states)
    idle = fsm.init
    body = [s for s in fsm.states if s != idle][0]
    role = {idle: 'idle', body: 'body'}
    sim = Sim(ctx, ir, fsm)
    for s_ in (OUT, RDY, STP, BUSY):
        ctx.need(sim.domain(s_) == 'comb', '%s is a combinational output' % s_)
    ctx.need(sim.domain(G) == 'sync' and all(a.domain == fsm.domain for a in sim.by[G]),
             'ulpi_out_req is a register of the FSM clock domain')
    for s_ in (V, B, M, N, D):
        ctx.need(not ir.drivers(s_, exact=True), '%s is an undriven input' % s_)

    # (e) widths
    wd, wo, wm = ir.signals[D].w, ir.signals[OUT].w, ir.signals[M].w
    ctx.ob('C23.widths', TX + '.ulpi_data_out.width', wd == 8 and wo == 8, ir.signals[OUT].loc,
           'tx_data and ulpi_data_out must both be 8 bit wide (found %s and %s)' % (wd, wo))
    ctx.ob('C23.widths', TX + '.op_mode.width', isinstance(wm, int) and wm >= 2, ir.signals[M].loc,
           'op_mode must hold the UTMI operating modes 0..3 (width %s)' % wm)
    nmodes = 1 << wm if isinstance(wm, int) and 0 < wm <= 4 else 4

    if ctx.tier == 'thorough':
        datas = list(range(256))
    else:
        datas = sorted({0x00, 0xFF, 0xA5, 0x5A, 0x0F, 0xF0, 0xC3, 0x3C, 0x2D, 0xD2, 0x69, 0x96, 0xE1, 0x1E, 0x4B, 0xB4} |
                       {1 << i for i in range(8)} | {0xFF ^ (1 << i) for i in range(8)})

    T = {k: Tally() for k in (
        'start-v', 'start-b', 'start-n', 'start-go', 'cmd-pid', 'cmd-nopid', 'cmd-other', 'nop', 'idle-stp', 'rdy-pid', 'rdy-nopid',
        'rdy-nostart', 'body-data', 'body-rdy', 'body-stp', 'stop-normal', 'stop-nbs', 'body-next', 'req-start', 'req-body',
        'rel-stop', 'rel-idle', 'busy-body', 'claim-body', 'claim-cmd')}
    early_accept = None
    mode_kind = {NORMAL: 'pid', NO_BIT_STUFFING: 'nopid'}
    for m_ in range(nmodes):             # which kind of command do the unspecified modes use? (decided on a byte with PID nibble != 0)
        if m_ in mode_kind:
            continue
        v, _ = sim.comb(OUT, dict({n: (ir.signals[n].init or 0) for n in sim.by if n != G and sim.domain(n) == 'sync'}, **{V: 1, B: 1, M: m_, N: 0, D: 0xFF, G: 1}), idle)
        mode_kind[m_] = 'pid' if v == (TXCMD | 0xF) else 'nopid' if v == TXCMD else 'neither(0x%02x)' % v

    # registers of the transmitter other than the bus request: every value such a register can hold in the state (forward
    # dataflow over the FSM, sa/flow.py) is swept together with the inputs -- the stated behaviour must not depend on history
    from ..flow import reg_flow, TOP
    extra = sorted(n for n in sim.by if n != G and sim.domain(n) == 'sync')
    xvals = {}
    for n in extra:
        ctx.need(isinstance(ir.signals[n].w, int) and ir.signals[n].w <= 2, 'extra register %s of the transmitter is a small flag' % n)
        _, poss = reg_flow(ir, fsm, n)
        for st in (idle, body):
            ctx.need(TOP not in poss[st], 'values of register %s in state %s' % (n, st))
            xvals[(n, st)] = sorted(poss[st]) or [ir.signals[n].init or 0]
    sweep = []
    for st in (idle, body):
        for v_, b_, n_, g_ in itertools.product((0, 1), repeat=4):
            for m_ in range(nmodes):
                for d_ in datas:
                    for xv in itertools.product(*[xvals[(n, st)] for n in extra]):
                        sweep.append((st, v_, b_, n_, g_, m_, d_, dict(zip(extra, xv))))
    for st, v_, b_, n_, g_, m_, d_, xenv in sweep:
        if True:
            if True:
                if True:
                    env = {V: v_, B: b_, M: m_, N: n_, D: d_, G: g_}
                    env.update(xenv)
                    case = 'state=%s(%s) tx_valid=%d bus_idle=%d nxt=%d op_mode=%d tx_data=0x%02x out_req=%d%s' % (
                        st, role[st], v_, b_, n_, m_, d_, g_, ''.join(' %s=%d' % kv for kv in sorted(xenv.items())))
                    dst, ewin = sim.next_state(env, st)
                    ctx.need(dst in fsm.states, 'm.next target %r is a state' % (dst,))
                    out, owin = sim.comb(OUT, env, st)
                    rdy, rwin = sim.comb(RDY, env, st)
                    stp, swin = sim.comb(STP, env, st)
                    busy, bwin = sim.comb(BUSY, env, st)
                    req, qwin = sim.nxt(G, env, st)
                    if st == idle:
                        start = v_ and b_
                        # bus request (for both values of the current grant)
                        if start:
                            T['req-start'].check(req == 1, case, 'next ulpi_out_req=%s' % req, 1, qwin)
                        else:
                            T['rel-idle'].check(req == 0, case, 'next ulpi_out_req=%s' % req, 0, qwin)
                        if not g_:
                            if dst != idle and early_accept is None:
                                early_accept = case
                            continue      # command not on the bus yet: what happens is outside the stated property
                        # (a) start guard
                        if not v_:
                            T['start-v'].check(dst == idle, case, 'next state %s' % dst, idle, ewin)
                        if not b_:
                            T['start-b'].check(dst == idle, case, 'next state %s' % dst, idle, ewin)
                        if not n_:
                            T['start-n'].check(dst == idle, case, 'next state %s' % dst, idle, ewin)
                        if v_ and b_ and n_:
                            T['start-go'].check(dst == body, case, 'next state %s' % dst, body, ewin)
                        T['idle-stp'].check(stp == 0, case, 'ulpi_stp=%d' % stp, 0, swin)
                        if start:
                            kind = mode_kind[m_]
                            if m_ == NORMAL or (m_ != NO_BIT_STUFFING and kind == 'pid'):
                                t1, t2 = ('cmd-pid', 'rdy-pid') if m_ == NORMAL else ('cmd-other', 'cmd-other')
                                T[t1].check(out == (TXCMD | (d_ & 0xF)), case, 'ulpi_data_out=%s' % hx(out), hx(TXCMD | (d_ & 0xF)), owin)
                                T[t2].check(rdy == n_, case, 'tx_ready=%d' % rdy, 'nxt=%d' % n_, rwin)
                            elif m_ == NO_BIT_STUFFING or kind == 'nopid':
                                t1, t2 = ('cmd-nopid', 'rdy-nopid') if m_ == NO_BIT_STUFFING else ('cmd-other', 'cmd-other')
                                T[t1].check(out == TXCMD, case, 'ulpi_data_out=%s' % hx(out), hx(TXCMD) + ' (NOPID)', owin)
                                T[t2].check(rdy == 0, case, 'tx_ready=%d' % rdy, '0 (the first byte follows the NOPID command as data)', rwin)
                            else:
                                T['cmd-other'].check(False, case, 'ulpi_data_out=%s' % hx(out), 'a TXCMD with or without the PID nibble', owin)
                            if out != 0:
                                T['claim-cmd'].check(top_claim(busy, v_, b_), case, 'busy=%d while ulpi_data_out=%s owns the bus and '
                                                     'control_translator.bus_idle can be 1' % (busy, hx(out)),
                                                     'the register writer to be locked out', bwin)
                        else:
                            T['nop'].check(out == 0, case, 'ulpi_data_out=%s' % hx(out), '0x00 (ULPI idle)', owin)
                            if v_:
                                T['rdy-nostart'].check(rdy == 0, case, 'tx_ready=%d' % rdy, 0, rwin)
                    else:
                        if v_:
                            T['body-data'].check(out == d_, case, 'ulpi_data_out=%s' % hx(out), 'tx_data', owin)
                            T['body-rdy'].check(rdy == n_, case, 'tx_ready=%d' % rdy, 'nxt=%d' % n_, rwin)
                            T['req-body'].check(req in (1, HOLD), case, 'next ulpi_out_req=%s' % req, '1 or hold', qwin)
                        else:
                            if m_ == NORMAL:
                                T['stop-normal'].check(out == 0x00, case, 'ulpi_data_out=%s' % hx(out), '0x00 with STP (normal end of packet)', owin)
                            if m_ == NO_BIT_STUFFING:
                                T['stop-nbs'].check(out == 0xFF, case, 'ulpi_data_out=%s' % hx(out), '0xFF with STP (forces a bit-stuff error)', owin)
                            T['rel-stop'].check(req == 0, case, 'next ulpi_out_req=%s' % req, 0, qwin)
                        T['body-stp'].check(stp == (0 if v_ else 1), case, 'ulpi_stp=%d' % stp, '~tx_valid', swin)
                        T['body-next'].check(dst == (body if v_ else idle), case, 'next state %s' % dst, body if v_ else idle, ewin)
                        T['busy-body'].check(busy == 1, case, 'busy=%d' % busy, 1, bwin)
                        T['claim-body'].check(top_claim(busy, v_, b_), case, 'busy=%d and control_translator.bus_idle can be 1' % busy,
                                              'the register writer to be locked out', bwin)

    sl = fsm.state_loc
    obs = [
        ('C23.start-guard', 'idle.start-needs-tx_valid', 'start-v', sl[idle], 'the command state must not be left without tx_valid'),
        ('C23.start-guard', 'idle.start-needs-bus_idle', 'start-b', sl[idle], 'a transmission must not start while the bus is not idle'),
        ('C23.start-guard', 'idle.start-needs-nxt', 'start-n', sl[idle], 'the command byte is only done when the PHY accepts it (NXT)'),
        ('C23.start-guard', 'idle.start-when-accepted', 'start-go', sl[idle], 'when the PHY accepts the command the next cycle must carry data'),
        ('C23.txcmd', 'idle.ulpi_data_out[normal]', 'cmd-pid', sl[idle], 'normal mode: command byte = 0x40 | PID nibble of the first byte'),
        ('C23.txcmd', 'idle.ulpi_data_out[no-bit-stuffing]', 'cmd-nopid', sl[idle], 'op_mode 2: command byte = NOPID 0x40'),
        ('C23.mode-consistency', 'idle.command-vs-ready[other-modes]', 'cmd-other', sl[idle],
         'op_mode 1/3: the PID nibble is in the command iff the first byte is consumed by it (%s)' % mode_kind),
        ('C23.idle-nop', 'idle.ulpi_data_out@not-started', 'nop', sl[idle], 'without tx_valid & bus_idle the transmitter must offer the idle byte'),
        ('C23.idle-nop', 'idle.ulpi_stp', 'idle-stp', sl[idle], 'no STP outside a packet'),
        ('C23.tx-ready', 'idle.tx_ready[normal]', 'rdy-pid', sl[idle], 'normal mode: the first byte is consumed exactly when the PHY accepts the command'),
        ('C23.tx-ready', 'idle.tx_ready[no-bit-stuffing]', 'rdy-nopid', sl[idle], 'op_mode 2: the first byte is not consumed by the NOPID command'),
        ('C23.tx-ready', 'idle.tx_ready@not-started', 'rdy-nostart', sl[idle], 'no byte is accepted while the transmission cannot start'),
        ('C23.passthrough', 'body.ulpi_data_out', 'body-data', sl[body], 'packet bytes go to the PHY unchanged'),
        ('C23.tx-ready', 'body.tx_ready', 'body-rdy', sl[body], 'a byte is reported accepted exactly when the PHY accepted it'),
        ('C23.stop', 'body.ulpi_stp', 'body-stp', sl[body], 'STP exactly in the cycle after the last byte (tx_valid low), never while tx_valid'),
        ('C23.stop', 'body.stop-byte[normal]', 'stop-normal', sl[body], 'normal mode stops with 0x00'),
        ('C23.stop', 'body.stop-byte[no-bit-stuffing]', 'stop-nbs', sl[body], 'op_mode 2 stops with 0xFF'),
        ('C23.stop', 'body.next', 'body-next', sl[body], 'the packet ends exactly when tx_valid falls (NXT throttling must not end it)'),
        ('C23.bus-request', 'ulpi_out_req@start', 'req-start', sl[idle], 'a start request must claim the data/stp mux for the next cycle'),
        ('C23.bus-request', 'ulpi_out_req@body', 'req-body', sl[body], 'the mux must stay claimed during the packet'),
        ('C23.bus-release', 'ulpi_out_req@after-stop', 'rel-stop', sl[body], 'the mux must be released with the stop'),
        ('C23.bus-release', 'ulpi_out_req@idle-not-requesting', 'rel-idle', sl[idle],
         'an idle transmitter that is not (or no longer) requesting must release the data/stp mux: a held request keeps the '
         'register window off the bus for ever, control_translator.busy never falls, bus_idle never returns and the pending '
         'packet is never sent'),
        ('C23.bus-claim', 'busy@body', 'busy-body', sl[body], 'busy throughout the packet'),
        ('C23.bus-claim', 'register-writer-locked-out@body', 'claim-body', sl[body], 'no register write may start inside a packet'),
        ('C23.bus-claim', 'register-writer-locked-out@command', 'claim-cmd', sl[idle],
         'while the transmit command is on the bus waiting for NXT a register write can still start; it takes bus_idle away, the '
         'command is withdrawn after the PHY may have latched it and the mux stays with the idle transmitter'),
    ]
    for rid, key, t, loc, why in obs:
        tl = T[t]
        ctx.need(tl.n > 0, 'cases evaluated for %s' % key)
        ctx.ob(rid, '%s.%s' % (TX, key), tl.bad is None, tl.loc or loc, '%s; %s' % (why, tl.bad or '%d cases' % tl.n))
    if early_accept:
        ctx.note('C23: the command state can be left (and tx_ready raised) in a cycle in which the registered bus request is '
                 'not granted yet (%s); harmless only because a compliant PHY keeps NXT low while the link drives idle' % early_accept)


# ------------------------------------------------------------------------------------------------ the top level
def free_bits(ctx, sim, targets, fixed):
    """1-bit inputs the targets depend on that are not fixed by the experiment."""
    free = sorted(sim.inputs_of(targets) - set(fixed))
    for s_ in free:
        si = sim.ir.signals.get(s_)
        ctx.need(si is None or si.w in (None, 1), 'unexpected multi-bit input %s of %s' % (s_, targets))
    ctx.need(len(free) <= 10, 'few free inputs of %s: %s' % (targets, free))
    return free


def sweep(free):
    for bits in itertools.product((0, 1), repeat=len(free)):
        yield dict(zip(free, bits))


def top_level(ctx, tag, **kw):
    ir = ctx.ir(TOP, 'interface.ulpi', allow_opaque=True, **kw)
    sim = Sim(ctx, ir, skip_cfg=True)
    subs = {s.obj.clsname: s.name for s in ir.submodules}
    ctx.need(TX in subs and 'ULPIControlTranslator' in subs and 'ULPIRegisterWindow' in subs, 'submodules of %s: %s' % (TOP, subs))
    t, c, w = subs[TX], subs['ULPIControlTranslator'], subs['ULPIRegisterWindow']
    DIR, NXT = 'self.ulpi.dir.i', 'self.ulpi.nxt.i'
    DO, STPO, OE = 'self.ulpi.data.o', 'self.ulpi.stp.o', 'self.ulpi.data.oe'
    TREQ, TDAT, TSTP = t + '.ulpi_out_req', t + '.ulpi_data_out', t + '.ulpi_stp'
    for s_ in (DO, STPO, OE, t + '.bus_idle', t + '.tx_data', t + '.tx_valid', t + '.ulpi_nxt', t + '.op_mode', 'self.tx_ready', c + '.bus_idle'):
        ctx.need(ir.drivers(s_, exact=True), 'driver of %s in %s' % (s_, TOP))
    K = lambda k: '%s.%s%s' % (TOP, k, tag)
    loc = lambda s_: ir.drivers(s_, exact=True)[0].loc

    # (f) output enable
    free = free_bits(ctx, sim, [OE], [DIR, TREQ])
    hi = lo = None
    for asg in sweep(free):
        for r in (0, 1):
            v, _ = sim.comb(OE, dict(asg, **{DIR: 1, TREQ: r}), None)
            if v and hi is None:
                hi = dict(asg, **{TREQ: r})
        v, _ = sim.comb(OE, dict(asg, **{DIR: 0, TREQ: 1}), None)
        if not v and lo is None:
            lo = asg
    ctx.ob('C23.oe', K('ulpi.data.oe@dir-high'), hi is None, loc(OE), 'the link must never drive the data bus while DIR is high (drives with %s)' % hi)
    ctx.ob('C23.oe', K('ulpi.data.oe@dir-low'), lo is None, loc(OE), 'the link must drive the bus while DIR is low and the transmitter owns it (%s)' % lo)

    # (g) data / stp mux under a granted transmit request
    fixed = [DIR, TREQ, TDAT, TSTP, w + '.ulpi_data_out', w + '.ulpi_stop']
    free = free_bits(ctx, sim, [DO, STPO], fixed)
    bad_d = bad_s = None
    for asg in sweep(free):
        for dv, wv, sv, wsv in ((0xA5, 0x5A, 0, 1), (0x5A, 0xA5, 1, 0), (0x00, 0xFF, 1, 1), (0xFF, 0x00, 0, 0)):
            env = dict(asg, **{DIR: 0, TREQ: 1, TDAT: dv, TSTP: sv, w + '.ulpi_data_out': wv, w + '.ulpi_stop': wsv})
            d, dwin = sim.comb(DO, env, None)
            s, swin = sim.comb(STPO, env, None)
            if d != dv and bad_d is None:
                bad_d = 'transmitter byte 0x%02x, bus 0x%02x (%s)' % (dv, d, q.fmt(dwin) if dwin else 'undriven')
            if s != sv and bad_s is None:
                bad_s = 'transmitter stp %d, bus stp %d (%s)' % (sv, s, q.fmt(swin) if swin else 'undriven')
    ctx.ob('C23.mux', K('ulpi.data.o@granted'), bad_d is None, loc(DO), 'with ulpi_out_req granted the bus carries the transmitter\'s byte: %s' % bad_d)
    ctx.ob('C23.mux', K('ulpi.stp.o@granted'), bad_s is None, loc(STPO), 'with ulpi_out_req granted STP is the transmitter\'s: %s' % bad_s)

    # (h) wires
    def wire(dst, src, vals, what):
        free = free_bits(ctx, sim, [dst], [src])
        bad = None
        for asg in sweep(free):
            for v in vals:
                got, _ = sim.comb(dst, dict(asg, **{src: v}), None)
                if got != v and bad is None:
                    bad = '%s=0x%x gives %s=0x%x' % (src, v, dst, got)
        ctx.ob('C23.wiring', K(what), bad is None and src in sim.inputs_of([dst]), loc(dst), '%s must follow %s unmodified: %s' % (dst, src, bad))
    bytes_ = (0x00, 0xFF, 0xA5, 0x5A, 0x01, 0x80)
    wire(t + '.tx_data', 'self.tx_data', bytes_, 'transmitter.tx_data')
    wire(t + '.tx_valid', 'self.tx_valid', (0, 1), 'transmitter.tx_valid')
    wire(t + '.ulpi_nxt', NXT, (0, 1), 'transmitter.ulpi_nxt')
    wire('self.tx_ready', t + '.tx_ready', (0, 1), 'tx_ready')
    src = sorted(sim.inputs_of([c + '.op_mode']))
    ctx.need(len(src) == 1, 'single source of the op_mode written to the PHY: %s' % src)
    wire(t + '.op_mode', src[0], (0, 1, 2, 3), 'transmitter.op_mode')
    wire(c + '.op_mode', src[0], (0, 1, 2, 3), 'control.op_mode')

    # (i) bus_idle of the transmitter
    TB, CB = t + '.bus_idle', c + '.busy'
    free = free_bits(ctx, sim, [TB], [DIR, CB])
    bad_dir = bad_busy = None
    sat = False
    for asg in sweep(free):
        for d_, b_ in itertools.product((0, 1), repeat=2):
            v, _ = sim.comb(TB, dict(asg, **{DIR: d_, CB: b_}), None)
            if v and d_ and bad_dir is None:
                bad_dir = dict(asg, **{CB: b_})
            if v and b_ and bad_busy is None:
                bad_busy = dict(asg, **{DIR: d_})
            if v and not d_ and not b_:
                sat = True
    ctx.ob('C23.bus-idle', K('transmitter.bus_idle@dir'), bad_dir is None, loc(TB), 'no transmission may start while the PHY owns the bus (DIR): %s' % bad_dir)
    ctx.ob('C23.bus-idle', K('transmitter.bus_idle@control-busy'), bad_busy is None, loc(TB), 'no transmission may start during a register write: %s' % bad_busy)
    ctx.ob('C23.bus-idle', K('transmitter.bus_idle@satisfiable'), sat, loc(TB), 'bus_idle must be reachable with DIR low and no register write')

    # interlock of the register writer, as a function of what the transmitter shows (used by the transmitter sweep)
    CBI = c + '.bus_idle'
    fixed = [t + '.busy', TREQ, t + '.tx_valid', 'self.tx_valid', TB, DIR]
    cfree = free_bits(ctx, sim, [CBI], fixed)
    cache = {}

    def claim(busy, v_, b_):
        """True iff control_translator.bus_idle is false for every value of its other inputs."""
        k = (busy, v_, b_)
        if k not in cache:
            ok = True
            for asg in sweep(cfree):
                env = dict(asg, **{t + '.busy': busy, TREQ: 1, t + '.tx_valid': v_, 'self.tx_valid': v_, TB: b_, DIR: 0})
                v, _ = sim.comb(CBI, env, None)
                if v:
                    ok = False
            cache[k] = ok
        return cache[k]
    return claim


def run(ctx):
    claim = top_level(ctx, '')
    transmitter(ctx, claim)
    if ctx.tier == 'thorough':
        top_level(ctx, '[handle_clocking=False]', handle_clocking=False)
        top_level(ctx, '[use_platform_registers=False]', use_platform_registers=False)
