# witness for C15.pid-floor: after the DATA0 packet of a frame next_data_pid wraps 0 -> 3 (MDATA);
# a further IN token before the next new_frame (e.g. the SOF was lost) is answered with a ZLP labelled MDATA.
import sys
from amaranth import *
from amaranth.sim import Simulator
from luna.gateware.usb.usb2.endpoints.isochronous_stream_in import USBIsochronousStreamInEndpoint
from luna.gateware.usb.usb2.endpoints.isochronous import USBIsochronousInEndpoint

def run(cls):
    dut = cls(endpoint_number=1, max_packet_size=512)
    sim = Simulator(dut); sim.add_clock(1/60e6, domain='usb')
    log = []
    async def tb(ctx):
        tok, tx = dut.interface.tokenizer, dut.interface.tx
        async def in_token():
            ctx.set(tok.endpoint, 1); ctx.set(tok.is_in, 1); ctx.set(tok.ready_for_response, 1)
            await ctx.tick('usb'); ctx.set(tok.ready_for_response, 0)
            n = 0
            for _ in range(8):
                if ctx.get(tx.valid):
                    zlp = bool(ctx.get(tx.last)) and not ctx.get(tx.first)
                    if not zlp: n += 1
                    log.append(('ZLP' if zlp else 'byte', ctx.get(dut.interface.tx_pid_toggle)))
                await ctx.tick('usb')
        ctx.set(tx.ready, 1)
        ctx.set(dut.bytes_in_frame, 1)
        ctx.set(tok.new_frame, 1); await ctx.tick('usb'); ctx.set(tok.new_frame, 0); await ctx.tick('usb')
        await in_token()      # the frame's only packet: 1 byte, DATA0
        await in_token()      # second IN token, no new_frame in between
    sim.add_testbench(tb); sim.run_until(2e-6)
    return log
for cls in (USBIsochronousStreamInEndpoint, USBIsochronousInEndpoint):
    log = run(cls)
    print(cls.__name__, log)
    print("PID of the ZLP:", log[1][1], "(3 = MDATA is the defect, 0 = DATA0)")
print('WITNESS: ZLP after the frame\'s DATA0 packet is sent with tx_pid_toggle=3 (MDATA)')
