"""Small query helpers shared by the rules."""
from __future__ import annotations
from .ir import E, Lit, literals, AnalysisError
from .fsm import guard_atoms, atom_of


def is_zero(e):
    return isinstance(e, E) and e.op == 'const' and e.val == 0


def is_one(e):
    return isinstance(e, E) and e.op == 'const' and e.val == 1


def raises(ir, name, exact=True, fold=True):
    """Assignments that can make signal `name` non-zero (rhs is not the constant 0).

    `flag.eq(cond)` under guard G raises the flag exactly when G & cond holds -- the same as `with m.If(cond): flag.eq(1)`
    under G.  With `fold` (default) such an assignment to a one-bit signal is returned in that second form: a copy whose
    guard is extended by the conjuncts of the condition and whose right-hand side is the constant 1 (`.unfolded` is the
    original assignment), so that a rule sees one form for both spellings."""
    out = []
    for a in ir.drivers(name, exact=exact):
        if a.rhs is None or is_zero(a.rhs):
            continue
        out.append(_fold(ir, a) if fold else a)
    return out


def fold(ir, a):
    """Public name of the folding used by raises()."""
    return _fold(ir, a)


def _fold(ir, a):
    from .ir import _known_one_bit, _is_bool
    r = a.rhs
    if not isinstance(r, E) or r.op == 'const' or not isinstance(a.lhs, E) or a.lhs.op != 'sig':
        return a
    if getattr(a.lhs.args[0], 'w', None) not in (1, None):
        return a
    if not (_known_one_bit(r) or (r.op in ('sig', '&', '|', '~') and _is_bool(r))):
        return a
    cached = getattr(a, '_folded', None)
    if cached is not None:
        return cached                          # one folded object per assignment: identity comparisons keep working
    import copy
    b = copy.copy(a)
    b.guard = tuple(a.guard) + tuple(literals(r, True))
    b.rhs = E('const', val=1, w=1)
    b.unfolded = a
    a._folded = b
    return b


def clears(ir, name, exact=True):
    return [a for a in ir.drivers(name, exact=exact) if is_zero(a.rhs)]


def atoms(item):
    """{(atom, polarity)} of the guard of an Assign / Edge."""
    return set(guard_atoms(item.guard))


def has(item, atom, pos=True):
    return (atom, pos) in atoms(item)


def pos_atoms(item):
    return {a for a, p in atoms(item) if p}


def neg_atoms(item):
    return {a for a, p in atoms(item) if not p}


def const_eq(e):
    """If e is `K == x` (K constant) return (K, x-canon) else None."""
    if isinstance(e, E) and e.op == '==' and len(e.args) == 2:
        a, b = e.args
        if a.op == 'const' and b.op != 'const':
            return a.val, b.canon()
        if b.op == 'const' and a.op != 'const':
            return b.val, a.canon()
    return None


def guard_consts(item, target):
    """Constants K for which the guard contains the literal `K == target` -> {K: polarity}."""
    out = {}
    for l in item.guard:
        ce = const_eq(l.e) if isinstance(l.e, E) else None
        if ce and ce[1] == target:
            out[ce[0]] = l.pos
    return out


def comb_def(ir, name):
    """The single unconditional combinational definition of a local signal, or None."""
    ds = ir.drivers(name, exact=True)
    if len(ds) == 1 and ds[0].domain == 'comb' and not ds[0].guard and ds[0].state is None:
        return ds[0].rhs
    return None


def expand_atoms(ir, item, depth=3):
    """Guard atoms of item, with 1-bit locals that have a single unconditional comb definition replaced by
    the conjuncts of that definition (recursively)."""
    out = set()

    def add(lit, d):
        e = lit.e
        if isinstance(e, E) and e.op == 'sig' and d > 0:
            rhs = comb_def(ir, e.args[0].name)
            if rhs is not None:
                for l2 in literals(rhs, lit.pos):
                    add(l2, d - 1)
                out.add(atom_of(lit))
                return
        out.add(atom_of(lit))
    for l in item.guard:
        add(l, depth)
    return out


def support(ir, e, depth=4, through_comb=True):
    """Signals an expression depends on, following combinational definitions (any guard) transitively."""
    seen = set()
    work = list(e.sigs()) if isinstance(e, E) else []
    d = {}
    while work:
        s = work.pop()
        if s in seen:
            continue
        seen.add(s)
        if not through_comb:
            continue
        for a in ir.drivers(s, exact=True):
            if a.domain == 'comb':
                if isinstance(a.rhs, E):
                    work.extend(a.rhs.sigs())
                for l in a.guard:
                    if isinstance(l.e, E):
                        work.extend(l.e.sigs())
    return seen


def state_of(a):
    return a.state[1] if a.state else None


def in_states(items, states):
    return [a for a in items if a.state and a.state[1] in states]


def rhs_canon(a):
    return a.rhs.canon() if isinstance(a.rhs, E) else repr(a.rhs)


def fmt(item):
    return repr(item)[:400]


import re as _re


def base(name):
    """Name with the '#k' uniquifying suffixes removed (for rules that key on the variable name)."""
    return _re.sub(r'#\d+', '', name)


def disjuncts(e):
    """Top-level disjuncts of a boolean expression."""
    if isinstance(e, E) and e.op == '|':
        out = []
        for a in e.args:
            out += disjuncts(a)
        return out
    return [e]


def conj(e):
    """Conjunct set {(atom, polarity)} of a boolean expression (conjunct normal form of literals())."""
    from .fsm import atom_of
    if isinstance(e, E) and e.op in ('sig', 'slice', 'param') and isinstance(e.w, int) and e.w > 1:
        return {(e.canon(), True)}             # a plain multi-bit value, not a condition
    return {atom_of(l) for l in literals(e, True)}


def dnf(e):
    """List of conjunct sets, one per top-level disjunct."""
    return [conj(d) for d in disjuncts(e)]


def expand(ir, e, depth=4):
    """Replace local signals that have a single unconditional combinational definition by that definition."""
    if not isinstance(e, E) or depth == 0:
        return e
    if e.op == 'sig':
        name = e.args[0].name
        if not name.startswith('self.') and '.' not in name:
            d = comb_def(ir, name)
            if d is not None:
                return expand(ir, d, depth - 1)
        return e
    new = tuple(expand(ir, a, depth) if isinstance(a, E) else a for a in e.args)
    return E(e.op, new, w=e.w, val=e.val, label=e.label)


def bool_leaves(*exprs):
    from .fsm import leaf_atoms
    out = set()
    for e in exprs:
        if isinstance(e, E):
            leaf_atoms(e, out)
    return sorted(out)


def all_assignments(leaves, limit=18):
    import itertools
    if len(leaves) > limit:
        raise AnalysisError('too many boolean leaves to enumerate: %d' % len(leaves))
    for bits in itertools.product((False, True), repeat=len(leaves)):
        yield dict(zip(leaves, bits))


def guard_expr(item):
    """The guard of an Assign/Edge as one list of (expr, polarity) usable with eval_guard."""
    return [(l.e, l.pos) for l in item.guard]


def eval_guard(item, asg):
    from .fsm import holds
    return holds(item.guard, asg)


def eval_expr(e, asg):
    from .fsm import eval_bool
    return eval_bool(e, asg)


def flag_values(ir, name, state=None, assume=None, init=False, domain=None):
    """One-cycle truth table of a one-bit signal: for every valuation of the boolean atoms its drivers mention (guards
    and right-hand sides alike), the value the LAST driver whose guard holds gives it (Amaranth: the last assignment
    wins; `init` if none fires).  Only the drivers outside any FSM state or inside `state` take part.  The spelling
    of a driver -- `If(c): x.eq(1)`, `x.eq(c)`, `x.eq(Mux(c, 1, 0))` -- makes no difference to the table.
    Yields (assignment, value); with a list/tuple of names, one table over the atoms of all of them is built and the
    value is a dict name -> value."""
    from .fsm import lit_atoms, assignments, holds, eval_bool
    names = [name] if isinstance(name, str) else list(name)
    dss = {}
    ats = []
    for n in names:
        ds = [a for a in ir.drivers(n, exact=True) if (a.state is None or state_of(a) == state) and (domain is None or a.domain == domain)]
        ds.sort(key=lambda a: a.order)
        dss[n] = ds
        for a in ds:
            for l in a.guard:
                ats += list(lit_atoms(l))
            if isinstance(a.rhs, E) and a.rhs.op != 'const':
                ats += bool_leaves(a.rhs)
    for asg in assignments(ats, assume):
        vals = {}
        for n in names:
            val = init
            for a in dss[n]:
                if holds(a.guard, asg):
                    v = eval_bool(a.rhs, asg) if isinstance(a.rhs, E) else bool(a.rhs)
                    if v is None:
                        raise AnalysisError('flag_values(%s): the right-hand side %s is not a boolean combination' % (n, rhs_canon(a)))
                    val = v
            vals[n] = val
        yield asg, (vals[name] if isinstance(name, str) else vals)


def raise_lits(a):
    """The literals under which an assignment makes its one-bit target 1: the guard, plus -- when the right-hand side
    is a condition rather than the constant 1 -- the conjuncts of that condition (`x.eq(c)` under G raises x under G & c)."""
    out = list(a.guard)
    if isinstance(a.rhs, E) and a.rhs.op != 'const':
        from .ir import _known_one_bit
        if _known_one_bit(a.rhs):
            out += literals(a.rhs, True)
    return out


def common_atoms(items, without=()):
    """{atom: polarity} of the simple (one-atom) guard literals shared by every item, except the atoms named in
    `without` (compound literals are left to be enumerated through their leaves)."""
    from .fsm import lit_atoms
    sets = [{atom_of(l) for l in a.guard if lit_atoms(l) == {atom_of(l)[0]}} for a in items]
    if not sets:
        return {}
    return {a: p for a, p in set.intersection(*sets) if a not in without}


def bits_drivers(ir, name, lo, hi):
    """[(assignment, expression driving bits lo..hi-1 of `name`)] over all drivers -- whether the signal is assigned as a
    whole (`x.eq(Cat(a, b, c))`) or slice by slice (`x[0:8].eq(a)` ...).  A driver that covers the range only partly is
    returned with None."""
    from .hdl import slice_of
    out = []
    for a in ir.drivers(name, exact=True):
        l = a.lhs
        if not isinstance(a.rhs, E):
            continue
        if l.op == 'sig':
            out.append((a, slice_of(a.rhs, lo, hi) if (a.rhs.op == 'cat' or (isinstance(a.rhs.w, int) and a.rhs.w >= hi)) else None))
        elif l.op == 'slice' and isinstance(l.args[1], int) and isinstance(l.args[2], int):
            s0, s1 = l.args[1], l.args[2]
            if s1 <= lo or s0 >= hi:
                continue
            out.append((a, slice_of(a.rhs, lo - s0, hi - s0) if (s0 <= lo and hi <= s1 and (s1 - s0 == hi - lo or isinstance(a.rhs.w, int))) else None))
        else:
            out.append((a, None))
    return out


def merged_drivers(ir, name):
    """Drivers of `name` with slice-wise assignments that together cover the whole signal under one guard (same domain,
    state and guard literals) merged into one pseudo assignment whose right-hand side is the Cat() of the parts -- the form
    `x.eq(Cat(a, b))` has when written in one statement.  Whole-signal assignments are returned as they are; slice
    assignments that do not complete a cover are returned unmerged."""
    import copy
    from .hdl import slice_of
    si = ir.signals.get(name)
    w = getattr(si, 'w', None)
    ds = ir.drivers(name, exact=True)
    out, groups = [], {}
    for a in ds:
        l = a.lhs
        if isinstance(w, int) and l.op == 'slice' and l.args[0].op == 'sig' and isinstance(l.args[1], int) and isinstance(l.args[2], int) \
                and isinstance(a.rhs, E):
            key = (a.domain, a.state, tuple(sorted(x.canon() for x in a.guard)))
            groups.setdefault(key, []).append(a)
        else:
            out.append(a)
    for key, grp in groups.items():
        grp.sort(key=lambda a: a.lhs.args[1])
        pos, ok = 0, True
        for a in grp:
            if a.lhs.args[1] != pos:
                ok = False
                break
            pos = a.lhs.args[2]
        if not ok or pos != w:
            out.extend(grp)
            continue
        parts = []
        for a in grp:
            pw = a.lhs.args[2] - a.lhs.args[1]
            r = a.rhs
            if r.w is None or r.w > pw:
                r = slice_of(r, 0, pw)
            elif r.w < pw:
                ok = False
                break
            parts.append(r)
        if not ok:
            out.extend(grp)
            continue
        b = copy.copy(grp[0])
        b.lhs = grp[0].lhs.args[0]
        # upper parts that are the constant 0 are what zero-extension gives anyway: Cat(x, 0) written to the whole
        # signal is `sig.eq(x)` for a narrower unsigned x
        keep = list(parts)
        while len(keep) > 1 and is_zero(keep[-1]):
            keep.pop()
        b.rhs = keep[0] if len(keep) == 1 else E('cat', parts, w=w)
        b.merged_from = grp
        out.append(b)
    out.sort(key=lambda a: a.order)
    return out


def split_parts(a):
    """[(target text, expression)] of an assignment, with `x.eq(Cat(p, q, ...))` (whole signal, parts of known width)
    given as its parts `x[0:wp] <- p`, `x[wp:wp+wq] <- q` ... -- the form it has when written slice by slice."""
    l, r = a.lhs, a.rhs
    if isinstance(r, E) and r.op == 'cat' and isinstance(l, E) and l.op == 'sig' and isinstance(getattr(l.args[0], 'w', None), int) \
            and all(isinstance(x, E) for x in r.args):
        total = l.args[0].w
        ws = [x.w if isinstance(x.w, int) else None for x in r.args]
        if ws.count(None) == 1 and r.args[ws.index(None)].op == 'sig':
            # one port of undeclared width (a field of an interface handed in): it fills what is left -- the same
            # assumption the slice-wise spelling `x[8:16].eq(port)` makes
            rest = total - sum(w_ for w_ in ws if w_ is not None)
            if rest > 0:
                ws[ws.index(None)] = rest
        if None not in ws and sum(ws) == total:
            out, off = [], 0
            for x, w_ in zip(r.args, ws):
                out.append(('%s[%d:%d]' % (l.canon(), off, off + w_), x))
                off += w_
            return out
    return [(l.canon(), r)]


def flag_arms(ir, a):
    """An assignment to a one-bit flag as a sequence of constant assignments with the same last-wins meaning:
    `flag.eq(cond)` under G is `flag.eq(0)` under G followed by `flag.eq(1)` under G & cond.  Constant assignments (and
    anything that is not a flag assignment) are returned as they are."""
    f = _fold(ir, a)
    if f is a:
        return [a]
    z = getattr(a, '_zero_arm', None)
    if z is None:
        import copy
        z = copy.copy(a)
        z.rhs = E('const', val=0, w=1)
        z.unfolded = a
        a._zero_arm = z
    return [z, f]


def struct_fields(ir, base, layout):
    """Drivers of the fields of a packed struct signal `base` with `layout` = [(field, width), ...] (first field in the
    least significant bits), whether the fields are assigned one by one or the struct as a whole (`s.eq(Cat(...))`):
    {field name: [assignments]} -- whole-struct assignments contribute one pseudo assignment per field."""
    import copy
    from .hdl import slice_of
    from .ir import SigInfo
    out = {f: list(ir.drivers('%s.%s' % (base, f), exact=True)) for f, _ in layout}
    total = sum(w for _, w in layout)
    for a in ir.drivers(base, exact=True):
        if not (isinstance(a.lhs, E) and a.lhs.op == 'sig' and a.lhs.canon() == base and isinstance(a.rhs, E)):
            continue
        if not (a.rhs.op == 'const' or (isinstance(a.rhs.w, int) and a.rhs.w >= total)):
            continue
        off = 0
        for f, w in layout:
            b = copy.copy(a)
            b.lhs = E('sig', (SigInfo('%s.%s' % (base, f), w=w),), w=w)
            b.rhs = slice_of(a.rhs, off, off + w)
            b.whole = a
            out[f].append(b)
            off += w
    for f in out:
        out[f].sort(key=lambda x: x.order)
    return out


def resolve_mux(e, asg):
    """`e` with every Mux whose condition is decided by the assignment `asg` replaced by the selected operand, and the
    neutral elements of ^ and | (constant 0) dropped -- the value expression that applies under that valuation."""
    from .fsm import eval_bool
    if not isinstance(e, E):
        return e
    if e.op == 'mux' and len(e.args) == 3:
        v = eval_bool(e.args[0], asg)
        if v is True:
            return resolve_mux(e.args[1], asg)
        if v is False:
            return resolve_mux(e.args[2], asg)
    if not any(isinstance(a, E) for a in e.args):
        return e
    na = tuple(resolve_mux(a, asg) if isinstance(a, E) else a for a in e.args)
    if e.op in ('^', '|') and len(na) > 1:
        keep = [a for a in na if not is_zero(a)]
        if len(keep) == 1:
            return keep[0]
        if keep and len(keep) < len(na):
            na = tuple(keep)
    if e.op == 'slice' and isinstance(na[0], E) and isinstance(na[1], int) and isinstance(na[2], int):
        from .hdl import slice_of
        return slice_of(na[0], na[1], na[2])
    return E(e.op, na, w=e.w, val=e.val, label=e.label)


def flag_states(ir, fsm, name):
    """Value of a combinational one-bit flag per FSM state: {state: True | False | 'cond'} -- True/False when the flag
    is that constant throughout the state whatever else holds, 'cond' otherwise.  One answer for the flag written inside
    the states (`flag.eq(1)`) and for a module-level function of `fsm.ongoing(...)` (the extractor converts the latter into
    the former where the flag has a single driver; what is left is folded here)."""
    from .interp import _subst_ongoing
    ds = sorted(ir.drivers(name, exact=True), key=lambda a: a.order)
    out = {}
    for st in fsm.states:
        rel = [a for a in ds if a.state is None or a.state == (fsm.id, st)]
        if any(a.domain != 'comb' for a in rel):
            out[st] = 'cond'
            continue
        vals = []
        for a in rel:
            r = a.rhs
            if isinstance(r, E) and any(n.op == 'ongoing' for n in r.walk()):
                r = _subst_ongoing(r, st)
            v = True if (r is not None and is_one(r)) else False if (r is not None and is_zero(r)) else 'cond'
            vals.append((v, bool(a.guard)))
        base = [k for k, (v, g) in enumerate(vals) if not g]
        tail = vals[base[-1]:] if base else [(False, False)] + vals
        kinds = {v for v, g in tail}
        out[st] = kinds.pop() if len(kinds) == 1 else 'cond'
    return out


def const_table(drivers, index_name):
    """A constant lookup table written either as `Array(consts)[index]` in one assignment or as one constant assignment per
    value of the index (`Switch(index)` / If-chain over `K == index`): (values by index, the assignments, common guard atoms)
    or None.  Entries that are not integer constants are None."""
    ds = list(drivers)
    if len(ds) == 1 and isinstance(ds[0].rhs, E) and ds[0].rhs.op == 'arr' and isinstance(ds[0].rhs.args[0], E) and \
            ds[0].rhs.args[0].canon() == index_name:
        vals = [x.val if isinstance(x, E) and x.op == 'const' and isinstance(x.val, int) else None for x in ds[0].rhs.args[1:]]
        return vals, ds, atoms(ds[0])
    by, common = {}, None
    for a in ds:
        ks = guard_consts(a, index_name)
        sel = [k for k, v in ks.items() if v is True]
        if len(sel) != 1 or not isinstance(a.rhs, E):
            return None
        rest = {(x, p) for x, p in atoms(a) if index_name not in x}
        common = rest if common is None else (common & rest)
        if sel[0] in by:
            return None
        by[sel[0]] = a.rhs.val if a.rhs.op == 'const' and isinstance(a.rhs.val, int) else None
    if not by or sorted(by) != list(range(len(by))):
        return None
    return [by[k] for k in sorted(by)], ds, common or set()
