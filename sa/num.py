"""Concrete one-cycle semantics of an extracted ModuleIR (shared by rules that enumerate small state spaces).

`ev(e, env)` evaluates an expression tree under {signal name: int}; `Stepper(ir)` evaluates one clock cycle of a
module without FSM-specific magic (the FSM state is the pseudo-signal '$fsm<id>'): combinational assignments are
resolved to a fixpoint (last assignment wins, undriven comb signals are 0), then the registered next-state values
are computed.  Used only for exhaustive explorations (all states x all inputs), never for stimulus runs.
"""
from __future__ import annotations

from .ir import E, AnalysisError


class NoEval(Exception):
    pass


def _mask(w):
    return (1 << w) - 1


def width_of(e):
    if isinstance(e, E):
        if e.w is not None:
            return e.w
        if e.op in ('==', '!=', '<', '<=', '>', '>=', 'ongoing'):
            return 1
    return None


def _w(a, env):
    """Width of an operand; for a signal of undeclared width (an input port of another class) the caller may supply it
    in the environment under '$w:<name>'."""
    w = width_of(a)
    if w is None and isinstance(a, E) and a.op == 'sig':
        w = env.get('$w:' + a.args[0].name)
    return w


def ev(e, env):
    """Value of `e` under env (Amaranth arithmetic widens, so plain Python ints; truncation happens at the store)."""
    if not isinstance(e, E):
        if isinstance(e, (int, bool)):
            return int(e)
        raise NoEval(repr(e))
    op = e.op
    if op == 'const':
        if not isinstance(e.val, int):
            raise NoEval(e.canon())
        return int(e.val)
    if op == 'sig':
        n = e.args[0].name
        if n not in env:
            raise NoEval('free signal ' + n)
        return env[n]
    if op == 'ongoing':
        key = '$fsm%s' % (e.args[0],)
        if key not in env:
            raise NoEval('free fsm state ' + key)
        return int(env[key] == e.args[1])
    if op == 'slice':
        lo, hi = e.args[1], e.args[2]
        if not isinstance(lo, int) or not isinstance(hi, int):
            raise NoEval(e.canon())
        return (ev(e.args[0], env) >> lo) & _mask(hi - lo)
    if op == 'cat':
        r, sh = 0, 0
        for a in e.args:
            w = _w(a, env)
            if w is None:
                raise NoEval('cat of unknown width: ' + e.canon())
            r |= (ev(a, env) & _mask(w)) << sh
            sh += w
        return r
    if op == '~':
        a = e.args[0]
        w = _w(a, env)
        if w is None:
            raise NoEval('~ of unknown width: ' + e.canon())
        return ~ev(a, env) & _mask(w)
    if op == 'rev':
        a = e.args[0]
        w = width_of(a)
        if w is None:
            raise NoEval(e.canon())
        v = ev(a, env)
        return sum(((v >> i) & 1) << (w - 1 - i) for i in range(w))
    if op == 'arr':
        i = ev(e.args[0], env)
        items = e.args[1:]
        return ev(items[min(i, len(items) - 1)], env)
    if op == 'mux' and len(e.args) == 3:
        return ev(e.args[1], env) if ev(e.args[0], env) else ev(e.args[2], env)
    if op == 'call':
        if e.args and e.args[0] == 'matches' and len(e.args) >= 2:
            v = ev(e.args[1], env)
            pats = [p.val if isinstance(p, E) and p.op == 'const' else p for p in e.args[2:]]
            if not all(isinstance(p, int) for p in pats):
                raise NoEval(e.canon())
            return int(v in pats)
        if e.args and e.args[0] in ('any', 'bool') and len(e.args) == 2:
            return int(ev(e.args[1], env) != 0)
        if e.args and e.args[0] == 'all' and len(e.args) == 2:
            w = width_of(e.args[1])
            if w is None:
                raise NoEval(e.canon())
            return int(ev(e.args[1], env) & _mask(w) == _mask(w))
        raise NoEval(e.canon())
    vals = [ev(a, env) for a in e.args]
    if op == '+':
        return sum(vals)
    if op == '*' and len(vals) == 2:
        return vals[0] * vals[1]
    if op in ('&', '|', '^') and vals:
        r = vals[0]
        for v in vals[1:]:
            r = r & v if op == '&' else r | v if op == '|' else r ^ v
        return r
    if len(vals) == 2:
        a, b = vals
        if op == '-':
            return a - b
        if op == '<<':
            return a << b
        if op == '>>':
            return a >> b
        if op in ('==', '!=', '<', '<=', '>', '>='):
            return int({'==': a == b, '!=': a != b, '<': a < b, '<=': a <= b, '>': a > b, '>=': a >= b}[op])
    raise NoEval(e.canon())


def _store(old, lhs, val, widths):
    """New value of the whole lhs base signal after storing `val` into `lhs` (a sig or a constant slice of one)."""
    if lhs.op == 'sig':
        n = lhs.args[0].name
        w = widths.get(n)
        if w is None:
            raise NoEval('width of ' + n)
        return n, val & _mask(w)
    if lhs.op == 'slice' and isinstance(lhs.args[0], E) and lhs.args[0].op == 'sig' and \
            isinstance(lhs.args[1], int) and isinstance(lhs.args[2], int):
        n = lhs.args[0].args[0].name
        lo, hi = lhs.args[1], lhs.args[2]
        m = _mask(hi - lo) << lo
        return n, (old.get(n, 0) & ~m) | ((val << lo) & m)
    raise NoEval('store target ' + lhs.canon())


class Stepper:
    """One-cycle evaluator of a ModuleIR.  `regs`: names of registered signals (driven from a clocked domain)."""

    def __init__(self, ir):
        self.ir = ir
        self.widths = {n: s.w for n, s in ir.signals.items()}
        self.inits = {n: (s.init if isinstance(getattr(s, 'init', None), int) else 0) for n, s in ir.signals.items()}
        self.comb = sorted((a for a in ir.assigns if a.domain == 'comb'), key=lambda a: a.order)
        self.sync = sorted((a for a in ir.assigns if a.domain != 'comb'), key=lambda a: a.order)
        self.regs = sorted({t for a in self.sync for t in a.lhs_sigs()})
        self.comb_sigs = sorted({t for a in self.comb for t in a.lhs_sigs()})
        both = set(self.regs) & set(self.comb_sigs)
        if both:
            raise AnalysisError('signals driven from both comb and a clocked domain: %s' % sorted(both))
        self.fsms = {f.id: f for f in ir.fsms}

    def restrict(self, observed):
        """Cone of influence: keep only the assignments that can (transitively, through guards, right-hand sides and FSM
        edges) influence the signals in `observed` or any FSM transition.  Registers outside the cone are dropped from
        `regs` -- they cannot change what is observed, so leaving them out of the explored state is exact, not an
        approximation.  Returns the cone (set of signal names)."""
        cone = set(observed)
        for f in self.fsms.values():
            for e in f.edges:
                for l in e.guard:
                    if isinstance(l.e, E):
                        cone |= l.e.sigs()
        changed = True
        allasg = self.comb + self.sync
        while changed:
            changed = False
            for a in allasg:
                if not (set(a.lhs_sigs()) & cone):
                    continue
                reads = set(a.rhs.sigs()) if isinstance(a.rhs, E) else set()
                for l in a.guard:
                    if isinstance(l.e, E):
                        reads |= l.e.sigs()
                if isinstance(a.lhs, E):
                    for x in a.lhs.walk():
                        if x.op == 'arr' and isinstance(x.args[0], E):
                            reads |= x.args[0].sigs()          # the index of an array store
                if not reads <= cone:
                    cone |= reads
                    changed = True
        self.comb = [a for a in self.comb if set(a.lhs_sigs()) & cone]
        self.sync = [a for a in self.sync if set(a.lhs_sigs()) & cone]
        self.regs = sorted({t for a in self.sync for t in a.lhs_sigs()})
        self.comb_sigs = sorted({t for a in self.comb for t in a.lhs_sigs()})
        return cone

    def _active(self, item, env):
        st = getattr(item, 'state', None)
        if st is not None and env.get('$fsm%s' % (st[0],)) != st[1]:
            return False
        for l in item.guard:
            if l.kind == 'cfg':
                raise NoEval('configuration atom in guard: ' + l.canon())
            if bool(ev(l.e, env)) != l.pos:
                return False
        return True

    def settle(self, env):
        """Resolve comb signals (undriven = 0) to a fixpoint; env must hold registers, fsm states and inputs."""
        env = dict(env)
        for n in self.comb_sigs:
            env.setdefault(n, 0)
        for _ in range(len(self.comb_sigs) + 2):
            new = {n: 0 for n in self.comb_sigs}
            for a in self.comb:
                if self._active(a, env):
                    n, v = _store(new, a.lhs, ev(a.rhs, env), self.widths)
                    new[n] = v
            if all(env[n] == new[n] for n in new):
                return env
            env.update(new)
        raise NoEval('combinational assignments do not settle')

    def step(self, env):
        """(settled env of this cycle, next register/fsm values)."""
        env = self.settle(env)
        nxt = {n: env[n] for n in self.regs}
        for k in env:
            if k.startswith('$fsm'):
                nxt[k] = env[k]
        for a in self.sync:
            if self._active(a, env):
                n, v = _store(nxt, a.lhs, ev(a.rhs, env), self.widths)
                nxt[n] = v
        for f in self.fsms.values():
            key = '$fsm%s' % (f.id,)
            cur = env.get(key)
            for e in sorted(f.out_edges(cur), key=lambda e: e.order) if cur is not None else ():
                if self._active(e, env):
                    if not isinstance(e.dst, str):
                        raise NoEval('computed next state')
                    nxt[key] = e.dst
        return env, nxt
