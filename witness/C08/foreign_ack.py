#!/usr/bin/env python3
"""
Demonstration for property C08: SET_ADDRESS takes effect only after the host has
acknowledged the status stage; until then the device keeps answering at its old address.

Scenario (lost status-stage handshake):
  1. host sends SETUP SET_ADDRESS(0x25) to address 0            -> device ACKs
  2. host sends the status-stage IN to address 0                -> device sends a DATA1 ZLP
  3. the ZLP / its handshake is lost: the host sends NO ACK
  4. the host retries the status-stage IN, still at address 0   -> device must answer again
  5. this time the host ACKs                                    -> only now the address changes
  6. a SETUP to address 0x25 is answered, a SETUP to address 0 is ignored

Run as:  cd <tree> && PYTHONPATH=<tree> /venv/bin/python _seed/demo.py
"""

import sys

from amaranth.sim                      import Simulator

from usb_protocol.emitters             import DeviceDescriptorCollection
from usb_protocol.types                import USBStandardRequests

from luna.gateware.interface.utmi      import UTMIInterface
from luna.gateware.usb.usb2            import USBPacketID
from luna.gateware.usb.usb2.device     import USBDevice
from luna.gateware.test.contrib        import usb_packet
from luna.gateware.test.usb2           import USBDeviceTest

NEW_ADDRESS = 0x25

utmi = UTMIInterface()
dut  = USBDevice(bus=utmi, handle_clocking=False)

descriptors = DeviceDescriptorCollection()
with descriptors.DeviceDescriptor() as d:
    d.idVendor           = 0x1209
    d.idProduct          = 0x0001
    d.iManufacturer      = "LUNA"
    d.iProduct           = "Test Device"
    d.iSerialNumber      = "1234"
    d.bNumConfigurations = 1
with descriptors.ConfigurationDescriptor() as c:
    with c.InterfaceDescriptor() as i:
        i.bInterfaceNumber = 0
        with i.EndpointDescriptor() as e:
            e.bEndpointAddress = 0x81
            e.wMaxPacketSize   = 64
dut.add_standard_control_endpoint(descriptors)

failures = []
log      = []


def note(message):
    log.append(message)
    print("  " + message)


def check(condition, message):
    if not condition:
        failures.append(message)
        print("  !! " + message)


#
# Minimal host model, talking raw UTMI (same conventions as luna.gateware.test.usb2).
#

def provide_packet(*octets):
    yield utmi.rx_active.eq(1)
    yield utmi.rx_valid.eq(1)
    yield
    for octet in octets:
        yield utmi.rx_data.eq(octet)
        yield
    yield utmi.rx_active.eq(0)
    yield utmi.rx_valid.eq(0)
    yield
    yield


def send_token(pid, address, endpoint=0):
    bits = usb_packet.token_packet(pid, address, endpoint)
    yield from provide_packet(*USBDeviceTest.bits_to_octets(bits))


def send_data(pid, *octets):
    bits = usb_packet.data_packet(pid, octets)
    yield from provide_packet(*USBDeviceTest.bits_to_octets(bits))


def send_handshake(pid):
    yield from provide_packet(USBPacketID(pid).byte())


def receive_packet(timeout=400):
    """ Returns the bytes the device transmits, or None if it stays silent. """
    cycles = 0
    while not (yield utmi.tx_valid):
        yield
        cycles += 1
        if cycles > timeout:
            return None

    data = []
    while (yield utmi.tx_valid):
        data.append((yield utmi.tx_data))
        yield
    return bytes(data)


def idle(cycles):
    for _ in range(cycles):
        yield


def setup_transaction(address, request_type, request, value=0, index=0, length=0):
    """ Issues a SETUP transaction; returns the device's raw response (or None). """
    yield from send_token(USBPacketID.SETUP, address)
    yield
    yield from send_data(USBPacketID.DATA0,
        request_type, request, value & 0xff, value >> 8, index & 0xff, index >> 8, length & 0xff, length >> 8)
    response = yield from receive_packet()
    yield from idle(2)
    return response


def in_token(address, endpoint=0):
    """ Issues an IN token; returns the device's raw response (or None). """
    yield from send_token(USBPacketID.IN, address, endpoint)
    response = yield from receive_packet()
    yield from idle(2)
    return response


def describe(packet):
    if packet is None:
        return "no response"
    try:
        return f"{USBPacketID.from_int(packet[0]).name} {packet[1:].hex()}"
    except Exception:
        return packet.hex()


ACK_BYTE    = bytes([USBPacketID.ACK.byte()])
ZLP_DATA1   = bytes([USBPacketID.DATA1.byte(), 0x00, 0x00])


def testbench():
    """SET_ADDRESS(NEW_ADDRESS); before the status stage the host talks to another endpoint and ACKs its data."""
    yield from idle(10)
    response = yield from setup_transaction(0, 0x00, USBStandardRequests.SET_ADDRESS, value=NEW_ADDRESS)
    note("SETUP SET_ADDRESS -> %s" % describe(response))
    # traffic to another endpoint: IN token to endpoint 1 (no such endpoint here, nothing is sent), and the ACK the host
    # would send for that endpoint's data
    yield from send_token(USBPacketID.IN, 0, 1)
    yield from idle(40)
    yield from send_handshake(USBPacketID.ACK)
    yield from idle(10)
    # status stage of the SET_ADDRESS, still at the old address
    response = yield from in_token(0)
    note("status-stage IN at the old address 0 -> %s" % describe(response))
    check(response is not None and len(response) > 0, "the status stage at the old address must be answered (the address may "
          "change only after the status stage of SET_ADDRESS itself was acknowledged)")
    yield from send_handshake(USBPacketID.ACK)
    yield from idle(10)
    response = yield from setup_transaction(NEW_ADDRESS, 0x80, USBStandardRequests.GET_CONFIGURATION, length=1)
    check(response is not None and len(response) > 0, "after the acknowledged status stage the device answers at the new address")

sim = Simulator(dut)
sim.add_clock(1 / 60e6, domain="usb")
sim.add_sync_process(testbench, domain="usb")
sim.run()

if failures:
    print("FAIL: " + failures[0])
    sys.exit(1)

print("PASS")
sys.exit(0)
