"""C43 -- training ordered sets are emitted and detected exactly."""
from ..ir import E
from .. import q
from ..fsm import state_outcomes, must_exit, assignments, holds, lit_atoms

TITLE = 'training ordered sets: emitter bursts / detector thresholds'
FLOOR = 150
DECIDES = ('For every TSBurstDetector / TSEmitter instance built by TSTransceiver (with its real constructor arguments) and '
           'for further table lengths, burst lengths and control masks: (a) DETECTOR -- from the first-word wait state a '
           'chain of exactly len(set) match edges leads to the state that raises `detected`; edge k compares the whole '
           'received word with table word k (for a set with configuration field: word 1 with the hot-reset / loopback / '
           'no-scrambling bits 8, 10, 11 masked out and the identifier symbols 6-7 kept) and ctrl with the first-word mask '
           '/ 0, under sink.valid; each chain state advances on a match, holds without sink.valid, and on a valid '
           'non-matching word ends the run of consecutive sets (moves to a state that clears the counter) -- for the '
           'first-word wait state this is required iff it can be entered with a non-zero counter; the reporting state is '
           'left after one cycle on every path (one count per set), goes to the wait state on a gap, consumes a matching '
           'first word of the next set, restarts on a mismatch; for every valuation of its conditions the counter is '
           'cleared and `detected` raised exactly when the threshold comparison holds and incremented by one otherwise; '
           'the comparison reports after exactly sets_in_burst sets; the counter can hold sets_in_burst-1; `detected` is a '
           'one-cycle strobe; the counter is not written elsewhere on match / gap paths; the configuration flags are '
           'captured from payload bits 8 / 10 / 11 only on the accepted configuration word. (b) EMITTER -- idle waits for '
           '`start` and drives nothing; exactly len(set) word states follow one another under source.ready and hold '
           'without it; word state k drives valid=1, ctrl = first-word mask / 0 and payload = table word k for every '
           'valuation (word 1 of a configured set additionally ORs request_hot_reset / request_loopback / '
           'request_no_scrambling into bits 8 / 10 / 11 -- later-assignment-wins evaluated); in the last word state, for '
           'every valuation, `done` and the counter clear happen exactly under ready & comparison, the increment exactly '
           'under ready & ~comparison, nothing without ready; the comparison completes after exactly transmit_burst_length '
           'sets; the counter can hold that minus one; after the burst the machine returns to idle unless `start` is still '
           'high. (c) TSTransceiver -- the tseq/ts1/inverted-ts1/ts2 `*_detected` outputs are driven by detectors whose '
           'tables equal the USB 3.2 symbols (TSEQ table 6-3, TS1 = COM x4, 0, 0, D10.2 x10, TS2 with D5.2, inverted TS1 '
           'with D21.5), first-word masks 0001 / 1111, thresholds 8 for TS1/TS2; the generators selected by '
           'send_tseq/ts1/ts2_burst use the same tables with bursts 65536 / 16 / 16; sink tap, start, ready, request and '
           'flag wiring; burst_complete is the OR of the three `done`. ')
NOT_DECIDED = ('reporting latency; that the configuration flags are captured before the rest of the set has been verified; '
               'that the restart state consumes one word unexamined (the set following a corrupted set is not counted); '
               'priority between several simultaneous send_*_burst requests; the TSEQ detector threshold value (not a '
               'specification constant).')

MOD = 'usb3.link.ordered_sets'
PAY, CTRL, VALID = 'self.sink.payload', 'self.sink.ctrl', 'self.sink.valid'
READY, START = 'self.source.ready', 'self.start'
FULL = 0xFFFFFFFF
# USB 3.2 table 6-5/6-6: symbol 5 of TS1/TS2 (bits 8..15 of word 1): bit 0 reset, bit 2 loopback, bit 3 disable scrambling
BIT_RESET, BIT_LOOPBACK, BIT_NOSCRAMBLE = 8, 10, 11
CFG_BITS = (1 << BIT_RESET) | (1 << BIT_LOOPBACK) | (1 << BIT_NOSCRAMBLE)
ID_MASK = 0xFFFF0000          # symbols 6, 7 of word 1: the TS identifier


def D(x, y):
    return (y << 5) | x


COM = 0xBC    # K28.5


def words(symbols):
    assert len(symbols) % 4 == 0
    return [symbols[i] | (symbols[i + 1] << 8) | (symbols[i + 2] << 16) | (symbols[i + 3] << 24)
            for i in range(0, len(symbols), 4)]


# USB 3.2 section 6.4.1: TSEQ (table 6-3), TS1 (6-4), TS2 (6-5).  Symbol 0 travels in the least significant byte.
TSEQ_W = words([COM, D(31, 7), D(23, 0), D(0, 6), D(20, 0), D(18, 5), D(7, 7), D(2, 0), D(2, 4), D(18, 3), D(14, 3),
                D(8, 1), D(6, 5), D(30, 5), D(13, 3), D(31, 5)] + [D(10, 2)] * 16)
TS1_W = words([COM] * 4 + [0, 0] + [D(10, 2)] * 10)
TS2_W = words([COM] * 4 + [0, 0] + [D(5, 2)] * 10)
# inverted polarity: the complemented 10-bit code of D10.2 decodes as D21.5; K28.5 and D0.0 decode as themselves
INV_TS1_W = words([COM] * 4 + [0, 0] + [D(21, 5)] * 10)


# ------------------------------------------------------------------------------------------------- helpers
def _test_of(e):
    """('data', mask, value) / ('ctrl', value) for a comparison of the received word with a constant."""
    if not (isinstance(e, E) and e.op == '==' and len(e.args) == 2):
        return None
    a, b = e.args
    if a.op == 'const' and b.op != 'const':
        k, x = a.val, b
    elif b.op == 'const' and a.op != 'const':
        k, x = b.val, a
    else:
        return None
    if x.op == 'sig':
        n = x.args[0].name
        if n == PAY:
            return ('data', FULL, k)
        if n == CTRL:
            return ('ctrl', k)
        return None
    if x.op == '&' and len(x.args) == 2:
        cs = [t for t in x.args if t.op == 'const']
        ss = [t for t in x.args if t.op == 'sig' and t.args[0].name == PAY]
        if len(cs) == 1 and len(ss) == 1:
            return ('data', cs[0].val & FULL, k)
    if x.op == 'slice' and isinstance(x.args[0], E) and x.args[0].op == 'sig' and x.args[0].args[0].name == PAY \
            and isinstance(x.args[1], int) and isinstance(x.args[2], int):
        lo, hi = x.args[1], x.args[2]
        return ('data', ((1 << (hi - lo)) - 1) << lo, k << lo)
    return None


class Match:
    def __init__(self, edge, mask, val, ctrl, atoms):
        self.edge, self.mask, self.val, self.ctrl, self.atoms = edge, mask, val, ctrl, atoms

    def test(self):
        return (self.mask, self.val, self.ctrl)


def _match(ctx, fsm, s, what):
    """The edge of state s taken when the received word equals a constant (None if the state has no such edge)."""
    cands = []
    for e in fsm.out_edges(s):
        ts = [(l, _test_of(l.e)) for l in e.guard if l.pos and isinstance(l.e, E)]
        if any(t and t[0] == 'data' for _, t in ts):
            cands.append((e, [(l, t) for l, t in ts if t]))
    if not cands:
        return None
    ctx.need(len(cands) == 1, 'at most one edge comparing the received word with a constant in %s (%s), found %d'
             % (s, what, len(cands)))
    e, ts = cands[0]
    mask = val = 0
    for l, t in ts:
        if t[0] == 'data':
            ctx.need((val ^ t[2]) & mask & t[1] == 0, 'consistent data comparisons on %s' % q.fmt(e))
            mask |= t[1]
            val |= t[2]
    cs = [t[1] for l, t in ts if t[0] == 'ctrl']
    ctx.need(len(cs) <= 1, 'at most one ctrl comparison on %s' % q.fmt(e))
    return Match(e, mask, val, cs[0] if cs else None, [l.e.canon() for l, t in ts])


def _outs(fsm, s, assume):
    return set(state_outcomes(fsm, s, assume))


def _names(o):
    return sorted('(stay)' if d is None else str(d) for d in o)


def _counter_of(ctx, site, public, what):
    """(literal expr, counter signal, number of visits per completion) of the completion comparison guarding `site`."""
    lits = []
    for l in site.guard:
        if l.pos and isinstance(l.e, E) and q.const_eq(l.e) and len(l.e.sigs()) == 1 and not (l.e.sigs() & public):
            lits.append(l.e)
    if not lits:
        # `counter == 0` of a ONE-BIT counter is the flag ~counter (threshold 1 written as `count == N - 1`)
        z = [l.e for l in site.guard if not l.pos and isinstance(l.e, E) and l.e.op == 'sig' and l.e.w == 1 and
             not (l.e.sigs() & public) and not l.e.canon().startswith('self.')]
        if len(z) == 1:
            return z[0], z[0].canon(), 1, False
    ctx.need(len(lits) == 1, 'one comparison of a counter with a constant guarding %s' % what)
    e = lits[0]
    cnt = sorted(e.sigs())[0]
    k, x = q.const_eq(e)
    ctx.need(isinstance(k, int), 'constant in %s' % e.canon())
    if x == '1 + ' + cnt:
        per = k
    elif x == cnt:
        per = k + 1
    else:
        ctx.need(False, 'shape of the completion comparison: %s' % e.canon())
    return e, cnt, per, True


def _winner(items, asg):
    win = None
    for a in sorted(items, key=lambda a: a.order):
        if q.eval_guard(a, asg) is True:
            win = a
    return win


def _guard_leaves(items):
    return q.bool_leaves(*[l.e for a in items for l in a.guard if isinstance(l.e, E)])


def _values(ctx, ir, name, state, extra=()):
    """[(assignment, value)] of signal `name` in FSM state `state` for every valuation of the conditions of its
    drivers (whole-signal and constant-slice writes, a later assignment wins; undriven comb = 0)."""
    ds = sorted([a for a in ir.drivers(name, exact=True) if q.state_of(a) in (state, None)], key=lambda a: a.order)
    leaves = set(_guard_leaves(ds)) | set(extra)
    for a in ds:
        if isinstance(a.rhs, E) and a.rhs.op == 'sig':
            leaves.add(a.rhs.canon())
        elif isinstance(a.rhs, E) and a.rhs.op != 'const':
            # a word computed from one-bit inputs (e.g. a constant OR-ed with a Cat of request flags): its inputs are conditions
            for n_ in a.rhs.sigs():
                if getattr(ir.signals.get(n_), 'w', 1) in (1, None):
                    leaves.add(n_)
    out = []
    for asg in q.all_assignments(sorted(leaves)):
        val = 0
        for a in ds:
            if q.eval_guard(a, asg) is not True:
                continue
            r = a.rhs
            if isinstance(r, E) and r.op == 'const':
                rv = r.val
            elif isinstance(r, E) and r.op == 'sig' and r.canon() in asg:
                rv = int(asg[r.canon()])
            elif isinstance(r, E) and all(n_ in asg for n_ in r.sigs()):
                from ..num import ev as _nev, NoEval as _NoEval
                try:
                    rv = _nev(r, {n_: int(asg[n_]) for n_ in r.sigs()})
                except _NoEval as ex_:
                    ctx.need(False, 'right-hand side of %s evaluates from one-bit inputs (%s)' % (q.fmt(a), ex_))
            else:
                ctx.need(False, 'constant or 1-bit right-hand side of %s' % q.fmt(a))
            if a.lhs.op == 'sig':
                val = rv
            elif a.lhs.op == 'slice' and isinstance(a.lhs.args[0], E) and a.lhs.args[0].op == 'sig' and \
                    isinstance(a.lhs.args[1], int) and isinstance(a.lhs.args[2], int):
                lo, hi = a.lhs.args[1], a.lhs.args[2]
                m = ((1 << (hi - lo)) - 1) << lo
                val = (val & ~m) | ((rv << lo) & m)
            else:
                ctx.need(False, 'whole-signal or constant-slice target of %s' % q.fmt(a))
        out.append((asg, val))
    return out


def _tr(asg):
    return ', '.join('%s=%d' % (k, v) for k, v in sorted(asg.items()))


def _resets_on(ir, fsm, s, assume, cnt, clearing):
    """Under `assume`, does every evaluation of state s end the run of consecutive sets, i.e. move to a state that
    clears the counter or clear it right here?  -> (ok, counterexample)"""
    edges = sorted(fsm.out_edges(s), key=lambda e: e.order)
    drv = sorted([a for a in ir.drivers(cnt, exact=True) if q.state_of(a) == s], key=lambda a: a.order)
    atoms = set()
    for it in edges + drv:
        for l in it.guard:
            atoms |= set(lit_atoms(l))
    for asg in assignments(atoms, assume):
        dst = s
        for e in edges:
            if holds(e.guard, asg):
                dst = e.dst
        win = None
        for a in drv:
            if holds(a.guard, asg):
                win = a
        if dst in clearing or (win is not None and q.is_zero(win.rhs)):
            continue
        return False, 'next state %s with the counter kept when %s' % (dst, _tr(asg))
    return True, None


# ------------------------------------------------------------------------------------------------- detector
def check_detector(ctx, tag, kw, set_data, first_ctrl, threshold, config, wait_results):
    C = 'TSBurstDetector'
    ir = ctx.ir(C, MOD, **kw)
    fsm = ctx.the_fsm(ir)
    n = len(set_data)
    det = q.raises(ir, 'self.detected')
    ctx.need(len(det) == 1 and q.state_of(det[0]) is not None, 'the single site raising detected, inside an FSM state')
    final = q.state_of(det[0])
    cmp_e, cnt, per, cmp_pos = _counter_of(ctx, det[0], {PAY, CTRL, VALID}, 'detected')
    cmp_atom = cmp_e.canon()
    if threshold is None:
        threshold = per
        ctx.need(per >= 1, 'positive detection threshold')
    ctx.ob('C43.det-threshold', '%s.detected.compare[%s]' % (C, tag), per == threshold, det[0].loc,
           'detected is reported after %d completed sets, configured sets_in_burst is %d (%s)' % (per, threshold, cmp_atom))
    si = ir.signals.get(cnt)
    ctx.need(si is not None and si.w is not None, 'width of the set counter %s' % cnt)
    ctx.ob('C43.det-counter-range', '%s.set-counter.range[%s]' % (C, tag), (1 << si.w) >= threshold, si.loc,
           'set counter %s (width %d, range %s) must hold sets_in_burst-1 = %d' % (cnt, si.w, si.rng, threshold - 1))

    # roles: restart (initial) state -> first-word wait state -> ... -> reporting state
    o = state_outcomes(fsm, fsm.init)
    ctx.need(len(o) == 1 and None not in o, 'the initial state has one unconditional successor (the first-word wait state)')
    wait = list(o)[0]
    ctx.need(wait != final, 'first-word wait state differs from the reporting state')
    cdrv = ir.drivers(cnt, exact=True)
    ctx.need(all(q.state_of(a) is not None for a in cdrv), 'set counter written only inside FSM states')
    clearing = set()
    for s in fsm.states:
        here = sorted([a for a in cdrv if q.state_of(a) == s], key=lambda a: a.order)
        if here and not here[-1].guard and q.is_zero(here[-1].rhs):
            clearing.add(s)

    chain, tests, s = [wait], [], wait
    looped = False
    while s != final:
        m = _match(ctx, fsm, s, 'word %d of the set' % len(tests))
        if m is None:
            looped = True
            break
        tests.append(m)
        s = m.edge.dst
        if s in chain or len(chain) > n + 2:
            looped = True
            break
        chain.append(s)
    ctx.ob('C43.det-set-length', '%s.match-chain.length[%s]' % (C, tag), not looped and len(tests) == n, fsm.state_loc.get(final),
           '%d match edges lead from the first-word wait state to the reporting state, the set has %d words%s'
           % (len(tests), n, ' (the chain ends in %s which loops back or compares nothing)' % s if looped else ''))

    for k, m in enumerate(tests[:n]):
        st = chain[k]
        role = 'word%d' % k
        if config and k == 1:
            ok = (m.mask & CFG_BITS) == 0 and (m.mask & ID_MASK) == ID_MASK and m.val == (set_data[1] & m.mask)
            want = 'payload & M == 0x%08x & M with M covering 0xffff0000 and excluding bits 8, 10, 11' % set_data[1]
        else:
            ok = m.mask == FULL and m.val == set_data[k]
            want = 'payload == 0x%08x' % set_data[k]
        ctx.ob('C43.det-word-compare', '%s.%s.data[%s]' % (C, role, tag), ok, m.edge.loc,
               'word %d of the set must be accepted iff %s; found mask 0x%08x value 0x%08x' % (k, want, m.mask, m.val))
        wc = first_ctrl if k == 0 else 0
        ctx.ob('C43.det-word-ctrl', '%s.%s.ctrl[%s]' % (C, role, tag), m.ctrl == wc, m.edge.loc,
               'word %d of the set must be accepted only with ctrl == %s; found %s' % (k, bin(wc), m.ctrl))
        am = {VALID: True}
        am.update({a: True for a in m.atoms})
        om = _outs(fsm, st, am)
        ctx.ob('C43.det-advance', '%s.%s.advance[%s]' % (C, role, tag), om == {m.edge.dst}, m.edge.loc,
               'a valid matching word %d must lead to the next chain state only: outcomes %s'
               % (k, _names(om)))
        oh = _outs(fsm, st, {VALID: False})
        ctx.ob('C43.det-idle-gap', '%s.%s.hold[%s]' % (C, role, tag), oh == {None}, fsm.state_loc.get(st),
               'without sink.valid the detector must wait in place (idle gaps are allowed): outcomes %s' % _names(oh))
        bad = None
        for a in m.atoms:
            ok, cex = _resets_on(ir, fsm, st, {VALID: True, a: False}, cnt, clearing)
            oo = _outs(fsm, st, {VALID: True, a: False})
            if m.edge.dst in oo and m.edge.dst != st:
                ok, cex = False, 'advances although %s is false' % a
            if not ok and bad is None:
                bad = cex
        if k == 0:
            dirty = sorted({e.src for e in fsm.in_edges(wait) if e.src != wait and e.src not in clearing})
            adv = [a for a in m.atoms if m.edge.dst in _outs(fsm, st, {VALID: True, a: False})]
            ctx.ob('C43.det-mismatch', '%s.word0.no-false-advance[%s]' % (C, tag), not adv, m.edge.loc,
                   'the wait state advances although %s is false' % adv)
            wait_results.append((tag, not dirty or bad is None, dirty, bad, fsm.state_loc.get(wait)))
        else:
            ctx.ob('C43.det-mismatch', '%s.%s.mismatch-restarts[%s]' % (C, role, tag), bad is None, fsm.state_loc.get(st),
                   'a valid non-matching word %d must end the run of consecutive sets (counter cleared): %s' % (k, bad))
        # the counter survives match / gap paths of the chain states
        killers = [a for a in cdrv if q.state_of(a) == st and (holds(a.guard, am) is not False or
                                                               holds(a.guard, {VALID: False}) is not False)]
        ctx.ob('C43.det-count-kept', '%s.%s.counter-untouched[%s]' % (C, role, tag), not killers, killers[0].loc if killers else None,
               'the set counter must not be written while a set is being matched or during a gap: %s'
               % [q.fmt(a) for a in killers[:2]])

    # the reporting state
    R = '%s.report-state' % C
    ok, cex = must_exit(fsm, final, {})
    ctx.ob('C43.det-count-once', '%s.exit[%s]' % (R, tag), ok, fsm.state_loc.get(final),
           'the state that counts a completed set must be left after one cycle on every path (else a set is counted '
           'more than once): %s' % (cex,))
    og = _outs(fsm, final, {VALID: False})
    ctx.ob('C43.det-idle-gap', '%s.gap[%s]' % (R, tag), og == {wait}, fsm.state_loc.get(final),
           'a gap after a completed set must lead to the first-word wait state with the counter kept: outcomes %s' % _names(og))
    mf = _match(ctx, fsm, final, 'first word of the next set') if tests else None
    if tests and mf is None:
        ctx.ob('C43.det-back-to-back', '%s.next-first-word[%s]' % (R, tag), False, fsm.state_loc.get(final),
               'the word following a completed set must be examined as word 0 of the next set, but the reporting state '
               'compares nothing (back-to-back sets lose their first word)')
    elif tests:
        am = {VALID: True}
        am.update({a: True for a in mf.atoms})
        om = _outs(fsm, final, am)
        ctx.ob('C43.det-back-to-back', '%s.next-first-word[%s]' % (R, tag),
               mf.test() == tests[0].test() and om == {tests[0].edge.dst}, mf.edge.loc,
               'the word following a completed set must be examined as word 0 of the next set (same comparison and '
               'target as the wait state): test %s vs %s, outcomes %s' % (mf.test(), tests[0].test(), _names(om)))
        bad = None
        for a in mf.atoms:
            ok, cex = _resets_on(ir, fsm, final, {VALID: True, a: False}, cnt, clearing)
            if ok and tests[0].edge.dst in _outs(fsm, final, {VALID: True, a: False}):
                ok, cex = False, 'advances although %s is false' % a
            if not ok and bad is None:
                bad = cex
        ctx.ob('C43.det-mismatch', '%s.mismatch-restarts[%s]' % (R, tag), bad is None, fsm.state_loc.get(final),
               'a valid non-matching word after a completed set must end the run of consecutive sets: %s' % bad)
    # counter / strobe truth table
    fd = [a for a in cdrv if q.state_of(a) == final]
    dd = [x for a in ir.drivers('self.detected', exact=True) if q.state_of(a) in (final, None) for x in q.flag_arms(ir, a)]
    leaves = sorted(set(_guard_leaves(fd + dd)) | {cmp_atom})
    bad = None
    for asg in q.all_assignments(leaves):
        wc, wd = _winner(fd, asg), _winner(dd, asg)
        if asg[cmp_atom] == cmp_pos:
            ok = wc is not None and q.is_zero(wc.rhs) and wd is not None and q.is_one(wd.rhs)
        else:
            ok = wc is not None and q.rhs_canon(wc) == '1 + ' + cnt and (wd is None or q.is_zero(wd.rhs))
        if not ok and bad is None:
            bad = '%s: counter <= %s, detected <= %s' % (_tr(asg), q.rhs_canon(wc) if wc else '(kept)',
                                                         q.rhs_canon(wd) if wd else '(kept)')
    ctx.ob('C43.det-count-update', '%s.counter-and-strobe[%s]' % (R, tag), bad is None, det[0].loc,
           'on every visit: threshold comparison true -> counter cleared and detected raised, false -> counter + 1 and '
           'no report; violated when %s' % bad)
    away = [a for a in cdrv if q.state_of(a) != final and not q.is_zero(a.rhs)]
    ctx.ob('C43.det-count-kept', '%s.set-counter.increment-sites[%s]' % (C, tag), not away, away[0].loc if away else None,
           'the set counter may only be advanced in the reporting state: %s' % [q.fmt(a) for a in away[:2]])
    dflt = [a for a in q.clears(ir, 'self.detected') if a.state is None and not a.guard and a.order < det[0].order and
            a.domain == det[0].domain]
    ctx.ob('C43.det-strobe', '%s.detected.pulse[%s]' % (C, tag), bool(dflt) or det[0].domain == 'comb', det[0].loc,
           'detected must fall back to 0 in every cycle in which it is not raised (reports once per burst)')

    if config:
        ctx.need(len(tests) >= 2, 'configuration word state')
        for name, bit in (('self.hot_reset', BIT_RESET), ('self.loopback_requested', BIT_LOOPBACK),
                          ('self.scrambling_disabled', BIT_NOSCRAMBLE)):
            ds = ir.drivers(name, exact=True)
            if not ds:
                ctx.ob('C43.det-config-flag', '%s.%s[%s]' % (C, name[5:], tag), False, fsm.state_loc.get(chain[1]),
                       '%s is never driven although the set carries a configuration field' % name)
                continue
            ok = len(ds) == 1 and q.rhs_canon(ds[0]) == '%s[%d:%d]' % (PAY, bit, bit + 1) and \
                q.state_of(ds[0]) == chain[1] and q.atoms(ds[0]) >= q.atoms(tests[1].edge) and ds[0].domain != 'comb'
            ctx.ob('C43.det-config-flag', '%s.%s[%s]' % (C, name[5:], tag), ok, ds[0].loc,
                   '%s must be captured from payload bit %d exactly when word 1 of the set is accepted: %s'
                   % (name, bit, [q.fmt(a) for a in ds[:2]]))


# ------------------------------------------------------------------------------------------------- emitter
REQS = (('self.request_hot_reset', BIT_RESET), ('self.request_loopback', BIT_LOOPBACK),
        ('self.request_no_scrambling', BIT_NOSCRAMBLE))


def check_emitter(ctx, tag, kw, set_data, first_ctrl, total, config):
    C = 'TSEmitter'
    ir = ctx.ir(C, MOD, **kw)
    fsm = ctx.the_fsm(ir)
    n = len(set_data)
    idle = fsm.init
    done = q.raises(ir, 'self.done')
    ctx.need(len(done) == 1 and q.state_of(done[0]) is not None, 'the single site raising done, inside an FSM state')
    last = q.state_of(done[0])
    cmp_e, cnt, per, cmp_pos = _counter_of(ctx, done[0], {READY, START}, 'done')
    cmp_atom = cmp_e.canon()
    ctx.ob('C43.emit-burst-length', '%s.done.compare[%s]' % (C, tag), per == total, done[0].loc,
           'the burst ends after %d sets, configured transmit_burst_length is %d (%s)' % (per, total, cmp_atom))
    si = ir.signals.get(cnt)
    ctx.need(si is not None and si.w is not None, 'width of the sent-sets counter %s' % cnt)
    ctx.ob('C43.emit-counter-range', '%s.sent-counter.range[%s]' % (C, tag), (1 << si.w) >= total, si.loc,
           'sent-sets counter %s (width %d, range %s) must hold transmit_burst_length-1 = %d' % (cnt, si.w, si.rng, total - 1))

    o1 = _outs(fsm, idle, {START: True})
    o0 = _outs(fsm, idle, {START: False})
    ctx.need(len(o1) == 1 and None not in o1, 'idle state starts the first word state under start')
    w0 = list(o1)[0]
    ctx.ob('C43.emit-idle', '%s.idle.wait-for-start[%s]' % (C, tag), o0 == {None}, fsm.state_loc.get(idle),
           'the idle state must wait for start: outcomes without start %s' % _names(o0))
    quiet = [v for asg, v in _values(ctx, ir, 'self.source.valid', idle) if v]
    ctx.ob('C43.emit-idle', '%s.idle.silent[%s]' % (C, tag), not quiet, fsm.state_loc.get(idle),
           'nothing may be emitted while idle (source.valid must be 0)')

    chain, s, broken = [w0], w0, None
    while s != last:
        o = _outs(fsm, s, {READY: True})
        if len(o) != 1 or None in o or list(o)[0] in chain or len(chain) > n + 2:
            broken = 'word state %s under source.ready goes to %s' % (s, _names(o))
            break
        s = list(o)[0]
        chain.append(s)
    ctx.ob('C43.emit-set-length', '%s.word-chain.length[%s]' % (C, tag), broken is None and len(chain) == n,
           fsm.state_loc.get(chain[-1]), '%d word states lead from start to the state that raises done, the set has %d words%s'
           % (len(chain), n, '; ' + broken if broken else ''))
    for k, st in enumerate(chain[:n]):
        role = 'word%d' % k
        loc = fsm.state_loc.get(st)
        if st != last:
            oh = _outs(fsm, st, {READY: False})
            ctx.ob('C43.emit-handshake', '%s.%s.hold[%s]' % (C, role, tag), oh == {None}, loc,
                   'a word must be held until source.ready: outcomes without ready %s' % _names(oh))
        vv = [(a, v) for a, v in _values(ctx, ir, 'self.source.valid', st) if v != 1]
        ctx.ob('C43.emit-word', '%s.%s.valid[%s]' % (C, role, tag), not vv, loc, 'source.valid must be 1 in word state %d' % k)
        wc = first_ctrl if k == 0 else 0
        cv = [(a, v) for a, v in _values(ctx, ir, 'self.source.ctrl', st) if v != wc]
        ctx.ob('C43.emit-word', '%s.%s.ctrl[%s]' % (C, role, tag), not cv, loc,
               'source.ctrl must be %s in word state %d; found %s' % (bin(wc), k, bin(cv[0][1]) if cv else ''))
        cfg_word = config and k == 1
        bad = None
        for asg, v in _values(ctx, ir, 'self.source.payload', st, extra=[r for r, _ in REQS] if cfg_word else ()):
            want = set_data[k]
            if cfg_word:
                for r, b in REQS:
                    if asg[r]:
                        want |= 1 << b
            if v != want and bad is None:
                bad = 'payload 0x%08x instead of 0x%08x when %s' % (v, want, _tr(asg) or 'always')
        ctx.ob('C43.emit-word', '%s.%s.payload[%s]' % (C, role, tag), bad is None, loc,
               'word %d of the set must be 0x%08x%s: %s' % (k, set_data[k], ' with the requested configuration bits 8/10/11 '
                                                            'ORed in' if cfg_word else '', bad))
    # last word state
    L = '%s.last-word' % C
    loc = fsm.state_loc.get(last)
    oh = _outs(fsm, last, {READY: False})
    ctx.ob('C43.emit-handshake', '%s.hold[%s]' % (L, tag), oh == {None}, loc,
           'the last word must be held until source.ready: outcomes without ready %s' % _names(oh))
    oc = _outs(fsm, last, {READY: True, cmp_atom: not cmp_pos})
    ctx.ob('C43.emit-burst', '%s.continue[%s]' % (L, tag), oc == {w0}, loc,
           'before the burst is complete the next set must follow immediately: outcomes %s' % _names(oc))
    os_ = _outs(fsm, last, {READY: True, cmp_atom: cmp_pos, START: False})
    ctx.ob('C43.emit-burst', '%s.stop[%s]' % (L, tag), os_ == {idle}, loc,
           'after the last set of the burst, without start, the emitter must become idle (exactly N sets): outcomes %s' % _names(os_))
    og = _outs(fsm, last, {READY: True, cmp_atom: cmp_pos, START: True})
    ctx.ob('C43.emit-burst', '%s.restart[%s]' % (L, tag), og <= {idle, w0}, loc,
           'after the last set of the burst, with start, a new burst starts from word 0: outcomes %s' % _names(og))
    cdrv = ir.drivers(cnt, exact=True)
    fd = [a for a in cdrv if q.state_of(a) == last]
    dd = [x for a in ir.drivers('self.done', exact=True) if q.state_of(a) in (last, None) for x in q.flag_arms(ir, a)]
    leaves = sorted(set(_guard_leaves(fd + dd)) | {cmp_atom, READY})
    bad = None
    for asg in q.all_assignments(leaves):
        wc, wd = _winner(fd, asg), _winner(dd, asg)
        quiet = wd is None or q.is_zero(wd.rhs)
        if not asg[READY]:
            ok = wc is None and quiet
        elif asg[cmp_atom] == cmp_pos:
            ok = wc is not None and q.is_zero(wc.rhs) and wd is not None and q.is_one(wd.rhs)
        else:
            ok = wc is not None and q.rhs_canon(wc) == '1 + ' + cnt and quiet
        if not ok and bad is None:
            bad = '%s: counter <= %s, done <= %s' % (_tr(asg), q.rhs_canon(wc) if wc else '(kept)',
                                                     q.rhs_canon(wd) if wd else '0')
    ctx.ob('C43.emit-count-update', '%s.counter-and-done[%s]' % (L, tag), bad is None, done[0].loc,
           'in the last word state: ready & comparison -> done and counter cleared; ready & ~comparison -> counter + 1; '
           'not ready -> nothing; violated when %s' % bad)
    away = [a for a in cdrv if q.state_of(a) != last and not (q.state_of(a) == idle and q.is_zero(a.rhs))]
    ctx.ob('C43.emit-count-update', '%s.sent-counter.sites[%s]' % (C, tag), not away, away[0].loc if away else None,
           'the sent-sets counter may only be written when the last word of a set is accepted: %s' % [q.fmt(a) for a in away[:2]])


# ------------------------------------------------------------------------------------------------- transceiver
def _concrete(v):
    return isinstance(v, (int, bool)) or (isinstance(v, (list, tuple)) and all(isinstance(x, int) for x in v))


def _one_driver(ctx, ir, name, want_rhs, rule, key, what, guard_within=None):
    ds = ir.drivers(name, exact=True)
    ctx.need(ds, 'driver of %s' % name)
    if want_rhs == '1':
        ds = q.raises(ir, name)            # `x.eq(cond)` and `with m.If(cond): x.eq(1)` in one form
    if guard_within is None:
        good = [a for a in ds if not a.guard and q.rhs_canon(a) == want_rhs]
        ok = len(ds) == 1 and len(good) == 1
    else:
        good = [a for a in ds if q.atoms(a) <= guard_within and q.rhs_canon(a) == want_rhs]
        ok = bool(good)
    ctx.ob(rule, key, ok, ds[0].loc, '%s: %s' % (what, [q.fmt(a) for a in ds[:3]]))


def check_transceiver(ctx, wait_results):
    T = 'TSTransceiver'
    ir = ctx.ir(T, MOD)
    subs = {s.name: s for s in ir.submodules}
    for s_ in ir.submodules:                         # a submodule kept in a table is referred to by where it was created
        subs.setdefault(getattr(s_.obj, 'path', None), s_)

    def pfx(s_):
        return s_.name if any(n.startswith(s_.name + '.') for n in ir.signals) else s_.obj.path

    def sub_for(a, suffix, cls):
        if not (isinstance(a.rhs, E) and a.rhs.op == 'sig' and a.rhs.canon().endswith(suffix)):
            return None
        s = subs.get(a.rhs.canon()[:-len(suffix)])
        if s is None or s.obj.clsname != cls or getattr(s.obj, 'args', None):
            return None
        return s

    done_ports = []
    for pub, tag, table, fc, thr, cfg in (('self.tseq_detected', 'tseq', TSEQ_W, 0b0001, None, False),
                                          ('self.ts1_detected', 'ts1', TS1_W, 0b1111, 8, False),
                                          ('self.inverted_ts1_detected', 'inverted-ts1', INV_TS1_W, 0b1111, 8, False),
                                          ('self.ts2_detected', 'ts2', TS2_W, 0b1111, 8, True)):
        ds = ir.drivers(pub, exact=True)
        ctx.need(ds, 'driver of %s' % pub)
        sub = sub_for(ds[0], '.detected', 'TSBurstDetector') if len(ds) == 1 and not ds[0].guard else None
        ctx.ob('C43.trx-detector', '%s.%s.source' % (T, pub[5:]), sub is not None, ds[0].loc,
               '%s must be the detected strobe of one TSBurstDetector: %s' % (pub, [q.fmt(a) for a in ds[:2]]))
        if sub is None:
            continue
        kw = dict(sub.obj.kwargs)
        ctx.need(all(_concrete(v) for v in kw.values()) and isinstance(kw.get('set_data'), (list, tuple)),
                 'constant constructor arguments of %s' % sub.name)
        got = list(kw['set_data'])
        diff = [i for i in range(max(len(got), len(table))) if i >= len(got) or i >= len(table) or got[i] != table[i]]
        ctx.ob('C43.spec-table', '%s.%s.set_data' % (T, tag + '-detector'), not diff, sub.loc,
               'the %s detector table differs from the specification symbols at word(s) %s: %s vs %s'
               % (tag, diff, ['0x%08x' % x for x in got], ['0x%08x' % x for x in table]))
        for f in ('valid', 'payload', 'ctrl'):
            _one_driver(ctx, ir, '%s.sink.%s' % (pfx(sub), f), 'self.sink.' + f, 'C43.trx-wiring',
                        '%s.%s-detector.sink.%s' % (T, tag, f), 'the %s detector must always see the received %s' % (tag, f))
        if cfg:
            for port, out in (('hot_reset', 'self.hot_reset_requested'), ('loopback_requested', 'self.loopback_requested'),
                              ('scrambling_disabled', 'self.no_scrambling_requested')):
                _one_driver(ctx, ir, out, '%s.%s' % (pfx(sub), port), 'C43.trx-wiring', '%s.%s' % (T, out[5:]),
                            '%s must report the %s flag of the TS2 detector' % (out, port))
        check_detector(ctx, tag, kw, table, fc, thr, cfg, wait_results)

    for send, tag, table, fc, total, cfg in (('self.send_tseq_burst', 'tseq', TSEQ_W, 0b0001, 65536, False),
                                             ('self.send_ts1_burst', 'ts1', TS1_W, 0b1111, 16, False),
                                             ('self.send_ts2_burst', 'ts2', TS2_W, 0b1111, 16, True)):
        g = {(send, True)}
        ds = [a for a in ir.drivers('self.source.payload', exact=True) if q.atoms(a) == g]
        ctx.need(ir.readers(send), 'request input %s' % send)
        sub = sub_for(ds[0], '.source.payload', 'TSEmitter') if len(ds) == 1 else None
        ctx.ob('C43.trx-generator', '%s.%s.selects' % (T, send[5:]), sub is not None, ds[0].loc if ds else None,
               'under %s the transmitted payload must come from one TSEmitter: %s' % (send, [q.fmt(a) for a in ds[:2]]))
        if sub is None:
            continue
        kw = dict(sub.obj.kwargs)
        ctx.need(all(_concrete(v) for v in kw.values()) and isinstance(kw.get('set_data'), (list, tuple)),
                 'constant constructor arguments of %s' % sub.name)
        got = list(kw['set_data'])
        diff = [i for i in range(max(len(got), len(table))) if i >= len(got) or i >= len(table) or got[i] != table[i]]
        ctx.ob('C43.spec-table', '%s.%s.set_data' % (T, tag + '-generator'), not diff, sub.loc,
               'the %s generator table differs from the specification symbols at word(s) %s: %s vs %s'
               % (tag, diff, ['0x%08x' % x for x in got], ['0x%08x' % x for x in table]))
        for f in ('valid', 'ctrl'):
            _one_driver(ctx, ir, 'self.source.' + f, '%s.source.%s' % (pfx(sub), f), 'C43.trx-wiring',
                        '%s.%s-generator.source.%s' % (T, tag, f), 'under %s source.%s must come from the %s generator'
                        % (send, f, tag), guard_within=g)
        _one_driver(ctx, ir, pfx(sub) + '.source.ready', 'self.source.ready', 'C43.trx-wiring',
                    '%s.%s-generator.source.ready' % (T, tag), 'the %s generator must see source.ready while selected' % tag,
                    guard_within=g)
        _one_driver(ctx, ir, pfx(sub) + '.start', '1', 'C43.trx-wiring', '%s.%s-generator.start' % (T, tag),
                    '%s must start the %s generator' % (send, tag), guard_within=g)
        if cfg:
            for r, _ in REQS:
                _one_driver(ctx, ir, '%s.%s' % (pfx(sub), r[5:]), r, 'C43.trx-wiring', '%s.%s-generator.%s' % (T, tag, r[5:]),
                            'the TS2 generator must receive %s' % r, guard_within=g)
        done_ports.append(pfx(sub) + '.done')
        check_emitter(ctx, tag, kw, table, fc, total, cfg)

    bc = ir.drivers('self.burst_complete', exact=True)
    ctx.need(bc, 'driver of burst_complete')
    ok = len(bc) == 1 and not bc[0].guard and isinstance(bc[0].rhs, E) and \
        sorted(d.canon() for d in q.disjuncts(bc[0].rhs)) == sorted(done_ports) and len(done_ports) == 3
    ctx.ob('C43.trx-wiring', '%s.burst_complete' % T, ok, bc[0].loc,
           'burst_complete must be the OR of the done strobes of the three generators %s: %s' % (done_ports, q.fmt(bc[0])))


# ------------------------------------------------------------------------------------------------- driver
def _det(ctx, res, set_data, fc, thr, cfg):
    tag = 'n%d,ctrl%x,thr%d%s' % (len(set_data), fc, thr, ',cfg' if cfg else '')
    check_detector(ctx, tag, dict(set_data=list(set_data), first_word_ctrl=fc, sets_in_burst=thr, include_config=cfg),
                   list(set_data), fc, thr, cfg, res)


def _emit(ctx, set_data, fc, total, cfg):
    tag = 'n%d,ctrl%x,len%d%s' % (len(set_data), fc, total, ',cfg' if cfg else '')
    check_emitter(ctx, tag, dict(set_data=list(set_data), first_word_ctrl=fc, transmit_burst_length=total,
                                 include_config=cfg), list(set_data), fc, total, cfg)


def run(ctx):
    res = []
    check_transceiver(ctx, res)
    # the constructor space beyond what TSTransceiver instantiates
    two = [0x1234BCBC, 0x0000A5A5]
    _det(ctx, res, TS2_W, 0b1111, 1, True)
    _det(ctx, res, two, 0b0011, 3, False)
    _emit(ctx, TS2_W, 0b1111, 1, True)
    _emit(ctx, two, 0b0011, 3, False)
    if ctx.tier == 'thorough':
        three = [0xBCBCBCBC, 0x11110000, 0x22222222]
        five = three + [0x33333333, 0x44444444]
        for sd, fc, cfg in (([0x1234BCBC, 0xA5A50000], 0b0001, True), (three, 0b1111, False), (five, 0b0101, True), (TSEQ_W, 0b0001, False)):
            for thr in (1, 2, 5, 8, 255, 256, 257):
                _det(ctx, res, sd, fc, thr, cfg)
                _emit(ctx, sd, fc, thr, cfg)
        _emit(ctx, TS1_W, 0b1111, 65535, False)
    ctx.need(res, 'first-word wait states examined')
    badr = [r for r in res if not r[1]]
    ctx.ob('C43.det-consecutive', 'TSBurstDetector.first-word-wait.mismatch-after-gap', not badr, (badr or res)[0][4],
           'the first-word wait state can be entered with a non-zero set counter (from %s) but a valid non-matching word '
           'there does not end the run of consecutive sets, so sets separated by gap + arbitrary data are counted as '
           'consecutive: %s [configurations: %s]' % (badr[0][2] if badr else '', badr[0][3] if badr else '',
                                                     ', '.join(r[0] for r in badr)))
