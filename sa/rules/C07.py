"""C07 -- control transfers follow the setup/data/status stage protocol."""
from ..ir import E
from .. import q
from ..fsm import state_outcomes, reachable

TITLE = 'control transfer stages'
FLOOR = 20
DECIDES = ('USBControlEndpoint (states by role): (a) exhaustiveness -- in every state other than the setup-wait state a new SETUP '
           'token leads back to the setup-wait state (exact last-wins outcome); (b) the setup-wait state advances only on '
           'setup_decoder.packet.received for this endpoint: to the IN-data state iff length != 0 and device-to-host, to the '
           'OUT-data state iff length != 0 and host-to-device, to the IN-status state iff length == 0; data_requested is raised '
           'only in the IN-data state under ready_for_response & is_in; the IN-data state moves to the OUT-status state on an '
           'OUT/PING token, the OUT-data state to the IN-status state on an IN token; status_requested is raised only in the '
           'status states, in the direction opposite to the data stage; (c) every strobe towards the handlers, every ACK and '
           'every stage-advancing edge carries the endpoint-number atom (tokens for other endpoints change nothing); '
           '(d) handler side: every non-idle state of StandardRequestHandler must react to a new setup.received (a new SETUP '
           'starts a fresh transfer even if the previous one was abandoned). ')
NOT_DECIDED = ('host-model transaction results; a SETUP token addressed to a different endpoint number also returns the FSM to the '
               'setup-wait state (conservative, LUNA supports one control endpoint).')
T = 'self.interface.tokenizer.'


def run(ctx):
    ir = ctx.ir('USBControlEndpoint', 'usb2.control')
    fsm = ctx.the_fsm(ir)
    W = fsm.init
    RCV, LEN, DIR = 'setup_decoder.packet.received', 'setup_decoder.packet.length', 'setup_decoder.packet.is_in_request'
    # the endpoint gate: the atom of the dispatch edges that is not one of the SETUP-packet conditions
    cand = set()
    for e in fsm.out_edges(W):
        cand |= {a for a, p in q.atoms(e) if p and a not in (RCV, LEN, '0 == ' + LEN, DIR)}
    if not cand:
        # the setup-wait state is left on a received SETUP packet alone: the decoder reports SETUPs for every endpoint, so
        # a SETUP addressed to another endpoint starts a control transfer here
        ctx.ob('C07.endpoint-gate', 'USBControlEndpoint.setup-wait.dispatch', False, fsm.state_loc[W],
               'the setup-wait state must be left only for a SETUP addressed to this endpoint; its edges carry no endpoint '
               'condition: %s' % [q.fmt(e)[:160] for e in fsm.out_edges(W)])
    ctx.need(len(cand) == 1, 'the endpoint gate of the setup-wait state (candidates %s)' % sorted(cand))
    EP = cand.pop()
    want_ep = '0 == ' + T + 'endpoint'
    live = EP == want_ep
    if not live and EP in ir.signals:
        d = q.comb_def(ir, EP)
        live = d is not None and d.canon() == want_ep
    ctx.ob('C07.endpoint-gate-live', 'USBControlEndpoint.endpoint-gate', live, fsm.state_loc[W],
           'the endpoint gate must be the live comparison tokenizer.endpoint == endpoint number (%s): new_token is a one-cycle strobe raised in '
           'the very cycle tokenizer.endpoint changes, so a registered or otherwise delayed copy (%s) judges a token by the previous token\'s '
           'endpoint' % (want_ep, EP))

    def out(state, **kw):
        return set(state_outcomes(fsm, state, kw))
    base = {RCV: True, EP: True}
    din = state_outcomes(fsm, W, dict(base, **{LEN: True, DIR: True}))
    dout = state_outcomes(fsm, W, dict(base, **{LEN: True, DIR: False}))
    sin = state_outcomes(fsm, W, dict(base, **{LEN: False, DIR: False}))
    sin2 = state_outcomes(fsm, W, dict(base, **{LEN: False, DIR: True}))
    ctx.need(len(din) == 1 and len(dout) == 1 and len(sin) == 1 and len(sin2) == 1, 'successors of the setup-wait state')
    DIN, DOUT, SIN = list(din)[0], list(dout)[0], list(sin)[0]
    ok = len({W, DIN, DOUT, SIN}) == 4 and None not in (DIN, DOUT, SIN) and set(sin2) == {SIN}
    ctx.ob('C07.setup-dispatch', 'USBControlEndpoint.setup-wait.dispatch', ok, fsm.state_loc[W],
           'IN data stage iff length & device-to-host, OUT data stage iff length & host-to-device, IN status iff no data '
           '(whatever the direction bit): length&in -> %s, length&out -> %s, no length&out -> %s, no length&in -> %s' % (
               DIN, DOUT, SIN, sorted(map(str, sin2))))
    for name, asg in (('not-received', {RCV: False}), ('other-endpoint', {RCV: True, EP: False})):
        o = state_outcomes(fsm, W, asg)
        ctx.ob('C07.setup-dispatch', 'USBControlEndpoint.setup-wait.' + name, set(o) == {None}, fsm.state_loc[W],
               'the setup-wait state only advances on a decoded SETUP for this endpoint: %s' % sorted(map(str, o)))
    tok = {T + 'new_token': True, EP: True, T + 'is_setup': False}
    so = state_outcomes(fsm, DIN, dict(tok, **{T + 'is_out': True, T + 'is_in': False, T + 'is_ping': False}))
    sp = state_outcomes(fsm, DIN, dict(tok, **{T + 'is_out': False, T + 'is_in': False, T + 'is_ping': True}))
    si = state_outcomes(fsm, DIN, dict(tok, **{T + 'is_out': False, T + 'is_in': True, T + 'is_ping': False}))
    ctx.need(len(so) == 1, 'successor of the IN-data state on an OUT token')
    SOUT = list(so)[0]
    ok = SOUT not in (None, W, DIN, DOUT, SIN) and set(sp) == {SOUT} and set(si) == {None}
    ctx.ob('C07.stage-order', 'USBControlEndpoint.in-data->out-status', ok, fsm.state_loc[DIN],
           'an IN data stage is followed by an OUT status stage (on an OUT or PING token), IN tokens keep it in the data stage: %s %s %s' % (
               sorted(map(str, so)), sorted(map(str, sp)), sorted(map(str, si))))
    s2 = state_outcomes(fsm, DOUT, dict(tok, **{T + 'is_out': False, T + 'is_in': True, T + 'is_ping': False}))
    s3 = state_outcomes(fsm, DOUT, dict(tok, **{T + 'is_out': True, T + 'is_in': False, T + 'is_ping': False}))
    ctx.ob('C07.stage-order', 'USBControlEndpoint.out-data->in-status', set(s2) == {SIN} and set(s3) == {None}, fsm.state_loc[DOUT],
           'an OUT data stage is followed by an IN status stage (on an IN token): %s %s' % (sorted(map(str, s2)), sorted(map(str, s3))))
    role = {W: 'setup-wait', DIN: 'in-data', DOUT: 'out-data', SIN: 'in-status', SOUT: 'out-status'}
    ctx.ob('C07.stage-order', 'USBControlEndpoint.states', set(fsm.states) == set(role), fsm.loc, 'exactly the five stage states exist: %s' % fsm.states)
    # (a) a SETUP token always restarts
    for s in fsm.states:
        if s == W:
            continue
        o = state_outcomes(fsm, s, {T + 'new_token': True, T + 'is_setup': True, T + 'is_in': False, T + 'is_out': False, T + 'is_ping': False})
        ctx.ob('C07.setup-restarts', 'USBControlEndpoint.%s' % role.get(s, s), set(o) == {W}, fsm.state_loc[s],
               'a new SETUP token must return state %s to the setup-wait state: %s' % (s, sorted(map(str, o))))
        # other endpoints' tokens do nothing
        o = state_outcomes(fsm, s, {EP: False, T + 'is_setup': False})
        ctx.ob('C07.isolation', 'USBControlEndpoint.%s.other-endpoint' % role.get(s, s), set(o) == {None}, fsm.state_loc[s],
               'non-SETUP tokens for other endpoints must not advance the control transfer: %s' % sorted(map(str, o)))
    # strobes
    dr = q.raises(ir, 'request_mux.shared.data_requested')
    ok = len(dr) == 1 and q.state_of(dr[0]) == DIN and q.atoms(dr[0]) == {(T + 'ready_for_response', True), (EP, True), (T + 'is_in', True)}
    ctx.ob('C07.data-requested', 'USBControlEndpoint.data_requested', ok, dr[0].loc if dr else None,
           'data_requested only in the IN-data state for an IN token of this endpoint after the inter-packet gap: %s' % [q.fmt(a) for a in dr])
    sr = q.raises(ir, 'request_mux.shared.status_requested')
    want = {SIN: {(T + 'ready_for_response', True), (EP, True), (T + 'is_in', True)},
            SOUT: {('self.interface.rx_ready_for_response', True), (EP, True), (T + 'is_out', True)}}
    got = {q.state_of(a): q.atoms(a) for a in sr}
    ctx.ob('C07.status-requested', 'USBControlEndpoint.status_requested', got == want and len(sr) == 2, sr[0].loc if sr else None,
           'status_requested only in the status states, IN status on an IN token, OUT status after a received OUT data packet: %s' % {k: sorted(v) for k, v in got.items()})
    # (c) endpoint atom on everything that touches the handler / bus
    for a in ir.assigns:
        if not a.state:
            continue
        a = q.fold(ir, a)                  # `strobe.eq(cond)`: the condition counts as part of the guard
        ctx.ob('C07.endpoint-gate', 'USBControlEndpoint.%s@%s' % (a.lhs.canon(), role.get(q.state_of(a), '?')), (EP, True) in q.atoms(a), a.loc,
               'every stage-dependent strobe must be gated by the endpoint number: %s' % q.fmt(a))
    for e in fsm.edges:
        if e.dst == W and q.has(e, T + 'is_setup'):
            continue
        ctx.ob('C07.endpoint-gate', 'USBControlEndpoint.edge.%s->%s' % (role.get(e.src, e.src), role.get(e.dst, e.dst)), (EP, True) in q.atoms(e), e.loc,
               'every stage-advancing edge must be gated by the endpoint number: %s' % q.fmt(e))
    # (d) handler side
    h = ctx.ir('StandardRequestHandler', 'request.standard')
    hf = ctx.the_fsm(h)
    idle = hf.init
    for s in hf.states:
        if s == idle:
            continue
        o = state_outcomes(hf, s, {'self.interface.setup.received': True, 'self.interface.handshakes_in.ack': False,
                                   'self.interface.status_requested': False, 'self.interface.data_requested': False})
        handles = any('self.interface.setup.received' in {a for a, _ in q.atoms(e)} for e in hf.out_edges(s))
        ctx.ob('C07.handler-fresh-start', 'StandardRequestHandler.%s' % s, handles and None not in o, hf.state_loc[s],
               'state %s ignores a new setup.received: only the idle state dispatches on it, so after an abandoned transfer the '
               'handler answers the next request from a stale state' % s)
