"""C19 -- USB2 reset, high-speed handshake and suspend follow the line-state timing rules."""
import re

from ..ir import E
from .. import q
from ..fsm import state_outcomes, reaches, find_path, reachable
from ..flow import reg_flow

TITLE = 'USB2 reset / chirp / suspend sequencing'
FLOOR = 30
DECIDES = ('On the FSM of USBResetSequencer, states identified by what they do (role), constants folded at 60 MHz: '
           '(a) every edge into the chirp-start state (sets operating mode CHIRP) carries ~low_speed_only & '
           '~full_speed_only; (b) the high-speed state is entered only from the J-timing state under line_state_time == '
           '2.5us & valid_pairs == 2, or from suspend under was_hs_pre_suspend; every path from chirp-start to it passes the '
           'device-chirp state (the only state driving tx.valid, left at 2 ms clearing timer and pair count); in both timing '
           'states "line left the state" beats "long enough" (exact last-wins outcome), entry clears the duration counter, '
           'pairs are counted only in the J-timing state and the host-chirp timeout (2.5 ms) beats everything and leads to '
           'the full/low-speed fallback; (c) in high-speed operation a restriction leads to the fallback state whatever '
           'else holds; (d) every bus_reset site is guarded by ~vbus_connected or by timer == C with C = 5us (LS/FS '
           'operation), 2.5us (suspended) or 200us in the discrimination state that is entered only after 3 ms of SE0 at '
           'high speed, in states that clear the timer whenever the line is not SE0; (e) suspend is entered only at '
           'line_state_time == 3 ms (cleared on ~bus_idle and on every entry into the LS/FS operating state) or through the HS '
           'discrimination state on J, and the registered '
           'flag tested on the resume edge into high speed is, by forward dataflow of its possible values over the whole '
           'FSM, certainly 1 after the entry from the discrimination state and certainly 0 after every other entry into '
           'suspend; (f) counters cover '
           '3 ms. ')
NOT_DECIDED = 'glitch-level line-state histories and the analog side of chirping.'
US = 60          # cycles per microsecond at the 60 MHz UTMI clock
LS, FS = 'self.low_speed_only', 'self.full_speed_only'


def run(ctx):
    ir = ctx.ir('USBResetSequencer', 'usb2.reset')
    fsm = ctx.the_fsm(ir)

    def state_writing(sig, val, uncond=True):
        out = {q.state_of(a) for a in ir.drivers(sig, exact=True) if a.rhs.op == 'const' and a.rhs.val == val and a.state
               and (not uncond or not a.guard)}
        return out
    chirp_start = state_writing('self.operating_mode', 2)
    ctx.need(len(chirp_start) == 1, 'chirp-start state (operating_mode <= CHIRP)')
    chirp_start = chirp_start.pop()
    dev = {q.state_of(a) for a in q.raises(ir, 'self.tx.valid')}
    ctx.ob('C19.chirp-only-in-chirp-state', 'USBResetSequencer.tx.valid', len(dev) == 1 and None not in dev, None,
           'tx.valid may be driven in exactly one state: %s' % sorted(map(str, dev)))
    dev = sorted(map(str, dev))[0]
    hs_set = state_writing('self.termination_select', 0)
    ctx.need(len(hs_set) == 1, 'high-speed state (termination_select <= HS_NORMAL)')
    hs_set = hs_set.pop()
    hs_run = {e.dst for e in fsm.out_edges(hs_set)}
    ctx.need(len(hs_run) == 1, 'high-speed operating state')
    hs_run = hs_run.pop()
    susp = {q.state_of(a) for a in q.raises(ir, 'self.suspended')}
    ctx.need(len(susp) == 1, 'suspended state')
    susp = susp.pop()
    fallback = {q.state_of(a) for a in ir.drivers('self.current_speed', exact=True) if q.has(a, LS) and a.rhs.is_const(2)
                and any(q.has(b, LS, False) and b.state == a.state for b in ir.drivers('self.current_speed', exact=True))}
    ctx.need(len(fallback) == 1, 'full/low-speed fallback state')
    fallback = fallback.pop()
    detect = {q.state_of(a) for a in ir.drivers('was_hs_pre_suspend', exact=True) if q.is_one(a.rhs)}
    ctx.need(len(detect) == 1, 'HS reset/suspend discrimination state')
    detect = detect.pop()
    lsfs_run = {e.dst for e in fsm.out_edges(fsm.init)}
    ctx.need(len(lsfs_run) == 1, 'LS/FS operating state')
    lsfs_run = lsfs_run.pop()
    role = {chirp_start: 'chirp-start', dev: 'device-chirp', hs_set: 'hs-set', hs_run: 'hs-run', susp: 'suspended',
            fallback: 'fallback', detect: 'hs-detect', lsfs_run: 'lsfs-run', fsm.init: 'init'}
    R = lambda s: role.get(s, 'state#%d' % fsm.states.index(s)) if s in fsm.states else str(s)

    # (a)
    for e in fsm.in_edges(chirp_start):
        ok = q.has(e, LS, False) and q.has(e, FS, False)
        ctx.ob('C19.no-chirp-when-restricted', 'USBResetSequencer.%s->chirp-start' % R(e.src), ok, e.loc,
               'the high-speed handshake may only start under ~low_speed_only & ~full_speed_only: %s' % q.fmt(e))
    # (b)
    T25 = '%d == line_state_time' % int(2.5 * US)
    j_states = set()
    # the K-J pair counter by role: the local register compared with 2 on the (non-resume) edges into the high-speed state
    pc = {m_.group(1) for e in fsm.in_edges(hs_set) if e.src != susp for a_, p_ in q.atoms(e) if p_
          for m_ in [re.match(r'^2 == ([A-Za-z_][\w#]*)$', a_)] if m_ and m_.group(1) in ir.signals}
    PAIRS = pc.pop() if len(pc) == 1 else '<pair counter>'      # none / ambiguous: the obligations below fail
    for e in fsm.in_edges(hs_set):
        if e.src == susp:
            ok = q.has(e, 'was_hs_pre_suspend')
        else:
            ok = q.has(e, T25) and q.has(e, '2 == ' + PAIRS)
            j_states.add(e.src)
        ctx.ob('C19.hs-entry', 'USBResetSequencer.%s->hs-set' % R(e.src), ok, e.loc,
               'high speed may only be entered after the third valid K-J pair (2.5us each) or when resuming from a '
               'high-speed suspend: %s' % q.fmt(e))
    ctx.need(len(j_states) == 1, 'J-timing state')
    jt = j_states.pop()
    p = find_path(fsm, chirp_start, hs_set, avoid={dev})
    ctx.ob('C19.device-chirp-dominates', 'USBResetSequencer.chirp-start=>hs-set', p is None, fsm.state_loc[chirp_start],
           'a path reaches high speed without the device chirp: %s' % [(e.src, e.dst) for e in p or []])
    T2MS = '%d == timer' % (2000 * US)
    o = state_outcomes(fsm, dev, {T2MS: False})
    o2 = state_outcomes(fsm, dev, {T2MS: True})
    clr = [a for a in ir.assigns if a.state == (fsm.id, dev) and q.is_zero(a.rhs) and q.has(a, T2MS)]
    ok = set(o) == {None} and len(o2) == 1 and None not in o2 and {a.lhs.canon() for a in clr} >= {'timer', PAIRS}
    ctx.ob('C19.device-chirp-2ms', 'USBResetSequencer.device-chirp.exit', ok, fsm.state_loc[dev],
           'the device chirp lasts until timer == 2 ms and then clears timer and valid_pairs: stay=%s go=%s' % (
               sorted(map(str, o)), sorted(map(str, o2))))
    # timing states
    TO = '%d == timer' % (2500 * US)
    await_k = {e.dst for e in fsm.out_edges(jt) if q.has(e, T25) and q.has(e, '2 == ' + PAIRS, False)}
    ctx.need(len(await_k) == 1, 'await-K state')
    await_k = await_k.pop()
    kt = {e.dst for e in fsm.out_edges(await_k) if q.has(e, '2 == self.line_state')}
    ctx.need(len(kt) == 1, 'K-timing state')
    kt = kt.pop()
    await_j = {e.dst for e in fsm.out_edges(kt) if q.has(e, T25)}
    ctx.need(len(await_j) == 1, 'await-J state')
    await_j = await_j.pop()
    role.update({jt: 'j-timing', kt: 'k-timing', await_k: 'await-k', await_j: 'await-j'})
    for tstate, line, back in ((kt, '2 == self.line_state', await_k), (jt, '1 == self.line_state', await_j)):
        o = state_outcomes(fsm, tstate, {T25: True, line: False, TO: False})
        ctx.ob('C19.line-left-beats-long-enough', 'USBResetSequencer.%s' % R(tstate), set(o) == {back}, fsm.state_loc[tstate],
               'when the line left the chirp state in the very cycle the 2.5us count is reached the pair must not count: '
               'outcomes %s, expected %s' % (sorted(map(R, o)), R(back)))
        o = state_outcomes(fsm, tstate, {T25: False, line: True, TO: False})
        ctx.ob('C19.chirp-needs-2.5us', 'USBResetSequencer.%s.wait' % R(tstate), set(o) == {None}, fsm.state_loc[tstate],
               'a chirp state shorter than 2.5us must not advance: %s' % sorted(map(R, o)))
        ent = [e for e in fsm.in_edges(tstate)]
        ok = ent and all(any(a.state == e.state and q.atoms(a) == q.atoms(e) and a.lhs.canon() == 'line_state_time' and
                             q.is_zero(a.rhs) for a in ir.assigns) for e in ent)
        ctx.ob('C19.duration-from-entry', 'USBResetSequencer.%s.entry' % R(tstate), bool(ok), fsm.state_loc[tstate],
               'every entry into a chirp timing state must clear line_state_time')
    for s, line in ((await_k, '2 == self.line_state'), (kt, None), (await_j, '1 == self.line_state'), (jt, None)):
        # in the two waiting states a chirp that starts in the very cycle of the deadline may still be taken
        asg = {TO: True}
        if line:
            asg[line] = False
        o = state_outcomes(fsm, s, asg)
        ctx.ob('C19.chirp-timeout-fallback', 'USBResetSequencer.%s' % R(s), set(o) == {fallback}, fsm.state_loc[s],
               'when the host chirp does not complete within 2.5 ms the device must fall back to full/low speed whatever '
               'else holds: outcomes %s' % sorted(map(R, o)))
    inc = [a for a in ir.drivers(PAIRS, exact=True) if isinstance(a.rhs, E) and a.rhs.op == '+']
    ok = len(inc) == 1 and q.state_of(inc[0]) == jt and q.has(inc[0], T25) and q.has(inc[0], '2 == ' + PAIRS, False)
    ctx.ob('C19.pair-count', 'USBResetSequencer.valid_pairs.inc', ok, inc[0].loc if inc else None,
           'pairs are counted only after a full J in the J-timing state: %s' % [q.fmt(a) for a in inc])
    # (c)
    o = state_outcomes(fsm, hs_run, {'%s | %s' % (FS, LS): True})
    ctx.ob('C19.restriction-leaves-hs', 'USBResetSequencer.hs-run', set(o) == {fallback}, fsm.state_loc[hs_run],
           'a full/low-speed restriction must leave high-speed operation whatever else holds: %s' % sorted(map(R, o)))
    fb = [a for a in ir.assigns if a.state == (fsm.id, fallback) and a.lhs.canon() == 'self.termination_select']
    ctx.ob('C19.restriction-leaves-hs', 'USBResetSequencer.fallback.termination', len(fb) == 1 and q.is_one(fb[0].rhs) and not fb[0].guard,
           None, 'the fallback state restores full-speed terminations')
    # (d)
    want = {lsfs_run: 5 * US, susp: int(2.5 * US), detect: 200 * US}
    for a in q.raises(ir, 'self.bus_reset'):
        st = q.state_of(a)
        if q.has(a, 'self.vbus_connected', False):
            ctx.ob('C19.bus-reset-guard', 'USBResetSequencer.bus_reset@%s.vbus' % R(st), True, a.loc, 'VBUS absent')
            continue
        ks = q.guard_consts(a, 'timer')
        k = [v for v, pos in ks.items() if pos]
        ok = st in want and k == [want[st]]
        ctx.ob('C19.bus-reset-guard', 'USBResetSequencer.bus_reset@%s' % R(st), ok, a.loc,
               'bus_reset must be guarded by ~vbus_connected or timer == %s cycles in this state: %s' % (want.get(st), q.fmt(a)))
        if st in (lsfs_run, susp):
            clr = [c for c in ir.drivers('timer', exact=True) if c.state == a.state and q.is_zero(c.rhs)
                   and q.atoms(c) == {('0 == self.line_state', False)}]
            ctx.ob('C19.se0-continuous', 'USBResetSequencer.timer-clear@%s' % R(st), len(clr) == 1, a.loc,
                   'the SE0 timer must be cleared whenever the line is not SE0 in this state')
    ins = fsm.in_edges(detect)
    ok = len(ins) == 1 and ins[0].src == hs_run and q.has(ins[0], '%d == timer' % (3000 * US))
    ctx.ob('C19.hs-reset-3ms', 'USBResetSequencer.hs-run->hs-detect', ok, ins[0].loc if ins else None,
           'the discrimination state is entered only after 3 ms of SE0 in high-speed operation')
    clr = [c for c in ir.drivers('timer', exact=True) if c.state == (fsm.id, hs_run) and q.is_zero(c.rhs)
           and q.atoms(c) == {('0 == self.line_state', False)}]
    ctx.ob('C19.se0-continuous', 'USBResetSequencer.timer-clear@hs-run', len(clr) == 1, None, 'SE0 timer cleared on non-SE0 in HS')
    # (e)
    T3 = '%d == line_state_time' % (3000 * US)
    for e in fsm.in_edges(susp):
        if e.src == detect:
            ok = q.has(e, '1 == self.line_state') and q.has(e, '%d == timer' % (200 * US))
        else:
            ok = e.src == lsfs_run and q.has(e, T3)
        ctx.ob('C19.suspend-entry', 'USBResetSequencer.%s->suspended' % R(e.src), ok, e.loc,
               'suspend only after 3 ms of continuous idle (or J after the HS discrimination): %s' % q.fmt(e))
    # (e') the resume-to-high-speed flag (the register tested on the suspend -> high-speed edge) must say how suspend was
    # entered: forward dataflow of its possible values {0, 1} over the FSM (last assignment wins on every edge)
    flags = {a_ for e in fsm.in_edges(hs_set) if e.src == susp for a_, p_ in q.atoms(e) if p_ and a_ in ir.signals
             and ir.signals[a_].w == 1 and any(d.domain != 'comb' for d in ir.drivers(a_, exact=True))}
    ctx.need(len(flags) == 1, 'the registered flag tested on the resume edge into high speed (found %s)' % sorted(flags))
    flag = flags.pop()
    after, possible = reg_flow(ir, fsm, flag)
    for e in fsm.in_edges(susp):
        want_v = {1} if e.src == detect else {0}
        got = after(e, possible[e.src])
        ctx.ob('C19.resume-flag', 'USBResetSequencer.%s->suspended.flag' % R(e.src), got == want_v, e.loc,
               'when suspend is entered from the %s state the flag %s (which sends a resume back to high speed) must be %d '
               'whatever happened before; possible values after this edge: %s (possible values in the %s state: %s)' % (
                   R(e.src), flag, min(want_v), sorted(got), R(e.src), sorted(possible[e.src])))
    clr = [c for c in ir.drivers('line_state_time', exact=True) if c.state == (fsm.id, lsfs_run) and q.is_zero(c.rhs)
           and q.atoms(c) == {('bus_idle', False)}]
    ctx.ob('C19.idle-continuous', 'USBResetSequencer.line_state_time-clear@lsfs-run', len(clr) == 1, None,
           'the idle timer must be cleared whenever the bus is not idle')
    # ... and the 3 ms are measured from the entry: every edge into the LS/FS operating state restarts the idle timer (the
    # counter free-runs through the reset / chirp states, a stale count would shorten the first suspend after a reset)
    for e in fsm.in_edges(lsfs_run):
        if e.src == lsfs_run:
            continue
        here = sorted([a for a in ir.drivers('line_state_time', exact=True) if a.state == e.state], key=lambda a: a.order)
        sure = [a for a in here if q.atoms(a) <= q.atoms(e)]
        ok = bool(sure) and q.is_zero(sure[-1].rhs) and not any(
            a.order > sure[-1].order and not q.is_zero(a.rhs) and not (q.atoms(a) <= q.atoms(e)) for a in here)
        ctx.ob('C19.idle-from-entry', 'USBResetSequencer.%s->lsfs-run.line_state_time' % R(e.src), ok, e.loc,
               'every entry into the LS/FS operating state must restart the idle timer line_state_time, otherwise suspend is '
               'entered after less than 3 ms of idle: writers on this edge: %s' % [q.fmt(a)[:120] for a in sure] )
    bi = ir.drivers('bus_idle', exact=True)
    vals = sorted((tuple(sorted(q.guard_consts(a, 'self.current_speed').items())), a.rhs.canon()) for a in bi)
    ok = len(bi) == 3 and any(r == '1 == self.line_state' for _, r in vals) and any(r == '2 == self.line_state' for _, r in vals)
    ctx.ob('C19.idle-continuous', 'USBResetSequencer.bus_idle', ok, bi[0].loc if bi else None, 'bus idle = J for the current speed: %s' % vals)
    # (f)
    for c in ('timer', 'line_state_time'):
        si = ir.signals.get(c)
        ctx.ob('C19.counter-range', 'USBResetSequencer.' + c, si is not None and si.rng and si.rng[1] - 1 >= 3000 * US, si.loc if si else None,
               '%s must count to 3 ms (%d cycles): range %s' % (c, 3000 * US, si.rng if si else None))
        inc = [a for a in ir.drivers(c, exact=True) if a.state is None]
        ctx.ob('C19.counter-range', 'USBResetSequencer.%s.inc' % c, len(inc) == 1 and inc[0].rhs.canon() == '1 + ' + c and not inc[0].guard,
               None, '%s counts every cycle unless cleared' % c)
