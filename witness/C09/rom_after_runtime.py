"""Witness for C09 (GetDescriptorHandlerMux): a device with ROM descriptors and one runtime (gateware-generated) string
descriptor.  GET_DESCRIPTOR(STRING 5, runtime) followed by GET_DESCRIPTOR(DEVICE): the second request is for a descriptor
that exists, so it must be answered with its bytes -- not STALLed.
Run:  cd /repo && /venv/bin/python /verif/witness/C09/rom_after_runtime.py  (documentation only)"""
import sys, unittest
sys.path.insert(0, '.')
from luna.gateware.test import usb_domain_test_case
from luna.gateware.test.usb2 import USBDeviceTest
from luna.gateware.usb.usb2.device import USBDevice
from luna.gateware.usb.usb2.descriptor import USBDescriptorStreamGenerator
from usb_protocol.emitters.descriptors import DeviceDescriptorCollection
from usb_protocol.emitters.descriptors.standard import get_string_descriptor
from usb_protocol.types import USBPacketID
from usb_protocol.types.descriptors.standard import StandardDescriptorNumbers as T

SERIAL = get_string_descriptor("RUNTIME-0001")


class W(USBDeviceTest):
    FRAGMENT_UNDER_TEST = USBDevice
    FRAGMENT_ARGUMENTS = {'handle_clocking': False}

    def initialize_signals(self):
        yield self.utmi.line_state.eq(0b01)
        yield self.dut.connect.eq(1)
        yield self.utmi.tx_ready.eq(1)

    def provision_dut(self, dut):
        self.descriptors = d_ = DeviceDescriptorCollection()
        with d_.DeviceDescriptor() as d:
            d.idVendor, d.idProduct = 0x1209, 0x0001
            d.iManufacturer, d.iProduct = "LUNA", "Test Device"
            d.bNumConfigurations = 1
        with d_.ConfigurationDescriptor() as c:
            with c.InterfaceDescriptor() as i:
                i.bInterfaceNumber = 0
                with i.EndpointDescriptor() as e:
                    e.bEndpointAddress, e.wMaxPacketSize = 0x81, 512
        d_.add_descriptor(lambda: USBDescriptorStreamGenerator(SERIAL), index=5, descriptor_type=T.STRING)
        dut.add_standard_control_endpoint(d_)

    @usb_domain_test_case
    def test_rom_after_runtime(self):
        yield from self.advance_cycles(10)
        device = self.descriptors.get_descriptor_bytes(T.DEVICE)
        h, data = yield from self.get_descriptor(T.DEVICE, length=18)
        print('DEVICE first            ->', h, bytes(data).hex())
        self.assertEqual(bytes(data), device)
        h, data = yield from self.get_descriptor(T.STRING, index=5, length=255)
        print('STRING 5 (runtime)      ->', h, bytes(data).hex())
        self.assertEqual(bytes(data), SERIAL)
        h, data = yield from self.get_descriptor(T.DEVICE, length=18)
        print('DEVICE after runtime    ->', h, bytes(data).hex() if data else data)
        self.assertEqual(h, USBPacketID.ACK, 'a descriptor that exists was not delivered')
        self.assertEqual(bytes(data), device)


if __name__ == '__main__':
    unittest.main(argv=['w'])
