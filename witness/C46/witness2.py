"""Witness 2 for C46: NRDY/ERDY path.  Run: PYTHONPATH=/repo /venv/bin/python witness2.py"""
from amaranth import *
from amaranth.sim import Simulator
from luna.gateware.usb.usb3.endpoints.stream import SuperSpeedStreamInEndpoint
from luna.gateware.usb.usb3.protocol.endpoint import SuperSpeedEndpointMultiplexer
from luna.gateware.usb.usb3.protocol.transaction import TransactionPacketGenerator

EP, MPS = 1, 16


class Top(Elaboratable):
    def __init__(self, with_mux):
        self.with_mux = with_mux
        self.ep = SuperSpeedStreamInEndpoint(endpoint_number=EP, max_packet_size=MPS)
        self.mux = SuperSpeedEndpointMultiplexer()
        self.gen = TransactionPacketGenerator()
        self.hs_in = self.mux.shared.handshakes_in if with_mux else self.ep.interface.handshakes_in

    def elaborate(self, platform):
        m = Module()
        m.submodules.ep, m.submodules.gen = self.ep, self.gen
        if self.with_mux:                                   # as USBSuperSpeedDevice + USB3ProtocolLayer do
            m.submodules.mux = self.mux
            self.mux.add_interface(self.ep.interface)
            m.d.comb += self.gen.interface.connect(self.mux.shared.handshakes_out)
        else:
            m.d.comb += self.gen.interface.connect(self.ep.interface.handshakes_out)
        m.d.comb += self.gen.header_source.ready.eq(1)
        return m


def run(with_mux):
    dut = Top(with_mux)
    hs = dut.hs_in
    tps = []

    async def monitor(ctx):
        # TransactionHeaderPacket DW1: subtype[0:4] ... direction[7] endpoint_number[8:12]
        async for _, _, v, dw1 in ctx.tick('ss').sample(dut.gen.header_source.valid, dut.gen.header_source.header.dw1):
            if v:
                tps.append(dict(subtype={1: 'ACK', 2: 'NRDY', 3: 'ERDY', 5: 'STALL'}.get(dw1 & 0xf, dw1 & 0xf),
                                ep=(dw1 >> 8) & 0xf, dir_in=(dw1 >> 7) & 1))

    async def tb(ctx):
        ep = dut.ep
        await ctx.tick('ss').repeat(2)
        # IN request while the endpoint holds no data -> NRDY for endpoint 1 expected
        ctx.set(hs.endpoint_number, EP); ctx.set(hs.number_of_packets, 1); ctx.set(hs.ack_received, 1)
        await ctx.tick('ss')
        ctx.set(hs.ack_received, 0)
        await ctx.tick('ss').repeat(6)
        # data arrives -> ERDY for endpoint 1 expected
        for k, last in ((1, 0), (2, 1)):
            ctx.set(ep.stream.payload, k); ctx.set(ep.stream.valid, 0b1111); ctx.set(ep.stream.last, last)
            await ctx.tick('ss')
        ctx.set(ep.stream.valid, 0); ctx.set(ep.stream.last, 0)
        await ctx.tick('ss').repeat(20)

    sim = Simulator(dut)
    sim.add_clock(8e-9, domain='ss')
    sim.add_testbench(monitor, background=True)
    sim.add_testbench(tb)
    sim.run()
    return tps


print('expected transaction packets: NRDY(ep 1, IN) then ERDY(ep 1, IN)')
print('endpoint -> generator directly :', run(False))
print('endpoint -> multiplexer -> gen :', run(True))
