#!/bin/bash
# benign_rename_check.sh [--tests] -- stress variant: every plainly assigned local variable of every function under luna/gateware is
# renamed (tools/rename_locals.py --all) in a scratch copy; with --tests the repository's test suite is run on the copy first
# (the variant must be behaviour-preserving); then every check runs with --repo on it and must stay at exit 0.
cd /verif
S=$(mktemp -d /tmp/rn_XXXXXX); cp -r /repo/luna $S/luna
/venv/bin/python tools/rename_locals.py $S _zz --all
if [ "$1" = "--tests" ]; then cp -r /repo/tests $S/tests; (cd $S && PYTHONPATH=$S /venv/bin/python -m pytest -q -p no:cacheprovider --timeout=900 tests 2>&1 | tail -1); fi
ls sa/rules | grep '^C[0-9]' | sed 's/.py//' | xargs -P 16 -I{} sh -c "/venv/bin/python vcheck {} --repo $S > $S/{}.txt 2>&1; echo \"{} \$?\"" | sort > $S/all.txt
bad=0
while read p rc; do
  if [ "$rc" != "0" ]; then bad=1; echo "  $p exit $rc"; grep -v '^KNOWN' $S/$p.txt | grep '^  [^a]\|ANALYSIS' | cut -c1-300 | head -4; fi
done < $S/all.txt
[ $bad -eq 0 ] && echo "renamed-locals variant: all $(wc -l < $S/all.txt) checks exit 0"
rm -rf $S
git checkout -- evidence 2>/dev/null
exit $bad
