"""C03 -- USB2 transmitted data packets are correctly framed with a valid CRC16."""
from ..ir import E
from .. import q
from ..fsm import state_outcomes, unreachable_states, guard_atoms

TITLE = 'USB2 data packet transmission'
FLOOR = 20
DECIDES = ('On USBDataPacketGenerator (states by role): (a) the sending states form the chain PID -> payload -> CRC low byte -> '
           'CRC high byte -> idle, each holds tx.valid and advances only under tx.ready (exact outcomes), a zero-length request '
           '(last & valid without first) skips the payload state; (b) the PID table folds to DATA0/1/2/MDATA = C3/4B/87/0F '
           '(each low nibble a DATA PID, high nibble its complement), is indexed by data_pid and latched only in idle; (c) the '
           'first CRC byte is crc[0:8], the second is a register captured from crc[8:16] in the first-CRC state (the CRC unit '
           'keeps advancing with transmitted bytes); (d) crc.start only in the PID state; (e) the payload state is a pure '
           'stream<->tx bridge (valid, data, ready) and stream.ready is never raised elsewhere, so every accepted byte is a '
           'transmitted byte; it ends only on an accepted byte that is last or on loss of valid; (f) USBDevice advances the '
           'transmit CRC with tx_multiplexer.output.valid & utmi.tx_ready on the multiplexer output data. ')
NOT_DECIDED = 'exactly-once under all tx_ready stall patterns depends on the PHY honouring the UTMI handshake; CRC equations are C30.'
TR = 'self.tx.ready'


def run(ctx):
    ir = ctx.ir('USBDataPacketGenerator', 'usb2.packet')
    fsm = ctx.the_fsm(ir)
    idle = fsm.init
    st = q.raises(ir, 'self.crc.start')
    ctx.need(len(st) == 1 and st[0].state, 'crc.start site')
    P = q.state_of(st[0])
    ctx.ob('C03.crc-start', 'USBDataPacketGenerator.crc.start', not st[0].guard, st[0].loc, 'the CRC restarts while the PID is sent, unconditionally')
    # the zero-length flag by role: the one condition besides tx.ready that the edges out of the PID state test
    from ..fsm import lit_atoms
    zf = sorted({a for e in fsm.out_edges(P) for l in e.guard for a in lit_atoms(l)} - {TR})      # leaf conditions (an Elif arm negates a compound)
    ctx.need(len(zf) == 1 and zf[0] in ir.signals, 'the zero-length flag tested when leaving the PID state (found %s)' % zf)
    ZLP = zf[0]
    oz = state_outcomes(fsm, P, {TR: True, ZLP: True})
    on = state_outcomes(fsm, P, {TR: True, ZLP: False})
    ctx.need(len(oz) == 1 and len(on) == 1, 'successors of the PID state')
    C1, PAY = list(oz)[0], list(on)[0]
    o = state_outcomes(fsm, C1, {TR: True})
    ctx.need(len(o) == 1, 'successor of the first CRC state')
    C2 = list(o)[0]
    role = {idle: 'idle', P: 'pid', PAY: 'payload', C1: 'crc-low', C2: 'crc-high'}
    ctx.ob('C03.chain', 'USBDataPacketGenerator.distinct-states', len(set(role)) == 5 and not unreachable_states(fsm) and len(fsm.states) == 5,
           fsm.loc, 'PID / payload / CRC-low / CRC-high / idle are five distinct reachable states: %s' % role)
    for s in (P, PAY, C1, C2):
        hold = state_outcomes(fsm, s, {TR: False})
        ctx.ob('C03.wait-for-ready', 'USBDataPacketGenerator.%s.hold' % role.get(s), set(hold) == {None}, fsm.state_loc.get(s),
               'a sending state must not advance while the PHY has not accepted the byte: %s' % sorted(map(str, hold)))
    ctx.ob('C03.chain', 'USBDataPacketGenerator.crc-high->idle', set(state_outcomes(fsm, C2, {TR: True})) == {idle}, fsm.state_loc.get(C2), 'after the second CRC byte the generator is idle')
    pe = state_outcomes(fsm, PAY, {TR: True, 'self.stream.last': True, 'self.stream.valid': True})
    pe2 = state_outcomes(fsm, PAY, {TR: True, 'self.stream.valid': False})
    ps = state_outcomes(fsm, PAY, {TR: True, 'self.stream.last': False, 'self.stream.valid': True})
    ctx.ob('C03.chain', 'USBDataPacketGenerator.payload-exit', set(pe) == {C1} and set(pe2) == {C1} and set(ps) == {None}, fsm.state_loc.get(PAY),
           'the payload state ends on an accepted last byte (or loss of valid) and nowhere else: %s / %s' % (sorted(map(str, pe)), sorted(map(str, ps))))
    # idle edges
    F_, V_, L_ = 'self.stream.first', 'self.stream.valid', 'self.stream.last'
    o1 = state_outcomes(fsm, idle, {F_: True, V_: True})
    o2 = state_outcomes(fsm, idle, {F_: False, L_: True, V_: True})
    o3 = state_outcomes(fsm, idle, {V_: False})
    o4 = state_outcomes(fsm, idle, {F_: False, L_: False})
    ctx.ob('C03.start', 'USBDataPacketGenerator.idle-exits', set(o1) == {P} and set(o2) == {P} and set(o3) == {None} and set(o4) == {None},
           fsm.state_loc[idle], 'a packet starts on first&valid, or on last&valid without first (ZLP), and on nothing else: %s %s %s %s' % (
               sorted(map(str, o1)), sorted(map(str, o2)), sorted(map(str, o3)), sorted(map(str, o4))))
    from ..fsm import holds
    # the value written to the flag in idle, for every valuation of first / last / valid (last assignment wins; the
    # right-hand side may be a constant or an expression over the three stream bits)
    from ..fsm import eval_bool
    zs = sorted([a for a in ir.drivers(ZLP, exact=True) if q.state_of(a) == idle], key=lambda a: a.order)
    zl = {i: a for i, a in enumerate(zs)}
    ok = bool(zs)
    for f_ in (False, True):
        for l_ in (False, True):
            for v_ in (False, True):
                asg = {F_: f_, L_: l_, V_: v_}
                val = None
                for a in zs:
                    if holds(a.guard, asg):
                        val = a.rhs.val if a.rhs.op == 'const' else eval_bool(a.rhs, asg)
                if f_ and v_:
                    ok = ok and val is not None and not val
                elif l_ and v_:
                    ok = ok and bool(val)
    ctx.ob('C03.start', 'USBDataPacketGenerator.is_zlp', ok, None, 'is_zlp is 1 exactly for last-without-first requests and 0 for first&valid: %s' % {k: sorted(q.atoms(v)) for k, v in zl.items()})
    # (b) PID table
    def drv(sig, state):
        return [a for a in ir.drivers(sig, exact=True) if q.state_of(a) == state]

    def reg_shown(state, what):
        """The local register whose value tx.data carries in `state` (found by role, the name is the code's own)."""
        d = drv('self.tx.data', state)
        ctx.need(d, 'tx.data driver in the %s state' % what)
        if len(d) == 1 and isinstance(d[0].rhs, E) and d[0].rhs.op == 'sig' and not d[0].rhs.canon().startswith('self.'):
            return d[0].rhs.canon()
        return None                                 # reported by C03.byte-source / pid-latch / crc-second-byte below
    PIDR, CRC2 = reg_shown(P, 'PID'), reg_shown(C2, 'second CRC byte')
    lp = ir.drivers(PIDR, exact=True) if PIDR else []
    # the PID is looked up by data_pid -- `Array(...)[data_pid]` or one constant per value of data_pid (Switch / If chain)
    ct = q.const_table(lp, 'self.data_pid') if lp else None
    ok = ct is not None and all(q.state_of(a) == idle for a in ct[1]) and not ct[2]
    ctx.ob('C03.pid-latch', 'USBDataPacketGenerator.current_data_pid', ok, lp[0].loc if lp else None, 'the DATA PID is chosen by data_pid and latched only in idle: %s' % [q.fmt(a) for a in lp])
    if ok:
        tbl = ct[0]
        ctx.need(all(isinstance(v, int) for v in tbl), 'constant entries of the PID table (found %s)' % tbl)
        ctx.ob('C03.pid-table', 'USBDataPacketGenerator.pid-table', tbl == [0xC3, 0x4B, 0x87, 0x0F], lp[0].loc,
               'PID bytes for DATA0/DATA1/DATA2/MDATA must be C3/4B/87/0F, found %s' % [hex(v) if isinstance(v, int) else v for v in tbl])
    w = getattr(ir.signals.get('self.data_pid'), 'w', None)
    ctx.ob('C03.pid-table', 'USBDataPacketGenerator.data_pid-width', w == 2, None, 'data_pid selects one of four PIDs (width %s)' % w)

    exp = {P: (PIDR, '1'), C1: ('self.crc.crc[0:8]', '1'), C2: (CRC2, '1'), PAY: ('self.stream.payload', 'self.stream.valid')}
    for s, (data, valid) in exp.items():
        d, v = drv('self.tx.data', s), drv('self.tx.valid', s)
        ok = len(d) == 1 and len(v) == 1 and data is not None and d[0].rhs.canon() == data and v[0].rhs.canon() == valid and not d[0].guard and not v[0].guard
        ctx.ob('C03.byte-source', 'USBDataPacketGenerator.%s.tx' % role[s], ok, d[0].loc if d else fsm.state_loc.get(s),
               'in the %s state tx carries %s (valid=%s): %s' % (role[s], data or 'a local register', valid, [q.fmt(a) for a in d + v]))
    for a in q.raises(ir, 'self.tx.valid'):
        ctx.ob('C03.byte-source', 'USBDataPacketGenerator.tx.valid@%s' % role.get(q.state_of(a), '?'), q.state_of(a) in exp, a.loc, 'tx.valid only in sending states')
    rc = ir.drivers(CRC2, exact=True) if CRC2 else []
    ok = len(rc) == 1 and q.state_of(rc[0]) == C1 and rc[0].rhs.canon() == 'self.crc.crc[8:16]' and not rc[0].guard
    ctx.ob('C03.crc-second-byte', 'USBDataPacketGenerator.remaining_crc', ok, rc[0].loc if rc else None,
           'the high CRC byte is captured from crc[8:16] while the low byte is being sent: %s' % [q.fmt(a) for a in rc])
    # (e) ready
    for a in q.raises(ir, 'self.stream.ready'):
        ok = q.state_of(a) == PAY and q.is_one(a.rhs) and q.atoms(a) == {(TR, True)}
        ctx.ob('C03.ready-only-in-payload', 'USBDataPacketGenerator.stream.ready@%s' % role.get(q.state_of(a), '?'), ok, a.loc,
               'stream.ready may only mirror tx.ready in the payload state: %s' % q.fmt(a))
    ctx.ob('C03.ready-only-in-payload', 'USBDataPacketGenerator.stream.ready.exists', any(q.state_of(a) == PAY for a in q.raises(ir, 'self.stream.ready')), None, 'payload bytes are accepted')
    # (f)
    dev = ctx.ir('USBDevice', 'usb2.device', allow_opaque=True)
    for lhs, rhs in (('data_crc.tx_valid', 'self.utmi.tx_ready & tx_multiplexer.output.valid'), ('data_crc.tx_data', 'tx_multiplexer.output.data')):
        d = dev.drivers(lhs, exact=True)
        ok = len(d) == 1 and d[0].rhs.canon() == rhs and not [x for x in q.atoms(d[0]) if not x[0].startswith('cfg:')]
        ctx.ob('C03.device-wiring', 'USBDevice.' + lhs, ok, d[0].loc if d else None, '%s <= %s: %s' % (lhs, rhs, [q.fmt(x) for x in d]))
